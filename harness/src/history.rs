//! C10 (random access histories), C12 (linear extraction), C13 (throttled sinks / sources),
//! C14 (flush durability): case generators and the properties' own oracles.
#![allow(dead_code)]
use crate::archive::*;
use crate::repair::{model_call, repair_bytes, repair_with, Repaired};
use crate::util::*;
use mla::config::ArchiveWriterConfig;
use mla::{ArchiveHeader, ArchiveWriter};
use serde_json::{json, Value};
use std::cell::RefCell;
use std::io::{self, Cursor, Write};
use std::rc::Rc;
use x25519_dalek::{PublicKey, StaticSecret};

// ------------------------------------------------------------------ a sink the test keeps a handle on

/// Accepts at most `sched[i]` bytes at the i-th write (last entry repeats; empty = everything),
/// reports `Interrupted` at every `intr`-th call (0 = never). The collected bytes are shared so
/// that the test can look at them while the writer still owns the sink.
#[derive(Clone)]
pub struct SharedSink {
    pub data: Rc<RefCell<Vec<u8>>>,
    pub sched: Vec<usize>,
    pub i: usize,
    pub intr: usize,
    pub calls: usize,
}
impl SharedSink {
    pub fn new(sched: Vec<usize>, intr: usize) -> Self {
        SharedSink { data: Rc::new(RefCell::new(Vec::new())), sched, i: 0, intr, calls: 0 }
    }
}
impl Write for SharedSink {
    fn write(&mut self, buf: &[u8]) -> io::Result<usize> {
        self.calls += 1;
        if self.intr > 0 && self.calls % self.intr == 0 {
            return Err(io::Error::new(io::ErrorKind::Interrupted, "interrupted"));
        }
        let k = if self.sched.is_empty() {
            buf.len()
        } else {
            let k = self.sched[self.i.min(self.sched.len() - 1)].max(1);
            if self.i < self.sched.len() - 1 {
                self.i += 1;
            }
            k.min(buf.len())
        };
        self.data.borrow_mut().extend_from_slice(&buf[..k]);
        Ok(k)
    }
    fn flush(&mut self) -> io::Result<()> {
        Ok(())
    }
}

pub struct BuiltSink {
    pub built: Built,
    /// (bytes at the destination when flush() returned, content appended so far per file)
    pub flushes: Vec<(usize, Vec<Vec<u8>>)>,
}

/// Write `plan` into a SharedSink, calling flush() after the pieces listed in `flush_after`.
pub fn build_sink(rng: &mut Rng, plan: &Plan, flush_after: &[usize], sched: Vec<usize>, intr: usize) -> Result<BuiltSink, String> {
    let mut cfg = ArchiveWriterConfig::new();
    cfg.set_layers(layers_of(plan.layers));
    cfg.with_compression_level(plan.level).map_err(|e| format!("{e:?}"))?;
    let mut privs = Vec::new();
    let mut pubs = Vec::new();
    for _ in 0..plan.recipients.max(1) {
        let mut b = [0u8; 32];
        b.copy_from_slice(&rng.bytes(32));
        let s = StaticSecret::from(b);
        pubs.push(PublicKey::from(&s));
        privs.push(s);
    }
    if plan.layers & L_ENC != 0 {
        cfg.add_public_keys(&pubs);
    }
    let key = *cfg.encryption_key();
    let nonce = *cfg.encryption_nonce();
    let sink = SharedSink::new(sched, intr);
    let data = sink.data.clone();
    let mut w = ArchiveWriter::from_config(sink, cfg).map_err(|e| format!("writer: {e:?}"))?;
    let n = plan.names.len();
    let mut ids: Vec<Option<u64>> = vec![None; n];
    let mut contents: Vec<Vec<u8>> = vec![Vec::new(); n];
    let mut flushes = Vec::new();
    let last_piece: Vec<Option<usize>> = (0..n).map(|f| plan.pieces.iter().rposition(|p| p.0 == f)).collect();
    for (k, (f, piece)) in plan.pieces.iter().enumerate() {
        if ids[*f].is_none() {
            let name = String::from_utf8(plan.names[*f].clone()).map_err(|_| "name not utf8")?;
            ids[*f] = Some(w.start_file(&name).map_err(|e| format!("start: {e:?}"))?);
        }
        w.append_file_content(ids[*f].unwrap(), piece.len() as u64, piece.as_slice()).map_err(|e| format!("append: {e:?}"))?;
        contents[*f].extend_from_slice(piece);
        if last_piece[*f] == Some(k) {
            w.end_file(ids[*f].unwrap()).map_err(|e| format!("end: {e:?}"))?;
        }
        if flush_after.contains(&k) {
            w.flush().map_err(|e| format!("flush: {e:?}"))?;
            flushes.push((data.borrow().len(), contents.clone()));
        }
    }
    for f in 0..n {
        if ids[f].is_none() {
            let name = String::from_utf8(plan.names[f].clone()).map_err(|_| "name not utf8")?;
            let id = w.start_file(&name).map_err(|e| format!("start: {e:?}"))?;
            w.end_file(id).map_err(|e| format!("end: {e:?}"))?;
        }
    }
    w.finalize().map_err(|e| format!("finalize: {e:?}"))?;
    drop(w);
    let bytes = data.borrow().clone();
    let mut c = Cursor::new(bytes.as_slice());
    ArchiveHeader::from(&mut c).map_err(|e| format!("header: {e:?}"))?;
    let header_len = c.position() as usize;
    Ok(BuiltSink { built: Built { bytes, header_len, key, nonce, privs, contents }, flushes })
}

fn reader_keys(plan: &Plan, built: &Built) -> Vec<StaticSecret> {
    vec![built.privs[plan.reader_key.min(built.privs.len() - 1)].clone()]
}

fn hist_model(plan: &Plan, built: &Built, ops: &[Vec<u64>]) -> (&'static str, Vec<Value>) {
    let body = &built.bytes[built.header_len..];
    if built.bytes.len() >= 4000 {
        ("", vec![])
    } else if plan.layers == 0 {
        ("hist_plain", vec![jbytes(body), json!(plan.names), json!(ops)])
    } else if plan.layers == L_ENC && cfg!(feature = "scaled") {
        ("hist_enc", vec![jbytes(&built.key), jbytes(&built.nonce), jbytes(body), json!(plan.names), json!(ops)])
    } else {
        ("", vec![])
    }
}

// ------------------------------------------------------------------ C10

/// For each file, the places of its content in the block stream: (stream offset, file offset, length).
/// (FileStart = 17 + name, FileContent header = 17, EndOfFile = 41; files start just before their first piece.)
pub fn content_layout(plan: &Plan) -> Vec<Vec<(usize, usize, usize)>> {
    let n = plan.names.len();
    let mut out = vec![Vec::new(); n];
    let mut foff = vec![0usize; n];
    let mut started = vec![false; n];
    let mut pos = 0usize;
    let last_piece: Vec<Option<usize>> = (0..n).map(|f| plan.pieces.iter().rposition(|p| p.0 == f)).collect();
    for (k, (f, piece)) in plan.pieces.iter().enumerate() {
        if !started[*f] {
            started[*f] = true;
            pos += 17 + plan.names[*f].len();
        }
        if !piece.is_empty() {
            pos += 17;
            out[*f].push((pos, foff[*f], piece.len()));
            pos += piece.len();
            foff[*f] += piece.len();
        }
        if last_piece[*f] == Some(k) {
            pos += 41;
        }
    }
    out
}

fn gen_history(rng: &mut Rng, plan: &Plan, n: usize) -> Vec<Vec<u64>> {
    let nfiles = plan.names.len();
    let layout = content_layout(plan);
    let (ch, bl) = if cfg!(feature = "scaled") { (64usize, 256usize) } else { (131072, 4 << 20) };
    let mut ops = Vec::new();
    for _ in 0..n {
        let i = if rng.below(12) == 0 { nfiles as u64 } else { rng.below(nfiles as u64) };
        // abandon a file exactly where the stream crosses a chunk / block boundary
        if rng.below(4) == 0 && (i as usize) < nfiles && !layout[i as usize].is_empty() {
            let (so, fo, len) = *rng.pick(&layout[i as usize]);
            let unit = *rng.pick(&[ch, bl, bl]);
            let target = (so / unit + 1) * unit;
            if target <= so + len {
                ops.push(vec![2, i, (fo + target - so) as u64]);
                continue;
            }
        }
        match rng.below(10) {
            0 => ops.push(vec![0]),
            1 | 2 => ops.push(vec![1, i]),
            3..=6 => {
                // open, a few reads, abandon
                let mut op = vec![2, i];
                for _ in 0..rng.range(0, 4) {
                    op.push(*rng.pick(&[0u64, 1, 1, 7, 13, 23, 64, 65, 100, 4099]));
                }
                ops.push(op);
            }
            _ => ops.push(vec![3, i, *rng.pick(&[1u64, 7, 13, 64, 100, 4099, 100_000])]),
        }
    }
    ops
}

/// C10: every operation of a history gives what the same operation gives on a freshly opened
/// reader (bytes compared after read-until-n-or-end, so the granularity of single reads is
/// not an observable).
pub fn c10_cases(rng: &mut Rng, tier: &str, out: &mut Out) {
    let n = if tier == "thorough" { 600 } else { 90 };
    let mut k = 0;
    let mut done = 0;
    while done < n {
        let layers = (k % 4) as u8;
        k += 1;
        let plan = gen_plan(rng, layers);
        let Ok(built) = build(rng, &plan) else { continue };
        let total: usize = built.contents.iter().map(|c| c.len()).sum();
        let hl = if tier == "thorough" { rng.range(4, 30) } else { rng.range(4, 14) } as usize;
        let ops = gen_history(rng, &plan, hl);
        let privs = reader_keys(&plan, &built);
        // oracle: op k in the history == op k alone on a fresh reader
        let rows = run_history(&built.bytes, &privs, &plan.names, &ops, false);
        let groups = per_op(&rows);
        let mut msg = None;
        if rows.first() != Some(&vec![0]) {
            msg = Some("a valid archive does not open".to_string());
        } else if groups.len() != ops.len() {
            msg = Some("history stopped early".to_string());
        } else {
            for (j, op) in ops.iter().enumerate() {
                let fresh = run_history(&built.bytes, &privs, &plan.names, std::slice::from_ref(op), false);
                let fg = per_op(&fresh);
                if fg.first() != Some(&groups[j]) {
                    msg = Some(format!("operation #{j} {:?} gives a different result after the history {:?} than on a fresh reader", op, &ops[..j]));
                    break;
                }
                // and against the truth, for reads
                if (op[0] == 2 || op[0] == 3) && (op[1] as usize) < plan.names.len() {
                    let exp = &built.contents[op[1] as usize];
                    let mut got = Vec::new();
                    for r in groups[j].iter().skip(1) {
                        if r[0] == 0 {
                            got.extend(r[1..].iter().map(|x| *x as u8));
                        } else {
                            msg = Some(format!("operation #{j} {:?}: read failed on a valid archive", op));
                        }
                    }
                    if !exp.starts_with(&got) || (op[0] == 3 && &got != exp) {
                        msg = Some(format!("operation #{j} {:?}: bytes differ from what was written", op));
                    }
                }
            }
        }
        // model: single reads for layers where they are deterministic
        let single = plan.layers & L_COMP == 0;
        let mrows = if single { run_history(&built.bytes, &privs, &plan.names, &ops, true) } else { rows.clone() };
        let (f, args) = if single { hist_model(&plan, &built, &ops) } else { crate::histstack::model_call(&plan, &built, &privs[0], &ops, 4000) };
        out.case(&Case {
            id: format!("c10-{done}"),
            model_fn: f,
            args,
            imp: json!(mrows),
            oracle_ok: msg.is_none(),
            oracle_msg: msg.unwrap_or_default(),
            class: format!("layers={} files={} ops={} abandons={}", plan.layers, plan.names.len(), ops.len().min(30) / 5 * 5,
                           ops.iter().filter(|o| o[0] == 2).count().min(9)),
            nontrivial: total > 0,
            meta: json!({"layers": plan.layers, "files": plan.names.len(), "total": total, "ops": ops,
                         "pieces": plan.pieces.iter().map(|p| (p.0, p.1.len())).collect::<Vec<_>>()}),
        });
        done += 1;
    }
}

/// C10 in bulk, oracle only (no model evaluation): many small archives of 3-5 files written one
/// after the other; for EVERY ordered pair (x, y) a fresh reader reads x to its end and then reads y /
/// asks y's hash: y's bytes, size and hash must be what was written (= what reading y alone gives).
/// The sizes are random, so that over the whole job the place where the reader stands after x and the
/// place where y starts take every relative alignment with respect to the chunk / block size.
pub fn c10_order_cases(rng: &mut Rng, tier: &str, out: &mut Out) {
    use sha2::{Digest, Sha256};
    let n = if tier == "thorough" { 6000 } else { 1200 };
    let unit = if cfg!(feature = "scaled") { 64usize } else { 131_072 };
    // production constants: the last chunk of an archive holds the end of the last files AND the footer, a
    // situation the scaled constants cannot produce (a footer alone is larger than a scaled chunk). A targeted
    // family instead of random sizes: files of 100, 1000, CHUNK-1200+d, 1000 bytes for d = 0..220 (the reader
    // stands, after the third file, at every distance around one chunk from the start of the second), and only
    // the pairs that read the long file first.
    let prod = !cfg!(feature = "scaled");
    let n = if prod { if tier == "thorough" { 440 } else { 220 } } else { n };
    for k in 0..n {
        let layers = if prod { L_ENC } else { [L_ENC, 0, L_ENC, L_COMP | L_ENC][k % 4] };
        let nf = if prod { 4 } else { rng.range(3, 5) as usize };
        let names: Vec<Vec<u8>> = (0..nf).map(|i| format!("{}", (b'a' + i as u8) as char).into_bytes()).collect();
        let mut pieces = Vec::new();
        for i in 0..nf {
            let len = if prod {
                [100, 1000, unit - 1200 + k / 2, 1000][i] + (k % 2) * [0, 0, 0, 7][i]
            } else {
                match rng.below(4) {
                    0 => rng.below(40) as usize,
                    1 => (unit + rng.below(100) as usize).saturating_sub(80),
                    2 => rng.below(2 * unit as u64 + 40) as usize,
                    _ => *rng.pick(&[0usize, 1, (2 * unit).saturating_sub(76), unit.saturating_sub(35), unit, unit + 1]),
                }
            };
            pieces.push((i, rng.bytes(len)));
        }
        let plan = Plan { names: names.clone(), pieces, layers, level: 1, recipients: 1, reader_key: 0 };
        let Ok(built) = build(rng, &plan) else { continue };
        let privs = reader_keys(&plan, &built);
        let mut msg: Option<String> = None;
        'pairs: for x in 0..nf {
            if prod && x != 2 {
                continue;
            }
            for y in 0..nf {
                for second in [3u64, 1] {
                    let ops = vec![vec![3, x as u64, 100_000], if second == 3 { vec![3, y as u64, 100_000] } else { vec![1, y as u64] }];
                    let rows = run_history(&built.bytes, &privs, &names, &ops, false);
                    let g = per_op(&rows);
                    let exp = &built.contents[y];
                    let ok = if g.len() != 2 {
                        false
                    } else if second == 3 {
                        let mut got = Vec::new();
                        let mut fine = g[1].first() == Some(&vec![7, exp.len() as u64]);
                        for r in g[1].iter().skip(1) {
                            if r[0] == 0 { got.extend(r[1..].iter().map(|v| *v as u8)); } else { fine = false; }
                        }
                        fine && &got == exp
                    } else {
                        let h = Sha256::digest(exp);
                        g[1].len() == 1 && g[1][0][0] == 0 && g[1][0][1..].iter().map(|v| *v as u8).collect::<Vec<u8>>() == h.as_slice()
                    };
                    if !ok {
                        msg = Some(format!("layers {layers}, files of {:?} bytes: after reading file {x} to its end, {} file {y} does not give what was written",
                                           built.contents.iter().map(|c| c.len()).collect::<Vec<_>>(), if second == 3 { "reading" } else { "the hash of" }));
                        break 'pairs;
                    }
                }
            }
        }
        out.case(&Case {
            id: format!("c10-order-{k}"),
            model_fn: "",
            args: vec![],
            imp: json!([]),
            oracle_ok: msg.is_none(),
            oracle_msg: msg.unwrap_or_default(),
            class: format!("pair-order layers={layers} files={nf}"),
            nontrivial: true,
            meta: json!({"layers": layers, "sizes": built.contents.iter().map(|c| c.len()).collect::<Vec<_>>()}),
        });
    }
}

/// C10, "abandoning a file midway and asking for hashes": on interleaved archives, for every file f, a
/// partial read of f of c bytes (c = 1, every run boundary of f +- 1, size - 1) dropped midway, then the hash
/// of f and of every other file: each hash is the SHA-256 of that file's bytes (= what a fresh reader says).
pub fn c10_abandon_hash_cases(rng: &mut Rng, tier: &str, out: &mut Out) {
    use sha2::{Digest, Sha256};
    let n = if tier == "thorough" { 400 } else { 80 };
    let mut done = 0;
    let mut k = 0;
    while done < n {
        let layers = [0u8, L_COMP, L_ENC, L_ENC | L_COMP][k % 4];
        k += 1;
        let mut plan = gen_plan(rng, layers);
        if k <= 12 {
            // another file ENDS (its EndOfFile block, via an empty last piece) right after a run of the file read:
            // b data, a run, b's end, a run (, c's end, a run)
            let n1 = 5 + (k * 7) % 60;
            let mut pieces = vec![(1usize, rng.bytes(9)), (0usize, rng.bytes(n1)), (1, Vec::new()), (0, rng.bytes(30 + k))];
            let mut names = vec![b"a_split".to_vec(), b"b_inner".to_vec()];
            if k % 2 == 0 {
                names.push(b"c".to_vec());
                pieces.insert(0, (2, rng.bytes(4)));
                pieces.push((2, Vec::new()));
                pieces.push((0, rng.bytes(11)));
            }
            plan = Plan { names, pieces, layers, level: 1, recipients: 1, reader_key: 0 };
        }
        if plan.names.len() < 2 || !plan.pieces.windows(2).any(|w| w[0].0 != w[1].0) {
            continue;
        }
        let Ok(built) = build(rng, &plan) else { continue };
        let privs = reader_keys(&plan, &built);
        let mut msg: Option<String> = None;
        'files: for f in 0..plan.names.len() {
            let size = built.contents[f].len();
            if size < 2 {
                continue;
            }
            // run boundaries of f in its own byte coordinates
            let mut cuts: Vec<usize> = vec![1, size - 1];
            let mut acc = 0usize;
            for (g, d) in &plan.pieces {
                if *g == f {
                    acc += d.len();
                    for c in [acc.saturating_sub(1), acc, acc + 1] {
                        if c >= 1 && c < size {
                            cuts.push(c);
                        }
                    }
                }
            }
            cuts.sort();
            cuts.dedup();
            for c in cuts {
                let mut ops = vec![vec![2u64, f as u64, c as u64]];
                for g in 0..plan.names.len() {
                    ops.push(vec![1, ((f + g) % plan.names.len()) as u64]);
                }
                let rows = run_history(&built.bytes, &privs, &plan.names, &ops, false);
                let gr = per_op(&rows);
                for (j, op) in ops.iter().enumerate().skip(1) {
                    let want = Sha256::digest(&built.contents[op[1] as usize]);
                    let got = gr.get(j).and_then(|g| g.first()).cloned().unwrap_or_default();
                    if got.first() != Some(&0) || got[1..].iter().map(|v| *v as u8).collect::<Vec<u8>>() != want.as_slice() {
                        msg = Some(format!("layers {layers}: after {c} of the {size} bytes of file {f} were read and the file dropped, the hash asked for file {} is not the SHA-256 of its bytes (pieces {:?})",
                                           op[1], plan.pieces.iter().map(|p| (p.0, p.1.len())).collect::<Vec<_>>()));
                        break 'files;
                    }
                }
            }
        }
        out.case(&Case {
            id: format!("c10-abandon-{done}"),
            model_fn: "",
            args: vec![],
            imp: json!([]),
            oracle_ok: msg.is_none(),
            oracle_msg: msg.unwrap_or_default(),
            class: format!("abandon-then-hash layers={layers} files={}", plan.names.len()),
            nontrivial: true,
            meta: json!({"layers": layers, "pieces": plan.pieces.iter().map(|p| (p.0, p.1.len())).collect::<Vec<_>>()}),
        });
        done += 1;
    }
}

// ------------------------------------------------------------------ C12

/// Independent walk of a layer-less block stream: does it reach an EndOfArchiveData tag at a
/// block boundary?
fn walk_reaches_marker(body: &[u8]) -> bool {
    let mut p = 0usize;
    loop {
        let Some(&t) = body.get(p) else { return false };
        p += 1;
        let u64_at = |q: usize| -> Option<u64> { body.get(q..q + 8).map(|b| u64::from_le_bytes(b.try_into().unwrap())) };
        match t {
            0xFE => return true,
            0x00 | 0x01 => {
                // FileStart: the name is read with read_exact; FileContent: a content cut short is
                // drained without error, but the next block read then fails at the end of the stream
                let Some(l) = u64_at(p + 8) else { return false };
                let Some(q) = (p + 16).checked_add(l as usize) else { return false };
                if q > body.len() {
                    return false;
                }
                p = q;
            }
            0xFF => {
                p += 8 + 32;
                if p > body.len() {
                    return false;
                }
            }
            _ => return false,
        }
    }
}

/// C12: linear extraction into subsets equals per-file reads (valid archives); with the data
/// part cut before the end-of-data marker (footer kept so that the archive opens) it fails.
pub fn c12_cases(rng: &mut Rng, tier: &str, out: &mut Out) {
    let n = if tier == "thorough" { 500 } else { 80 };
    for k in 0..n {
        let plan = gen_plan(rng, (k % 4) as u8);
        emit_read_case(rng, out, &format!("c12-{k}"), &plan, "c12");
    }
    // cut data, footer kept (layer-less: the only combination where this can be spliced)
    let ncut = if tier == "thorough" { 60 } else { 6 };
    let mut done = 0;
    while done < ncut {
        let mut plan = gen_plan(rng, 0);
        if plan.pieces.is_empty() {
            continue;
        }
        plan.recipients = 1;
        plan.reader_key = 0;
        let Ok(built) = build(rng, &plan) else { continue };
        let body = &built.bytes[built.header_len..];
        if body.len() > 1500 {
            continue;
        }
        let flen = u32::from_le_bytes(body[body.len() - 4..].try_into().unwrap()) as usize;
        let fstart = body.len() - 4 - flen;
        let marker = fstart - 1; // position of the EndOfArchiveData tag
        let cuts: Vec<usize> = if tier == "thorough" { (0..=fstart).collect() } else { (0..=fstart).filter(|c| c % 5 == done % 5 || *c + 3 > fstart).collect() };
        for cut in cuts {
            let mut spliced = built.bytes[..built.header_len + cut].to_vec();
            spliced.extend_from_slice(&body[fstart..]);
            let mut all = vec![4u64];
            all.extend(0..plan.names.len() as u64);
            let ops = vec![all];
            let rows = run_history(&spliced, &[], &plan.names, &ops, true);
            let g = per_op(&rows);
            let ok_reported = g.first().and_then(|x| x.first()) == Some(&vec![0]);
            let sbody = &spliced[built.header_len..];
            let reached = walk_reaches_marker(sbody);
            let mut msg = None;
            if rows.first() == Some(&vec![2]) || g.first().and_then(|x| x.first()) == Some(&vec![2]) {
                msg = Some("linear extraction panicked".to_string());
            } else if ok_reported && !reached {
                msg = Some(format!("linear extraction succeeded although no end-of-data marker is reached (data cut at {cut} of {marker})"));
            } else if cut > marker && rows.first() == Some(&vec![0]) && !ok_reported {
                msg = Some("linear extraction failed on an archive whose data is complete".to_string());
            }
            out.case(&Case {
                id: format!("c12-cut{done}-{cut}"),
                model_fn: "hist_plain",
                args: vec![jbytes(sbody), json!(plan.names), json!(ops)],
                imp: json!(rows),
                oracle_ok: msg.is_none(),
                oracle_msg: msg.unwrap_or_default(),
                class: format!("cut-data region={} ok={}", if cut > marker { "after-marker" } else { "before-marker" }, ok_reported),
                nontrivial: true,
                meta: json!({"cut": cut, "marker": marker, "files": plan.names.len()}),
            });
        }
        done += 1;
    }
}

// ------------------------------------------------------------------ C13

fn gen_sched(rng: &mut Rng) -> Vec<usize> {
    match rng.below(6) {
        0 => vec![1],
        1 => vec![2],
        2 => vec![3],
        3 => vec![*rng.pick(&[5usize, 7, 13, 31, 97])],
        4 => vec![100_000],
        _ => {
            // short schedules end in a constant quota (the last entry repeats); long ones keep varying
            // for the whole run
            let n = if rng.below(2) == 0 { rng.range(2, 12) } else { 600 };
            (0..n).map(|_| rng.range(1, 40) as usize).collect()
        }
    }
}

fn same_repair(a: &Repaired, b: &Repaired) -> bool {
    a.status == b.status && a.unfinished == b.unfinished && a.files == b.files && a.crashed.is_some() == b.crashed.is_some()
}

/// C13: throttled sink (partial writes, Interrupted) and throttled source (short reads).
pub fn c13_cases(rng: &mut Rng, tier: &str, out: &mut Out) {
    let n = if tier == "thorough" { 300 } else { 48 };
    let mut k = 0;
    let mut done = 0;
    while done < n {
        let layers = (k % 4) as u8;
        k += 1;
        let plan = gen_plan(rng, layers);
        // reference: written to memory
        let mut r0 = rng.fork();
        let mut r1 = r0.clone();
        let Ok(mem) = build(&mut r0, &plan) else { continue };
        let total: usize = mem.contents.iter().map(|c| c.len()).sum();
        let sched = gen_sched(rng);
        let intr = *rng.pick(&[0usize, 0, 2, 3, 5]);
        let mut msg: Option<String> = None;
        // (a) sink
        match catch(|| build_sink(&mut r1, &plan, &[], sched.clone(), intr)) {
            Err(p) => msg = Some(format!("writing to a throttled sink (sched {sched:?}, interrupted every {intr}) panicked: {p}")),
            Ok(Err(e)) => msg = Some(format!("writing to a throttled sink (sched {sched:?}, interrupted every {intr}) failed: {e}")),
            Ok(Ok(bs)) => {
                let privs = reader_keys(&plan, &bs.built);
                let ops = full_read_ops(rng, plan.names.len());
                let rows = run_history(&bs.built.bytes, &privs, &plan.names, &ops, false);
                if let Err(e) = oracle_read(&plan, &bs.built, &ops, &rows) {
                    msg = Some(format!("archive written through a throttled sink (sched {sched:?}, interrupted every {intr}): {e}"));
                }
                // (raw bytes are not compared: the footer is written in HashMap iteration order)
                if bs.built.bytes.len() != mem.bytes.len() && plan.layers & L_ENC == 0 && plan.layers & L_COMP == 0 {
                    msg = Some(format!("archive written through a throttled sink (sched {sched:?}, interrupted every {intr}) has {} bytes, written to memory {}", bs.built.bytes.len(), mem.bytes.len()));
                }
            }
        }
        // (b) source: reading
        let privs = reader_keys(&plan, &mem);
        let ops = {
            let mut o = full_read_ops(rng, plan.names.len());
            let mut all = vec![4u64];
            all.extend(0..plan.names.len() as u64);
            o.push(all);
            o
        };
        let ssched = gen_sched(rng);
        let base = run_history(&mem.bytes, &privs, &plan.names, &ops, false);
        let thr = run_history_src(ThrottledReader::new(Cursor::new(mem.bytes.as_slice()), ssched.clone()), mem.bytes.len(), &privs, &plan.names, &ops, false);
        if msg.is_none() && base != thr {
            msg = Some(format!("reading through a source returning at most {ssched:?} bytes per read gives a different result than from memory"));
        }
        if msg.is_none() {
            if let Err(e) = oracle_read(&plan, &mem, &ops, &thr) {
                msg = Some(format!("reading through a throttled source ({ssched:?}): {e}"));
            }
        }
        // (c) source: repair, intact and at two cuts
        let mut cuts = vec![mem.bytes.len()];
        for _ in 0..2 {
            cuts.push(rng.range(mem.header_len as u64, mem.bytes.len() as u64) as usize);
        }
        for cut in cuts {
            for unauth in [false, true] {
                if unauth && plan.layers & L_ENC == 0 {
                    continue;
                }
                let a = repair_bytes(&mem.bytes[..cut], &mem.privs, unauth);
                let b = repair_with(ThrottledReader::new(&mem.bytes[..cut], ssched.clone()), &mem.privs, unauth);
                if msg.is_none() && !same_repair(&a, &b) {
                    msg = Some(format!(
                        "repair of the first {cut} bytes (unauth={unauth}) from a source returning at most {ssched:?} bytes per read: status {:?}, {} bytes; from memory: status {:?}, {} bytes",
                        b.status, b.files.iter().map(|f| f.1.len()).sum::<usize>(), a.status, a.files.iter().map(|f| f.1.len()).sum::<usize>()));
                }
            }
        }
        // model: layer-less archive read through a constant-schedule source, single reads
        let (f, args, imp) = if plan.layers == 0 && mem.bytes.len() < 3000 && ssched.len() == 1 {
            let rows = run_history_src(ThrottledReader::new(Cursor::new(mem.bytes.as_slice()), ssched.clone()), mem.bytes.len(), &privs, &plan.names, &ops, true);
            ("hist_plain_thr", vec![jbytes(&mem.bytes[mem.header_len..]), json!(ssched), json!(plan.names), json!(ops)], json!(rows))
        } else {
            ("", vec![], json!([]))
        };
        out.case(&Case {
            id: format!("c13-{done}"),
            model_fn: f,
            args,
            imp,
            oracle_ok: msg.is_none(),
            oracle_msg: msg.unwrap_or_default(),
            class: format!("layers={} sink_sched={} intr={} src_sched={}", plan.layers, if sched.len() == 1 { format!("const{}", sched[0].min(100)) } else { "var".into() }, intr,
                           if ssched.len() == 1 { format!("const{}", ssched[0].min(100)) } else { "var".into() }),
            nontrivial: total > 0,
            meta: json!({"layers": plan.layers, "sink_sched": sched, "intr": intr, "src_sched": ssched, "total": total,
                         "pieces": plan.pieces.iter().map(|p| (p.0, p.1.len())).collect::<Vec<_>>()}),
        });
        done += 1;
    }
}

// ------------------------------------------------------------------ C14

/// C14: what was appended before a flush() is recoverable from the bytes the destination held
/// when flush() returned.
pub fn c14_cases(rng: &mut Rng, tier: &str, out: &mut Out) {
    // production constants: only the chunk-edge family below (the staging of small writes, if any, is sized in
    // production units)
    let n = if !cfg!(feature = "scaled") { 0 } else if tier == "thorough" { 400 } else { 60 };
    let (ch, tag) = if cfg!(feature = "scaled") { (64usize, 16usize) } else { (131072, 16) };
    let bl = if cfg!(feature = "scaled") { 256usize } else { 4 << 20 };
    let naligned = if cfg!(feature = "scaled") { if tier == "thorough" { 48 } else { 12 } } else { 0 };
    // chunk-edge family: a first append that leaves the stream every distance from a chunk boundary, then a
    // SMALL append (1..40 bytes: its block header and data are written field by field), a flush, a cut
    let mut special: Vec<(Plan, Vec<usize>)> = Vec::new();
    {
        let firsts: Vec<usize> = if cfg!(feature = "scaled") { (0..=(ch + 8)).step_by(if tier == "thorough" { 1 } else { 3 }).collect() }
                                 else { ((ch - 130)..=(ch - 30)).step_by(if tier == "thorough" { 1 } else { 4 }).collect() };
        for (q, first) in firsts.iter().enumerate() {
            let small = [1usize, 3, 4, 40, 17, 2][q % 6];
            let layers = if q % 5 == 4 { L_ENC | L_COMP } else { L_ENC };
            special.push((Plan { names: vec![b"f".to_vec()], pieces: vec![(0, rng.bytes(*first)), (0, rng.bytes(small)), (0, rng.bytes(5))], layers, level: 1, recipients: 1, reader_key: 0 }, vec![1]));
        }
    }
    let nspecial = special.len();
    let mut k = 0;
    let mut done = 0;
    while done < n + naligned + nspecial {
        let layers = (k % 4) as u8;
        k += 1;
        let mut plan = gen_plan(rng, layers);
        if plan.pieces.is_empty() {
            continue;
        }
        plan.recipients = 1;
        plan.reader_key = 0;
        let nflush = rng.range(1, 3) as usize;
        let mut flush_after: Vec<usize> = (0..nflush).map(|_| rng.below(plan.pieces.len() as u64) as usize).collect();
        if done >= n + naligned {
            let (p, fa) = special.pop().unwrap();
            plan = p;
            flush_after = fa;
        } else if done >= n {
            // two flushes separated by EXACTLY j blocks (or chunks) of the layer's input stream:
            // a content block of d bytes takes 17 + d bytes of stream
            let j = 1 + (done - n) % 3;
            let unit = if (done - n) % 2 == 0 { bl } else { ch };
            let first = rng.range(0, 40) as usize;
            let (parts, extra) = if rng.below(2) == 0 { (1usize, 17usize) } else { (2, 34) };
            let dist = j * unit;
            if dist <= extra + parts {
                continue;
            }
            let mut pieces = vec![(0usize, rng.bytes(first))];
            let mut left = dist - extra;
            for q in 0..parts {
                let m = if q + 1 == parts { left } else { rng.range(1, (left - 1) as u64) as usize };
                pieces.push((0, (0..m).map(|i| (i % 251) as u8).collect()));
                left -= m;
            }
            let tail = rng.range(1, 60) as usize;
            pieces.push((0, rng.bytes(tail)));
            plan = Plan { names: vec![b"f".to_vec()], pieces, layers: if layers & L_COMP != 0 || unit == bl { layers | L_COMP } else { layers | L_ENC }, level: plan.level, recipients: 1, reader_key: 0 };
            flush_after = vec![0, parts];
            if first == 0 {
                // an empty first piece emits no block: the first flush still comes after the FileStart block
            }
        }
        let bs = match catch(|| build_sink(rng, &plan, &flush_after, vec![], 0)) {
            Ok(Ok(b)) => b,
            _ => continue,
        };
        let built = &bs.built;
        for (fi, (flen, sofar)) in bs.flushes.iter().enumerate() {
            let mut msg: Option<String> = None;
            let prefix = &built.bytes[..*flen];
            let header_ok = *flen >= built.header_len;
            let ru = repair_bytes(prefix, &built.privs, true);
            let got = |r: &Repaired, i: usize| -> Vec<u8> { r.files.iter().find(|f| f.0 == plan.names[i]).map(|f| f.1.clone()).unwrap_or_default() };
            if !header_ok {
                msg = Some("flush() returned before the header reached the destination".into());
            } else if ru.crashed.is_some() || ru.status.is_none() {
                msg = Some(format!("repair of the flushed bytes failed: {:?}", ru.crashed));
            } else {
                for (i, want) in sofar.iter().enumerate() {
                    let g = got(&ru, i);
                    if !g.starts_with(want) {
                        msg = Some(format!("file {i}: {} bytes appended before the flush, repair of the {} flushed bytes recovers {} (unauthenticated mode / no encryption)", want.len(), flen, g.len().min(want.len())));
                        break;
                    }
                }
            }
            if msg.is_none() && plan.layers & L_ENC != 0 && header_ok {
                // the flushed bytes delivered by a source that reports ONE interruption (the encryption layer's loads
                // repeat an interrupted read): the same bytes are recovered
                let q = *rng.pick(&[1usize, 7, 16, 80, 100_000]);
                let at = rng.below((prefix.len() / q.min(80)) as u64 + 3) as usize;
                let rf = repair_with(crate::repair::FlakyReader { data: prefix, pos: 0, sched: vec![q], calls: 0, intr: vec![at] }, &built.privs, true);
                if rf.files != ru.files {
                    msg = Some(format!("repair of the flushed bytes through a source (reads of {q} bytes) reporting one interruption at read {at} recovers {} bytes, {} from memory",
                                       rf.files.iter().map(|f| f.1.len()).sum::<usize>(), ru.files.iter().map(|f| f.1.len()).sum::<usize>()));
                }
            }
            if msg.is_none() && plan.layers & L_ENC != 0 {
                // authenticated mode: at least what lies in completed chunks = what the unauthenticated
                // mode recovers from the flushed bytes cut at the last complete chunk
                let body = flen - built.header_len;
                let whole = built.header_len + body / (ch + tag) * (ch + tag);
                let ra = repair_bytes(prefix, &built.privs, false);
                let rc = repair_bytes(&built.bytes[..whole], &built.privs, true);
                for i in 0..plan.names.len() {
                    let a = got(&ra, i);
                    let c = got(&rc, i);
                    if a.len() < c.len() {
                        msg = Some(format!("file {i}: authenticated repair of the flushed bytes recovers {} bytes, the completed chunks hold {}", a.len(), c.len()));
                        break;
                    }
                }
            }
            let (f, args) = model_call(&plan, built, *flen, true);
            out.case(&Case {
                id: format!("c14-{done}-f{fi}"),
                model_fn: f,
                args,
                imp: json!(ru.rows),
                oracle_ok: msg.is_none(),
                oracle_msg: msg.unwrap_or_default(),
                class: format!("layers={} level={} flushed_chunks={}", plan.layers, plan.level, ((flen.saturating_sub(built.header_len)) / (ch + tag)).min(9)),
                nontrivial: sofar.iter().any(|c| !c.is_empty()),
                meta: json!({"layers": plan.layers, "level": plan.level, "flush_after": flush_after, "flush_len": flen, "archive_len": built.bytes.len(),
                             "pieces": plan.pieces.iter().map(|p| (p.0, p.1.len())).collect::<Vec<_>>()}),
            });
        }
        done += 1;
    }
}
