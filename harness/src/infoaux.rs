//! Helpers of the `mlar info` family of job c17 (tools/cli/c17_job.py, work package `info`).
//! The job script is Python and has no brotli binding and no Rust float formatting; this
//! subcommand lends it the independent `brotli` crate and core::fmt.  Nothing here goes through `mla`.
//!   harness info-aux brotli-dec   stdin: one hex compressed block per line -> stdout: its plaintext, hex
//!   harness info-aux brotli-enc   stdin: one hex plaintext per line        -> stdout: one brotli stream, hex
//!   harness info-aux fmt-rate     stdin: "a b" per line (u64)              -> stdout: format!("{:.2}", a as f64 / b as f64)
use std::io::{BufRead, Read, Write};

pub fn main(args: &[String]) {
    let mode = args.first().map(|s| s.as_str()).unwrap_or("");
    let stdin = std::io::stdin();
    let stdout = std::io::stdout();
    let mut out = stdout.lock();
    for line in stdin.lock().lines() {
        let line = line.expect("stdin");
        let line = line.trim();
        match mode {
            "brotli-dec" => {
                let cb = hex::decode(line).expect("hex");
                let mut plain = Vec::new();
                match brotli::Decompressor::new(&cb[..], 4096).read_to_end(&mut plain) {
                    Ok(_) => writeln!(out, "{}", hex::encode(&plain)).unwrap(),
                    Err(e) => writeln!(out, "ERR {e}").unwrap(),
                }
            }
            "brotli-enc" => {
                let plain = hex::decode(line).expect("hex");
                let mut c = Vec::new();
                {
                    let mut w = brotli::CompressorWriter::new(&mut c, 4096, 5, 22);
                    w.write_all(&plain).unwrap();
                    w.flush().unwrap();
                }
                writeln!(out, "{}", hex::encode(&c)).unwrap();
            }
            "fmt-rate" => {
                let mut it = line.split_whitespace();
                let a: u64 = it.next().expect("a").parse().expect("u64");
                let b: u64 = it.next().expect("b").parse().expect("u64");
                // the two statements of mlar/src/main.rs `info`
                let compression_rate = a as f64 / b as f64;
                writeln!(out, "{compression_rate:.2}").unwrap();
            }
            other => {
                eprintln!("info-aux: unknown mode {other}");
                std::process::exit(2);
            }
        }
    }
}
