//! Correspondence harness (Tie B) for the MLA Coq model.
//!   harness <subcommand> [--seed N] [--tier quick|thorough] [--out FILE]
//! Every subcommand writes one JSON object per line: a correspondence case (see util::Case)
//! or a witness result.
mod archive;
mod capi;
mod capiread;
mod cli;
mod comp;
mod compstream;
mod derive;
mod format;
mod confid;
mod enc;
mod fixcli;
mod fscomp;
mod fsstack;
mod fuzz;
mod header;
mod hdrsrc;
mod history;
mod histstack;
mod infoaux;
mod integrity;
mod keys;
mod mem;
mod memcapi;
mod memdims;
mod poolcli;
mod repair;
mod util;
mod writer;
mod wrows;

use serde_json::json;
use util::*;

fn arg(args: &[String], name: &str) -> Option<String> {
    args.iter().position(|a| a == name).and_then(|i| args.get(i + 1).cloned())
}

fn main() {
    let args: Vec<String> = std::env::args().collect();
    if args.len() < 2 {
        eprintln!("usage: harness <subcommand> [--seed N] [--tier quick|thorough] [--out FILE]");
        std::process::exit(2);
    }
    if args[1] == "c20-child" {
        capi::child_main();
        return;
    }
    if args[1] == "info-aux" {
        infoaux::main(&args[2..]);
        return;
    }
    if args[1] == "c15-capi-child" {
        memcapi::child_main(&args);
        return;
    }
    if args[1] == "c15-mk" {
        memcapi::mk_main(&args);
        return;
    }
    if args[1] == "c20r-child" {
        capiread::child_main();
        return;
    }
    let seed: u64 = arg(&args, "--seed").and_then(|s| s.parse().ok()).unwrap_or(1);
    let tier = arg(&args, "--tier").unwrap_or_else(|| "quick".into());
    let outp = arg(&args, "--out");
    let mut out = Out::new(outp.as_deref());
    let mut rng = Rng::new(seed);
    silence_panics();
    let flavour = if cfg!(feature = "scaled") { "scaled" } else { "prod" };
    match args[1].as_str() {
        "flavour" => {
            out.raw(&json!({"flavour": flavour}));
        }
        "witness" => {
            // witnesses of repaired defects: {"witness": name, "property": id, "ok": bool, "msg": ..}
            let only = arg(&args, "--only");
            let mut all = enc::witnesses();
            all.extend(writer::witnesses());
            all.extend(repair::witnesses());
            all.extend(capi::witnesses());
            all.extend(comp::witnesses());
            all.extend(fuzz::witnesses());
            all.extend(format::witnesses());
            for (name, prop, f) in all {
                if let Some(o) = &only {
                    if o != name && o != prop {
                        continue;
                    }
                }
                let r = catch(f).unwrap_or_else(|e| Err(format!("panic: {e}")));
                out.raw(&json!({"witness": name, "property": prop, "ok": r.is_ok(), "msg": r.err().unwrap_or_default(), "flavour": flavour}));
            }
        }
        "c09" => writer::c09_cases(&mut rng, &tier, &mut out),
        "c01" => archive::c01_cases(&mut rng, &tier, &mut out),
        "c01-header" => header::c01_header_cases(&mut rng, &tier, &mut out),
        "keys-tester" => keys::tester(),
        "c19-tester" => derive::tester(),
        "c06" => format::c06_cases(&mut rng, &tier, &mut out),
        "c16" => {
            cli::c16_cases(&mut rng, &tier, &mut out);
            fixcli::c16_bytes_cases(&mut rng, &tier, &mut out);
        }
        "c16-symlink" => cli::c16_symlink_cases(&mut rng, &tier, &mut out),
        "c16-pool" => poolcli::c16_pool_cases(&mut rng, &tier, &mut out),
        "c02" => repair::c02_cases(&mut rng, &tier, &mut out),
        "c13-hdr" => hdrsrc::c13_hdr_cases(&mut rng, &tier, &mut out),
        "c02-src" => {
            repair::c02_src_cases(&mut rng, &tier, &mut out);
            repair::c02_exotic_cases(&mut rng, &tier, &mut out);
        }
        "c02-exotic" => repair::c02_exotic_cases(&mut rng, &tier, &mut out),
        "c02-small" => hdrsrc::c02_small_cases(&mut rng, &tier, &mut out),
        "c02-comp" => fscomp::c02_comp_cases(&mut rng, &tier, &arg(&args, "--aspect").unwrap_or_default(), &mut out),
        "c05" => repair::c05_cases(&mut rng, &tier, &mut out),
        "c05-blocks" => repair::c05_blocks_cases(&mut rng, &tier, &mut out),
        "c05-ids" => repair::c05_ids_cases(&mut rng, &tier, &mut out),
        "c03" => integrity::c03_cases(&mut rng, &tier, &mut out),
        "c03-lengths" => integrity::c03_unaltered_sweep(&mut rng, &tier, &mut out),
        "c04" => integrity::c04_cases(&mut rng, &tier, &mut out),
        "c07" => {
            confid::c07_cases(&mut rng, &tier, &mut out);
            confid::c07_keyring_cases(&mut rng, &tier, &mut out);
        }
        "c07-child" => confid::child(),
        #[cfg(feature = "scaled")]
        "c07-model" => confid::c07_model_cases(&mut rng, &tier, &mut out),
        "c08" => fuzz::c08_cases(&mut rng, &tier, &mut out),
        "c08-child" => {
            let num = |n: &str| arg(&args, n).and_then(|s| s.parse::<usize>().ok()).unwrap_or(0);
            fuzz::child_main(seed, &tier, num("--shard"), num("--of").max(1), num("--from"), &arg(&args, "--bases").unwrap_or_default());
        }
        "c08-wit" => fuzz::wit_child(args.get(2).map(|s| s.as_str()).unwrap_or("")),
        "c20" => capi::c20_cases(&mut rng, &tier, &mut out),
        "c20-rt" => capi::c20_rt_cases(&mut rng, &tier, &mut out),
        "c20r" => capiread::c20r_cases(&mut rng, &tier, &mut out),
        "c12-capi" => capiread::c12_capi_cases(&mut rng, &tier, &mut out),
        "c15" => mem::c15_cases(&mut rng, &tier, &mut out),
        "c15-dims" => memdims::c15_dims_cases(&mut rng, &tier, &mut out),
        "c15-blocks" => memdims::c15_blocks_cases(&mut rng, &tier, &mut out),
        "c15-capi" => memcapi::c15_capi_cases(&mut rng, &tier, &mut out),
        "c10" => history::c10_cases(&mut rng, &tier, &mut out),
        "c10-order" => {
            history::c10_order_cases(&mut rng, &tier, &mut out);
            if cfg!(feature = "scaled") {
                history::c10_abandon_hash_cases(&mut rng, &tier, &mut out);
            }
        }
        "c12" => history::c12_cases(&mut rng, &tier, &mut out),
        "c12-cli" => {
            cli::c12_cli_cases(&mut rng, &tier, &mut out);
            cli::c16_stale_cases(&mut rng, &tier, &mut out);
        }
        "c13" => history::c13_cases(&mut rng, &tier, &mut out),
        "c14" => history::c14_cases(&mut rng, &tier, &mut out),
        "c06-gcmdec" => wrows::c06_gcmdec_cases(&mut rng, &tier, &mut out),
        "c13-sinkrows" => wrows::c13_sinkrows_cases(&mut rng, &tier, &mut out),
        #[cfg(feature = "scaled")]
        "c01-encw" => wrows::c01_encw_cases(&mut rng, &tier, &mut out),
        #[cfg(feature = "scaled")]
        "c13-encsink" => wrows::c13_encsink_cases(&mut rng, &tier, &mut out),
        #[cfg(feature = "scaled")]
        "c01-aw" => wrows::c01_aw_cases(&mut rng, &tier, &mut out),
        #[cfg(feature = "scaled")]
        "c11-comp" => comp::c11_comp_cases(&mut rng, &tier, &mut out),
        #[cfg(feature = "scaled")]
        "c11-raw" => comp::c11_raw_cases(&mut rng, &tier, &mut out),
        #[cfg(feature = "scaled")]
        "c11-stack" => comp::c11_stack_cases(&mut rng, &tier, &mut out),
        #[cfg(feature = "scaled")]
        "c08-stack" => compstream::c08_stack_cases(&mut rng, &tier, &mut out),
        #[cfg(feature = "scaled")]
        "c11-cw" => comp::c11_cw_cases(&mut rng, &tier, &mut out),
        #[cfg(feature = "scaled")]
        "c11-enc" => enc::c11_enc_cases(&mut rng, &tier, &mut out),
        other => {
            eprintln!("unknown subcommand {other} (flavour {flavour})");
            std::process::exit(2);
        }
    }
    out.finish();
}
