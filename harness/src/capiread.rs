//! C20, READING side of the C interface: `mla_roarchive_extract` and `mla_roarchive_info` of the
//! real `libmla.so` (dlopen, VERIF_BINDIR) on archives made by the RUST writer, every call in a
//! child process (`harness c20r-child`, one JSON job on stdin, one JSON result on stdout).
//!
//! Correspondence rows (model entry points `c20r_extract`, `c20r_info`):
//!   extract: [[status]] ++ [[5, name..] per file-callback query, in order]
//!            ++ (status == 0 only) [[6, bytes..] per ACCEPTED query, in query order]
//!   info:    [[status]] ++ (status == 0 only) [[version, layers]]
//! The oracle is independent of the model: plan names (byte order) and plan contents, status
//! classes on injected callback failures / NULL callbacks / missing key, no child death.
#![allow(dead_code)]
use crate::archive::{gen_names, layers_of, Plan, L_COMP, L_ENC};
use crate::capi::{load_api, priv_text, sample, ArchiveInfo, FileCb, FileWriter, Handle, ReadCb, SeekCb};
use crate::header::parse_header;
use crate::util::*;
use mla::config::ArchiveWriterConfig;
use mla::ArchiveWriter;
use serde_json::{json, Value};
use std::cell::Cell;
use std::ffi::{c_void, CString};
use std::io::{Read, Write};
use x25519_dalek::{PublicKey, StaticSecret};

pub const ST_BADARG: u64 = 0x0012_0000;

// ------------------------------------------------------------------ child side
thread_local! {
    /// a read / seek / write callback returned the injected failure (5)
    static FIRED: Cell<bool> = const { Cell::new(false) };
}

struct RSink {
    data: Vec<u8>,
    ncalls: u64,
    wmode: u64,
    wfail: u64,
    flushes: u64,
}
struct RCtx {
    src: Vec<u8>,
    pos: u64,
    rmode: u64,
    rfail: u64,
    sfail: u64,
    nreads: u64,
    nseeks: u64,
    dec: Vec<Vec<u64>>,
    queries: Vec<Vec<u8>>,
    sinks: Vec<(usize, Box<RSink>)>,
    /// writers handed back by a file callback that then DECLINED the file (decision 2): must never be used
    ghosts: Vec<(usize, Box<RSink>)>,
}

extern "C" fn r_read(buf: *mut u8, len: u32, ctx: *mut c_void, nread: *mut u32) -> i32 {
    let x = unsafe { &mut *(ctx as *mut RCtx) };
    x.nreads += 1;
    if x.rfail != 0 && x.nreads == x.rfail {
        FIRED.with(|c| c.set(true));
        return 5;
    }
    let remaining = (x.src.len() as u64).saturating_sub(x.pos);
    let mut n = (len as u64).min(remaining);
    if x.rmode != 0 {
        n = n.min(x.rmode);
    }
    if n > 0 {
        unsafe { std::ptr::copy_nonoverlapping(x.src.as_ptr().add(x.pos as usize), buf, n as usize) };
    }
    x.pos += n;
    unsafe { *nread = n as u32 };
    0
}
extern "C" fn r_seek(offset: i64, whence: i32, ctx: *mut c_void, newpos: *mut u64) -> i32 {
    let x = unsafe { &mut *(ctx as *mut RCtx) };
    x.nseeks += 1;
    if x.sfail != 0 && x.nseeks == x.sfail {
        FIRED.with(|c| c.set(true));
        return 5;
    }
    let base: i128 = match whence {
        0 => 0,
        1 => x.pos as i128,
        2 => x.src.len() as i128,
        _ => return 22,
    };
    let np = base + offset as i128;
    if np < 0 {
        return 22;
    }
    x.pos = np as u64;
    unsafe { *newpos = x.pos };
    0
}
extern "C" fn rs_write(buf: *const u8, len: u32, ctx: *mut c_void, written: *mut u32) -> i32 {
    let s = unsafe { &mut *(ctx as *mut RSink) };
    s.ncalls += 1;
    if s.wfail != 0 && s.ncalls == s.wfail {
        FIRED.with(|c| c.set(true));
        return 5;
    }
    let n = if s.wmode == 0 { len as u64 } else { (len as u64).min(s.wmode) };
    if n > 0 {
        s.data.extend_from_slice(unsafe { std::slice::from_raw_parts(buf, n as usize) });
    }
    unsafe { *written = n as u32 };
    0
}
extern "C" fn rs_flush(ctx: *mut c_void) -> i32 {
    let s = unsafe { &mut *(ctx as *mut RSink) };
    s.flushes += 1;
    0
}
extern "C" fn r_file(ctx: *mut c_void, name: *const u8, name_len: usize, fw: *mut FileWriter) -> i32 {
    let x = unsafe { &mut *(ctx as *mut RCtx) };
    let i = x.queries.len();
    let nm = if name_len == 0 { Vec::new() } else { unsafe { std::slice::from_raw_parts(name, name_len) }.to_vec() };
    x.queries.push(nm);
    let d = x.dec.get(i).cloned().unwrap_or_else(|| vec![0; 5]);
    let g = |k: usize| d.get(k).copied().unwrap_or(0);
    if g(0) == 2 {
        // declines AFTER filling the structure (a callback whose last step - an fopen, a path check - fails):
        // the return code decides, the writer must receive nothing
        let mut sink = Box::new(RSink { data: Vec::new(), ncalls: 0, wmode: 0, wfail: 0, flushes: 0 });
        let p: *mut RSink = &mut *sink;
        x.ghosts.push((i, sink));
        unsafe {
            (*fw).write_callback = Some(rs_write);
            (*fw).flush_callback = Some(rs_flush);
            (*fw).context = p as *mut c_void;
        }
        return 1;
    }
    if g(0) != 0 {
        return 1;
    }
    let mut sink = Box::new(RSink { data: Vec::new(), ncalls: 0, wmode: g(3), wfail: g(4), flushes: 0 });
    let p: *mut RSink = &mut *sink;
    x.sinks.push((i, sink));
    unsafe {
        (*fw).write_callback = if g(1) == 1 { None } else { Some(rs_write) };
        (*fw).flush_callback = if g(2) == 1 { None } else { Some(rs_flush) };
        (*fw).context = p as *mut c_void;
    }
    0
}

fn nums(x: &Value) -> Vec<u64> {
    x.as_array().map(|a| a.iter().map(|n| n.as_u64().unwrap_or(0)).collect()).unwrap_or_default()
}

/// Child side: run one job against libmla.so.
pub fn child_main() {
    let mut txt = String::new();
    std::io::stdin().read_to_string(&mut txt).unwrap();
    let job: Value = serde_json::from_str(&txt).unwrap();
    let api = match load_api() {
        Ok(a) => a,
        Err(e) => {
            println!("{}", json!({"error": e}));
            return;
        }
    };
    let archive = hex::decode(job["archive"].as_str().unwrap()).unwrap();
    let with_key = job["with_key"].as_bool().unwrap_or(false);
    let nullcfg = job["nullcfg"].as_bool().unwrap_or(false);
    let cfg = nums(&job["cfg"]);
    let c = |i: usize| cfg.get(i).copied().unwrap_or(0);
    let dec: Vec<Vec<u64>> = job["dec"].as_array().map(|a| a.iter().map(nums).collect()).unwrap_or_default();
    let mut x = RCtx { src: archive, pos: 0, rmode: c(0), rfail: c(1), sfail: c(2), nreads: 0, nseeks: 0, dec, queries: Vec::new(), sinks: Vec::new(), ghosts: Vec::new() };
    let xp = &mut x as *mut RCtx as *mut c_void;
    let out = if job["op"].as_str() == Some("info") {
        x.sfail = 0;
        let mut inf = ArchiveInfo { version: 0xFFFF, layers: 0xFF };
        let r: ReadCb = Some(r_read);
        let st = (api.roarchive_info)(r, xp, &mut inf);
        json!({"status": st, "version": inf.version as u64, "layers": inf.layers as u64, "nreads": x.nreads, "fired": FIRED.with(|c| c.get())})
    } else {
        let mut h: Handle = std::ptr::null_mut();
        let mut setup = vec![(api.reader_config_new)(&mut h)];
        if with_key {
            let t = CString::new(priv_text(1).unwrap()).unwrap();
            setup.push((api.reader_config_add_private_key)(h, t.as_ptr()));
        }
        let hp: *mut Handle = if nullcfg { std::ptr::null_mut() } else { &mut h };
        let (r, sk, fc): (ReadCb, SeekCb, FileCb) = (Some(r_read), Some(r_seek), Some(r_file));
        let st = (api.roarchive_extract)(hp, r, sk, fc, xp);
        let cleared = h.is_null();
        json!({
            "status": st, "cleared": cleared, "setup": setup,
            "queries": x.queries.iter().map(hex::encode).collect::<Vec<_>>(),
            "sinks": x.sinks.iter().map(|(i, s)| json!([*i as u64, hex::encode(&s.data), s.ncalls])).collect::<Vec<_>>(),
            "nreads": x.nreads, "nseeks": x.nseeks,
            "ghosts": x.ghosts.iter().map(|(i, s)| json!([*i as u64, s.data.len() as u64, s.ncalls + s.flushes])).collect::<Vec<_>>(),
            "flushes": x.sinks.iter().map(|(_, s)| s.flushes).sum::<u64>(),
            "fired": FIRED.with(|c| c.get()),
        })
    };
    let so = std::io::stdout();
    let mut l = so.lock();
    writeln!(l, "{out}").unwrap();
    l.flush().unwrap();
}

// ------------------------------------------------------------------ parent side
#[derive(Clone)]
struct Job {
    archive: Vec<u8>,
    with_key: bool,
    cfg: [u64; 3],
    dec: Vec<Vec<u64>>,
    op: &'static str,
    nullcfg: bool,
}
impl Job {
    fn to_json(&self) -> Value {
        json!({"archive": hex::encode(&self.archive), "with_key": self.with_key, "cfg": self.cfg, "dec": self.dec, "op": self.op, "nullcfg": self.nullcfg})
    }
}

#[derive(Default, Clone)]
struct Res {
    /// None = normal exit 0 with a result; Some(text) = killed by a signal / non-zero exit / no output
    died: Option<String>,
    status: u64,
    cleared: bool,
    setup: Vec<u64>,
    queries: Vec<Vec<u8>>,
    /// (query index, bytes received, number of write-callback invocations)
    sinks: Vec<(usize, Vec<u8>, u64)>,
    /// (query index, bytes received, callback invocations) of writers handed back by a DECLINING file callback
    ghosts: Vec<(usize, u64, u64)>,
    nreads: u64,
    nseeks: u64,
    flushes: u64,
    fired: bool,
    version: u64,
    layers: u64,
}

fn run_job(job: &Job) -> Res {
    use std::os::unix::process::ExitStatusExt;
    use std::process::{Command, Stdio};
    let exe = std::env::current_exe().unwrap();
    let mut ch = Command::new(exe).arg("c20r-child").stdin(Stdio::piped()).stdout(Stdio::piped()).stderr(Stdio::null()).spawn().expect("spawn child");
    let txt = job.to_json().to_string();
    let mut stdin = ch.stdin.take().unwrap();
    let wr = std::thread::spawn(move || {
        let _ = stdin.write_all(txt.as_bytes());
    });
    let outp = ch.wait_with_output().expect("wait child");
    let _ = wr.join();
    let mut res = Res::default();
    if let Some(sig) = outp.status.signal() {
        res.died = Some(format!("child killed by signal {sig}"));
        return res;
    }
    if !outp.status.success() {
        res.died = Some(format!("child exited with {:?}", outp.status.code()));
        return res;
    }
    let v: Value = match serde_json::from_slice(&outp.stdout) {
        Ok(v) => v,
        Err(_) => {
            res.died = Some("child produced no result".into());
            return res;
        }
    };
    if let Some(e) = v.get("error") {
        res.died = Some(format!("child set-up error: {e}"));
        return res;
    }
    let hx = |s: &Value| hex::decode(s.as_str().unwrap_or("")).unwrap_or_default();
    res.status = v["status"].as_u64().unwrap_or(u64::MAX);
    res.cleared = v["cleared"].as_bool().unwrap_or(false);
    res.setup = nums(&v["setup"]);
    res.queries = v["queries"].as_array().map(|a| a.iter().map(hx).collect()).unwrap_or_default();
    res.sinks = v["sinks"].as_array().map(|a| a.iter().map(|s| (s[0].as_u64().unwrap_or(0) as usize, hx(&s[1]), s[2].as_u64().unwrap_or(0))).collect()).unwrap_or_default();
    res.ghosts = v["ghosts"].as_array().map(|a| a.iter().map(|s| (s[0].as_u64().unwrap_or(0) as usize, s[1].as_u64().unwrap_or(0), s[2].as_u64().unwrap_or(0))).collect()).unwrap_or_default();
    res.nreads = v["nreads"].as_u64().unwrap_or(0);
    res.nseeks = v["nseeks"].as_u64().unwrap_or(0);
    res.flushes = v["flushes"].as_u64().unwrap_or(0);
    res.fired = v["fired"].as_bool().unwrap_or(false);
    res.version = v["version"].as_u64().unwrap_or(0);
    res.layers = v["layers"].as_u64().unwrap_or(0);
    res
}

// ------------------------------------------------------------------ archives
fn sample_secret() -> StaticSecret {
    curve25519_parser::parse_openssl_25519_privkey(&sample("test_x25519.pem")).expect("sample private key")
}

/// archive::build with ONE recipient: the given key (no StreamWriter variation).
fn build_with_key(plan: &Plan, secret: &StaticSecret) -> Result<(Vec<u8>, Vec<Vec<u8>>), String> {
    let mut cfg = ArchiveWriterConfig::new();
    cfg.set_layers(layers_of(plan.layers));
    cfg.with_compression_level(plan.level).map_err(|e| format!("{e:?}"))?;
    if plan.layers & L_ENC != 0 {
        cfg.add_public_keys(&[PublicKey::from(secret)]);
    }
    let mut w = ArchiveWriter::from_config(Vec::new(), cfg).map_err(|e| format!("writer: {e:?}"))?;
    let n = plan.names.len();
    let mut ids: Vec<Option<u64>> = vec![None; n];
    let mut contents: Vec<Vec<u8>> = vec![Vec::new(); n];
    let last_piece: Vec<Option<usize>> = (0..n).map(|f| plan.pieces.iter().rposition(|p| p.0 == f)).collect();
    for (k, (f, piece)) in plan.pieces.iter().enumerate() {
        if ids[*f].is_none() {
            let name = String::from_utf8(plan.names[*f].clone()).map_err(|_| "name not utf8")?;
            ids[*f] = Some(w.start_file(&name).map_err(|e| format!("start: {e:?}"))?);
        }
        w.append_file_content(ids[*f].unwrap(), piece.len() as u64, piece.as_slice()).map_err(|e| format!("append: {e:?}"))?;
        contents[*f].extend_from_slice(piece);
        if last_piece[*f] == Some(k) {
            w.end_file(ids[*f].unwrap()).map_err(|e| format!("end: {e:?}"))?;
        }
    }
    for f in 0..n {
        if ids[f].is_none() {
            let name = String::from_utf8(plan.names[f].clone()).map_err(|_| "name not utf8")?;
            let id = w.start_file(&name).map_err(|e| format!("start: {e:?}"))?;
            w.end_file(id).map_err(|e| format!("end: {e:?}"))?;
        }
    }
    w.finalize().map_err(|e| format!("finalize: {e:?}"))?;
    Ok((w.into_raw(), contents))
}

struct Arch {
    plan: Plan,
    bytes: Vec<u8>,
    contents: Vec<Vec<u8>>,
    layers: u8,
    header_len: usize,
    /// x25519(sample private key, ephemeral public key of the header), ENC archives only
    shared: Option<[u8; 32]>,
}
impl Arch {
    fn enc(&self) -> bool {
        self.layers & L_ENC != 0
    }
    /// (name, content) in the order the C interface must query them: byte order of the names
    fn sorted(&self) -> Vec<(Vec<u8>, Vec<u8>)> {
        let mut v: Vec<(Vec<u8>, Vec<u8>)> = self.plan.names.iter().cloned().zip(self.contents.iter().cloned()).collect();
        v.sort();
        v
    }
}

const FIXED_NAMES: [&[u8]; 4] = [b"a", b"dir/b.txt", b"zz/x", b"B"];

fn gen_small_plan(rng: &mut Rng, layers: u8) -> Plan {
    let nfiles = rng.range(1, 4) as usize;
    let mut names: Vec<Vec<u8>> = Vec::new();
    if rng.below(3) != 0 {
        names = gen_names(rng, nfiles);
        names.retain(|n| n.len() < 100 && std::str::from_utf8(n).is_ok() && !n.contains(&0));
    }
    // fixed names: always to fill up, sometimes on top (never more than 4 files)
    let mut guard = 0;
    while (names.len() < nfiles || (names.len() < 4 && rng.below(4) == 0)) && guard < 64 {
        guard += 1;
        let c = rng.pick(&FIXED_NAMES).to_vec();
        if !names.contains(&c) {
            names.push(c);
        }
    }
    if names.is_empty() {
        names.push(b"a".to_vec());
    }
    let nf = names.len();
    let npieces = rng.range(0, 6) as usize;
    let entropy = rng.below(3);
    let mut pieces = Vec::new();
    for _ in 0..npieces {
        let f = rng.below(nf as u64) as usize;
        let n = if rng.below(5) == 0 { 0 } else { rng.range(0, 120) as usize };
        let data: Vec<u8> = match entropy {
            0 => vec![0u8; n],
            1 => (0..n).map(|i| b"the quick brown fox "[i % 20]).collect(),
            _ => rng.bytes(n),
        };
        pieces.push((f, data));
    }
    Plan { names, pieces, layers, level: *rng.pick(&[1u32, 5]), recipients: 1, reader_key: 0 }
}

fn gen_arch(rng: &mut Rng, layers: u8, secret: &StaticSecret) -> Arch {
    loop {
        let plan = gen_small_plan(rng, layers);
        let Ok((bytes, contents)) = build_with_key(&plan, secret) else { continue };
        if bytes.len() >= 1500 {
            continue;
        }
        let Ok(p) = parse_header(&bytes) else { continue };
        let shared = p.epub.map(|e| *secret.diffie_hellman(&PublicKey::from(e)).as_bytes());
        if (layers & L_ENC != 0) != shared.is_some() {
            continue;
        }
        return Arch { plan, bytes, contents, layers, header_len: p.len, shared };
    }
}

// ------------------------------------------------------------------ cases
fn accept_all(n: usize, wmode: u64) -> Vec<Vec<u64>> {
    vec![vec![0, 0, 0, wmode, 0]; n]
}

fn extract_rows(res: &Res) -> Vec<Vec<u64>> {
    let mut rows = vec![vec![res.status]];
    for q in &res.queries {
        let mut r = vec![5u64];
        r.extend(q.iter().map(|b| *b as u64));
        rows.push(r);
    }
    if res.status == 0 {
        for (_, d, _) in &res.sinks {
            let mut r = vec![6u64];
            r.extend(d.iter().map(|b| *b as u64));
            rows.push(r);
        }
    }
    rows
}

fn extract_oracle(a: &Arch, job: &Job, res: &Res) -> Result<(), String> {
    if let Some(d) = &res.died {
        return Err(format!("the process running the C calls died: {d}"));
    }
    if res.setup.iter().any(|s| *s != 0) {
        return Err(format!("creating the reader configuration / adding the sample private key returned {:x?}", res.setup));
    }
    if job.nullcfg {
        if res.status != ST_BADARG || !res.queries.is_empty() {
            return Err(format!("NULL configuration pointer: status {:#x}, {} file-callback queries (expected BadAPIArgument, none)", res.status, res.queries.len()));
        }
        return Ok(());
    }
    if a.enc() && !job.with_key {
        return if res.status != 0 { Ok(()) } else { Err("an encrypted archive was extracted with status 0 by a configuration without any private key".into()) };
    }
    if res.fired {
        return if res.status != 0 { Ok(()) } else { Err("a read / seek / write callback reported a failure (5) during the call, and the call returned status 0".into()) };
    }
    if let Some((i, b, c)) = res.ghosts.iter().find(|g| g.1 != 0 || g.2 != 0) {
        return Err(format!("query {i}: the file callback declined the file (non-zero return) after filling the writer structure, and that writer received {b} bytes in {c} callback invocations; a file not chosen receives nothing"));
    }
    let sorted = a.sorted();
    let names: Vec<Vec<u8>> = sorted.iter().map(|p| p.0.clone()).collect();
    let dec_of = |i: usize| -> Vec<u64> { job.dec.get(i).cloned().unwrap_or_else(|| vec![0; 5]) };
    if let Some(i) = (0..names.len()).find(|i| {
        let d = dec_of(*i);
        d[0] == 0 && (d[1] == 1 || d[2] == 1)
    }) {
        if res.status != ST_BADARG {
            return Err(format!("NULL write/flush callback handed back for query {i}: status {:#x}, expected BadAPIArgument (0x120000)", res.status));
        }
        if res.queries != names[..=i] {
            return Err(format!("NULL write/flush callback handed back for query {i}: {} queries made, expected the first {} names in byte order", res.queries.len(), i + 1));
        }
        return Ok(());
    }
    // nothing fired, nothing NULL, key present when needed: complete success
    if res.status != 0 {
        return Err(format!("extraction of a valid archive (layers {}) without any failing callback returned status {:#x}", a.layers, res.status));
    }
    if res.queries != names {
        return Err(format!("file-callback queries differ from the archive's names in byte order, each once ({} queries, {} names)", res.queries.len(), names.len()));
    }
    let accepted: Vec<usize> = (0..names.len()).filter(|i| dec_of(*i)[0] == 0).collect();
    let got: Vec<usize> = res.sinks.iter().map(|s| s.0).collect();
    if got != accepted {
        return Err(format!("sinks were created for queries {got:?}, the decisions accept {accepted:?}"));
    }
    for (i, d, _) in &res.sinks {
        if *d != sorted[*i].1 {
            return Err(format!("query {i}: {} bytes received, {} written to that file, or bytes differ", d.len(), sorted[*i].1.len()));
        }
    }
    if !res.cleared {
        return Err("the configuration handle was not cleared by mla_roarchive_extract".into());
    }
    Ok(())
}

struct Gen<'a> {
    out: &'a mut Out,
    n: [usize; 3],
}

impl Gen<'_> {
    fn id(&mut self, fam: usize, tag: &str) -> String {
        let k = self.n[fam];
        self.n[fam] += 1;
        format!("c20r-{}-{k}-{tag}", ["A", "B", "C"][fam])
    }

    fn extract(&mut self, fam: usize, tag: &str, class: String, a: &Arch, with_key: bool, cfg: [u64; 3], dec: Vec<Vec<u64>>, nullcfg: bool) -> Res {
        let job = Job { archive: a.bytes.clone(), with_key, cfg, dec, op: "extract", nullcfg };
        let res = run_job(&job);
        let oracle = extract_oracle(a, &job, &res);
        let comparable = a.layers & L_COMP == 0
            && res.died.is_none()
            && !nullcfg
            && (cfg[1] == 0 || cfg[0] == 1)
            && job.dec.iter().all(|d| d.len() == 5 && (d[4] == 0 || d[3] == 1));
        let (model_fn, args, imp) = if comparable {
            let cands: Vec<Value> = if !with_key {
                vec![]
            } else if let Some(s) = &a.shared {
                vec![jbytes(s)]
            } else {
                vec![jbytes(&[0u8; 32])]
            };
            ("c20r_extract", vec![jbytes(&a.bytes), Value::Array(cands), json!(cfg), json!(job.dec)], json!(extract_rows(&res)))
        } else {
            ("", vec![], json!([]))
        };
        let id = self.id(fam, tag);
        self.out.case(&Case {
            id,
            model_fn,
            args,
            imp,
            oracle_ok: oracle.is_ok(),
            oracle_msg: match &oracle {
                Ok(()) => String::new(),
                Err(e) => format!("{e}; job {}", job.to_json()),
            },
            class,
            nontrivial: true,
            meta: json!({"layers": a.layers, "files": a.plan.names.len(), "archive_len": a.bytes.len(), "nreads": res.nreads, "nseeks": res.nseeks,
                         "fired": res.fired, "status": res.status, "cleared": res.cleared, "flushes": res.flushes, "with_key": with_key,
                         "died": res.died.clone().unwrap_or_default()}),
        });
        res
    }

    /// `expect`: Some(Some(layers)) = a complete valid header; Some(None) = must be refused;
    /// None = no expectation on the status (only: no death)
    fn info(&mut self, tag: &str, class: String, bytes: &[u8], layers_meta: u8, cfg: [u64; 2], expect: Option<Option<u8>>) -> Res {
        let job = Job { archive: bytes.to_vec(), with_key: false, cfg: [cfg[0], cfg[1], 0], dec: vec![], op: "info", nullcfg: false };
        let res = run_job(&job);
        let oracle: Result<(), String> = (|| {
            if let Some(d) = &res.died {
                return Err(format!("the process running the C calls died: {d}"));
            }
            if res.fired {
                return if res.status != 0 { Ok(()) } else { Err("the read callback reported a failure (5) during mla_roarchive_info, and the call returned status 0".into()) };
            }
            match expect {
                Some(Some(l)) => {
                    if res.status != 0 {
                        return Err(format!("mla_roarchive_info on a complete valid header returned status {:#x}", res.status));
                    }
                    if res.version != 1 || res.layers != l as u64 {
                        return Err(format!("mla_roarchive_info reported version {} layers {}, the archive has version 1 layers {l}", res.version, res.layers));
                    }
                    Ok(())
                }
                Some(None) => {
                    if res.status == 0 {
                        return Err(format!("mla_roarchive_info returned status 0 (version {}, layers {}) on {} bytes that are not a complete header", res.version, res.layers, bytes.len()));
                    }
                    Ok(())
                }
                None => Ok(()),
            }
        })();
        let comparable = res.died.is_none() && (cfg[1] == 0 || cfg[0] == 1);
        let (model_fn, args, imp) = if comparable {
            let mut rows = vec![vec![res.status]];
            if res.status == 0 {
                rows.push(vec![res.version, res.layers]);
            }
            ("c20r_info", vec![jbytes(bytes), json!(cfg)], json!(rows))
        } else {
            ("", vec![], json!([]))
        };
        let id = self.id(2, tag);
        self.out.case(&Case {
            id,
            model_fn,
            args,
            imp,
            oracle_ok: oracle.is_ok(),
            oracle_msg: match &oracle {
                Ok(()) => String::new(),
                Err(e) => format!("{e}; job {}", job.to_json()),
            },
            class,
            nontrivial: true,
            meta: json!({"layers": layers_meta, "files": 0, "archive_len": bytes.len(), "nreads": res.nreads, "nseeks": 0, "fired": res.fired,
                         "status": res.status, "died": res.died.clone().unwrap_or_default()}),
        });
        res
    }
}

fn dedupe_ks(mut ks: Vec<u64>) -> Vec<u64> {
    ks.retain(|k| *k >= 1);
    ks.sort();
    ks.dedup();
    ks
}

/// Family B on one archive.
fn failure_sweeps(g: &mut Gen, a: &Arch, full: bool) {
    let n = a.plan.names.len();
    let l = a.layers;
    let key = a.enc();
    // success pass: one byte per read, one byte per write
    let learn = g.extract(1, "learn", format!("extract ok layers={l} rmode=1 dec=accept-wmode1 (sweep base)"), a, key, [1, 0, 0], accept_all(n, 1), false);
    if learn.died.is_some() || learn.status != 0 {
        return;
    }
    // read failures
    let mut ks: Vec<u64> = if full { (1..=8).collect() } else { (1..=5).collect() };
    if full {
        let step = (learn.nreads / 10).max(1);
        let mut k = step;
        while k <= learn.nreads {
            ks.push(k);
            k += step;
        }
        ks.extend([learn.nreads.saturating_sub(1), learn.nreads, learn.nreads + 1]);
    }
    for k in dedupe_ks(ks) {
        g.extract(1, &format!("read{k}"), format!("extract read-fail layers={l} rmode=1"), a, key, [1, k, 0], accept_all(n, 0), false);
    }
    if full {
        for k in 1..=6 {
            g.extract(1, &format!("read0-{k}"), format!("extract read-fail layers={l} rmode=0"), a, key, [0, k, 0], accept_all(n, 0), false);
        }
    }
    // seek failures
    for k in 1..=learn.nseeks + 1 {
        g.extract(1, &format!("seek{k}"), format!("extract seek-fail layers={l} rmode=0"), a, key, [0, 0, k], accept_all(n, 0), false);
    }
    // write failures
    if let Some((q, d, _)) = learn.sinks.iter().find(|s| !s.1.is_empty()) {
        let len = d.len() as u64;
        let ks = if full { dedupe_ks(vec![1, 2, len / 2, len, len + 1]) } else { vec![1] };
        for k in ks {
            let mut dec = accept_all(n, 1);
            dec[*q] = vec![0, 0, 0, 1, k];
            g.extract(1, &format!("write{k}"), format!("extract write-fail layers={l} wmode=1"), a, key, [0, 0, 0], dec, false);
        }
        if full {
            let mut dec = accept_all(n, 0);
            dec[*q] = vec![0, 0, 0, 0, 1];
            g.extract(1, "write0-1", format!("extract write-fail layers={l} wmode=0"), a, key, [0, 0, 0], dec, false);
        }
    }
    if !full {
        if a.enc() {
            g.extract(1, "nokey", format!("extract no-key layers={l}"), a, false, [0, 0, 0], accept_all(n, 0), false);
        }
        return;
    }
    // NULL callbacks handed back by the file callback
    for i in 0..n {
        for (which, tag) in [(1usize, "wnull"), (2usize, "fnull")] {
            let mut dec = accept_all(n, 0);
            dec[i][which] = 1;
            g.extract(1, &format!("{tag}{i}"), format!("extract {tag} layers={l}"), a, key, [0, 0, 0], dec, false);
        }
    }
    // key presence
    if a.enc() {
        g.extract(1, "nokey", format!("extract no-key layers={l}"), a, false, [0, 0, 0], accept_all(n, 0), false);
        g.extract(1, "nokey-r1", format!("extract no-key layers={l}"), a, false, [1, 0, 0], accept_all(n, 1), false);
    } else {
        g.extract(1, "spare-key", format!("extract key-not-needed layers={l}"), a, true, [0, 0, 0], accept_all(n, 0), false);
        g.extract(1, "spare-key-r1", format!("extract key-not-needed layers={l}"), a, true, [1, 0, 0], accept_all(n, 1), false);
    }
    g.extract(1, "nullcfg", format!("extract null-config layers={l}"), a, key, [0, 0, 0], accept_all(n, 0), true);
}

pub fn c20r_cases(rng: &mut Rng, tier: &str, out: &mut Out) {
    cases(rng, tier, out, false)
}
/// C12 through the C interface: family A only (successful extraction into the subset of files the file callback
/// accepts; declined files - before or after the callback filled the writer structure - receive nothing)
pub fn c12_capi_cases(rng: &mut Rng, tier: &str, out: &mut Out) {
    cases(rng, tier, out, true)
}
fn cases(rng: &mut Rng, tier: &str, out: &mut Out, only_a: bool) {
    let thorough = tier == "thorough";
    let secret = sample_secret();
    let mut g = Gen { out, n: [0; 3] };

    // ---------------- A: successful extraction
    let per_layer = if thorough { 16 } else { 4 };
    let mut fam_a: Vec<Arch> = Vec::new();
    for layers in 0u8..4 {
        for p in 0..per_layer {
            let a = gen_arch(rng, layers, &secret);
            let n = a.plan.names.len();
            // a key that is not needed is allowed: every other archive without ENC gets one
            let with_key = a.enc() || p % 2 == 0;
            for rmode in [0u64, 1, 3] {
                let variants: Vec<(&str, Vec<Vec<u64>>)> = vec![
                    // rmode 3: an EMPTY decision list (every query takes the default = accept, wmode 0)
                    ("accept-wmode0", if rmode == 3 { vec![] } else { accept_all(n, 0) }),
                    ("accept-wmode1", accept_all(n, 1)),
                    // decision 1 declines before touching the structure, decision 2 after filling it
                    ("decline-every-2nd", (0..n).map(|i| if i % 2 == 1 { vec![1 + (i as u64 / 2) % 2, 0, 0, 0, 0] } else { vec![0, 0, 0, 0, 0] }).collect()),
                    ("decline-first-filled-wmode2", (0..n).map(|i| if i == 0 { vec![2, 0, 0, 0, 0] } else { vec![0, 0, 0, 2, 0] }).collect()),
                ];
                for (vn, dec) in variants {
                    g.extract(0, &format!("l{layers}"), format!("extract ok layers={layers} rmode={rmode} dec={vn}"), &a, with_key, [rmode, 0, 0], dec, false);
                }
            }
            fam_a.push(a);
        }
    }

    if only_a {
        return;
    }
    // ---------------- B: failure sweeps
    let nb = if thorough { 6 } else { 2 };
    for layers in [0u8, 1] {
        for _ in 0..nb {
            let a = gen_arch(rng, layers, &secret);
            failure_sweeps(&mut g, &a, true);
        }
    }
    for layers in [2u8, 3] {
        let a = gen_arch(rng, layers, &secret);
        failure_sweeps(&mut g, &a, false);
    }

    // ---------------- C: mla_roarchive_info
    let mut seen_layer = [false; 4];
    let sweep_per_layer = if thorough { usize::MAX } else { 2 };
    let mut swept = [0usize; 4];
    for a in &fam_a {
        let l = a.layers;
        let mut nreads1 = 0;
        for rmode in [0u64, 1] {
            let r = g.info(&format!("l{l}"), format!("info ok layers={l} rmode={rmode}"), &a.bytes, l, [rmode, 0], Some(Some(l)));
            if rmode == 1 {
                nreads1 = r.nreads;
            }
        }
        if l & L_COMP == 0 && swept[l as usize] < sweep_per_layer {
            swept[l as usize] += 1;
            for k in 1..=(nreads1 + 1).min(12) {
                g.info(&format!("l{l}-read{k}"), format!("info read-fail layers={l} rmode=1"), &a.bytes, l, [1, k], Some(Some(l)));
            }
        }
        if !seen_layer[l as usize] {
            seen_layer[l as usize] = true;
            // every prefix of the header, one byte past it included
            for cut in 0..=a.header_len + 1 {
                let expect = if cut < a.header_len { Some(None) } else { Some(Some(l)) };
                g.info(&format!("l{l}-cut{cut}"), format!("info truncated-header layers={l} complete={}", cut >= a.header_len), &a.bytes[..cut.min(a.bytes.len())], l, [0, 0], expect);
            }
            // damaged fixed fields of the header (the body of the archive is dropped)
            let hdr = &a.bytes[..a.header_len];
            let muts: Vec<(&str, usize, u8)> = vec![("magic", rng.below(3) as usize, 0x20), ("version", 3, 2), ("version-high", 6, 1), ("layers-unknown-bit", 7, 0x80), ("option-tag", 8, 2)];
            for (mn, pos, val) in muts {
                let mut b = hdr.to_vec();
                b[pos] = if mn == "magic" || mn == "layers-unknown-bit" { b[pos] ^ val } else { val };
                let expect = if parse_header(&b).is_err() { Some(None) } else { None };
                g.info(&format!("l{l}-{mn}"), format!("info damaged-header layers={l} field={mn}"), &b, l, [(pos % 2) as u64, 0], expect);
            }
        }
    }
    // bytes that are no archive at all
    let ngarbage = if thorough { 40 } else { 12 };
    for k in 0..ngarbage {
        let len = if k < 4 { k } else { rng.range(0, 64) as usize };
        let b = rng.bytes(len);
        let expect = if parse_header(&b).is_err() { Some(None) } else { None };
        g.info("garbage", "info garbage".to_string(), &b, 0, [(k % 2) as u64, 0], expect);
    }
}
