//! Whole-archive histories on archives WITH the compression layer (alone, and over encryption):
//! the inputs of the Coq entry points `hist_comp_h` / `hist_comp_enc_h` (theories/RunHistStack.v).
//!
//! The model does not re-implement brotli: its decoder is a table lookup.  The table is built
//! here WITHOUT `mla`: `format::indep::decode` (written from FORMAT.md alone: `x25519-dalek` +
//! `hkdf` unwrap the archive key, `aes-gcm` removes the encryption layer chunk by chunk, the
//! compression layer's own footer — the sizes table — cuts the compressed blocks apart, the
//! `brotli` crate decodes each of them) returns the pairs (compressed block, its plaintext).
//! The key of an entry is exactly the bytes the sizes table assigns to the block: what the real
//! reader's `Decompressor::new(inner.take(compressed_size), ..)` is allowed to consume, and what
//! the model reads before it consults the table.  The symmetric key and nonce given to the model
//! are the ones the independent decoder recovered from the header with the reader's private key.
use crate::archive::{Built, Plan, L_COMP, L_ENC};
use crate::format::indep;
use crate::util::*;
use serde_json::{json, Value};
use x25519_dalek::StaticSecret;

/// every `ENC_STRIDE`-th compressed+encrypted archive goes to the model (AES-GCM in Coq is the
/// expensive part); 1 = all of them
pub const ENC_STRIDE: u64 = 1;

pub fn jtable(tab: &[(Vec<u8>, Vec<u8>)]) -> Value {
    Value::Array(tab.iter().map(|(c, p)| json!([jbytes(c), jbytes(p)])).collect())
}

fn fnv(b: &[u8]) -> u64 {
    b.iter().fold(0xcbf29ce484222325u64, |h, x| (h ^ *x as u64).wrapping_mul(0x100000001b3))
}

/// The model call for a built archive whose layers include compression; `("", [])` when the
/// archive is not one this module handles (no compression layer, prod flavour, too large, not
/// sampled).  `reader` is the private key the real reader was given.
pub fn model_call(plan: &Plan, built: &Built, reader: &StaticSecret, ops: &[Vec<u64>], limit: usize) -> (&'static str, Vec<Value>) {
    let none = ("", vec![]);
    if plan.layers & L_COMP == 0 || !cfg!(feature = "scaled") || built.bytes.len() >= limit {
        return none;
    }
    let enc = plan.layers & L_ENC != 0;
    if enc && ENC_STRIDE > 1 && fnv(&built.bytes) % ENC_STRIDE != 0 {
        return none;
    }
    let d = match indep::decode(&built.bytes, &[reader.to_bytes()]) {
        Ok(d) => d,
        Err(e) => {
            // C06's business (and its job reports it); here the case simply stays oracle-only
            eprintln!("histstack: independent decoder rejects a library-written archive: {e}");
            return none;
        }
    };
    if d.header_len != built.header_len || d.layers != plan.layers {
        eprintln!("histstack: header length / layers differ between the independent decoder and the library");
        return none;
    }
    let (header, body) = built.bytes.split_at(d.header_len);
    let table = jtable(&d.brotli);
    if enc {
        let (Some(kd), Some(nonce)) = (d.kd, d.nonce) else { return none };
        ("hist_comp_enc_h", vec![jbytes(&kd), jbytes(&nonce), jbytes(header), jbytes(body), table, json!(plan.names), json!(ops)])
    } else {
        ("hist_comp_h", vec![jbytes(header), jbytes(body), table, json!(plan.names), json!(ops)])
    }
}
