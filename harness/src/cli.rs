//! The `mlar` binary built from the working tree: C16 (extraction confinement), C17, C19.
#![allow(dead_code)]
use crate::util::*;
use mla::config::ArchiveWriterConfig;
use mla::{ArchiveWriter, Layers};
use serde_json::json;
use std::collections::BTreeMap;
use std::fs;
use std::path::{Path, PathBuf};
use std::process::Command;

pub fn mlar_bin() -> PathBuf {
    let d = std::env::var("VERIF_BINDIR").unwrap_or_else(|_| "/verif/.build/repo-prod/debug".into());
    Path::new(&d).join("mlar")
}

/// recursive snapshot: relative path -> (kind, content)
pub fn snapshot(root: &Path) -> BTreeMap<Vec<u8>, (u8, Vec<u8>)> {
    use std::os::unix::ffi::OsStrExt;
    let mut out = BTreeMap::new();
    fn walk(root: &Path, dir: &Path, out: &mut BTreeMap<Vec<u8>, (u8, Vec<u8>)>) {
        let Ok(rd) = fs::read_dir(dir) else { return };
        for e in rd.flatten() {
            let p = e.path();
            let rel = p.strip_prefix(root).unwrap().as_os_str().as_bytes().to_vec();
            let md = match fs::symlink_metadata(&p) {
                Ok(m) => m,
                Err(_) => continue,
            };
            if md.file_type().is_symlink() {
                out.insert(rel, (2, fs::read_link(&p).map(|t| t.as_os_str().as_bytes().to_vec()).unwrap_or_default()));
            } else if md.is_dir() {
                out.insert(rel, (1, vec![]));
                walk(root, &p, out);
            } else {
                out.insert(rel, (0, fs::read(&p).unwrap_or_default()));
            }
        }
    }
    walk(root, root, &mut out);
    out
}

pub fn build_named_archive(names: &[Vec<u8>], order: &[usize]) -> Result<Vec<u8>, String> {
    let mut cfg = ArchiveWriterConfig::new();
    cfg.set_layers(Layers::EMPTY);
    let mut w = ArchiveWriter::from_config(Vec::new(), cfg).map_err(|e| format!("{e:?}"))?;
    for i in order {
        let name = String::from_utf8(names[*i].clone()).map_err(|_| "utf8")?;
        let content = member_content_for(&names[*i], *i);
        w.add_file(&name, content.len() as u64, content.as_slice()).map_err(|e| format!("{e:?}"))?;
    }
    w.finalize().map_err(|e| format!("{e:?}"))?;
    Ok(w.into_raw())
}

pub fn member_content(i: usize) -> Vec<u8> {
    vec![i as u8, 1, 2, 3]
}

/// members whose name length is a multiple of 3 are EMPTY files (model: Run.c16_content_for)
pub fn member_content_for(name: &[u8], i: usize) -> Vec<u8> {
    if name.len() % 3 == 0 { vec![] } else { member_content(i) }
}

/// independent normalisation (Unix Path::components with the extractor's filter): None = has ".."
pub fn normalise(name: &[u8]) -> Option<Vec<Vec<u8>>> {
    let mut out = Vec::new();
    for c in name.split(|b| *b == b'/') {
        if c.is_empty() || c == b"." {
            continue;
        }
        if c == b".." {
            return None;
        }
        out.push(c.to_vec());
    }
    Some(out)
}

fn representable(comps: &[Vec<u8>]) -> bool {
    !comps.is_empty() && comps.iter().all(|c| c.len() <= 255 && !c.contains(&0)) && comps.iter().map(|c| c.len() + 1).sum::<usize>() < 3800
}

pub struct ExtractRun {
    pub status_ok: bool,
    pub files: Vec<(Vec<u8>, Vec<u8>)>, // under out: relative path, content (sorted)
    pub outside_changed: Vec<String>,
    pub abs_marker_written: bool,
}

/// Run `mlar extract` in a fresh sandbox. form: 0 linear, 1 glob "*", 2 one listed name (names[listed]).
pub fn run_extract(work: &Path, k: usize, archive: &[u8], names: &[Vec<u8>], form: u64, listed: usize, abs_out: bool, out_exists: bool) -> ExtractRun {
    let sb = work.join(format!("sb{k}"));
    let _ = fs::remove_dir_all(&sb);
    fs::create_dir_all(sb.join("sibling")).unwrap();
    fs::write(sb.join("sibling/keep.txt"), b"keep").unwrap();
    fs::write(sb.join("outside.txt"), b"outside").unwrap();
    fs::write(sb.join("a.mla"), archive).unwrap();
    if out_exists {
        fs::create_dir_all(sb.join("out")).unwrap();
    }
    let before = snapshot(&sb);
    let outarg = if abs_out { sb.join("out").to_string_lossy().into_owned() } else { "out".to_string() };
    let mut cmd = Command::new(mlar_bin());
    cmd.current_dir(&sb).arg("extract").arg("-i").arg("a.mla").arg("-o").arg(&outarg);
    match form {
        1 => {
            cmd.arg("-g").arg("*");
        }
        2 => {
            cmd.arg("--").arg(String::from_utf8_lossy(&names[listed]).into_owned());
        }
        _ => {}
    }
    let output = cmd.output().expect("run mlar");
    let after = snapshot(&sb);
    let mut files = Vec::new();
    let mut outside_changed = Vec::new();
    for (p, v) in &after {
        let under_out = p.starts_with(b"out/") || p == b"out";
        if under_out {
            if v.0 == 0 {
                files.push((p[4..].to_vec(), v.1.clone()));
            }
        } else if before.get(p) != Some(v) {
            outside_changed.push(format!("{} created or modified", String::from_utf8_lossy(p)));
        }
    }
    for (p, _) in &before {
        if !after.contains_key(p) {
            outside_changed.push(format!("{} removed", String::from_utf8_lossy(p)));
        }
    }
    files.sort();
    let abs_marker = Path::new("/tmp/verif_c16_abs_marker").exists() || Path::new("/verif_c16_abs_marker").exists();
    let _ = fs::remove_dir_all(&sb);
    ExtractRun { status_ok: output.status.success(), files, outside_changed, abs_marker_written: abs_marker }
}

/// Extraction into a directory that already holds OLDER, LONGER versions of the members (a second extraction,
/// a stale tree): after `mlar extract` each member file holds exactly the member's bytes (both forms).
pub fn c16_stale_cases(_rng: &mut Rng, _tier: &str, out: &mut Out) {
    let work = std::env::current_dir().unwrap();
    let names: Vec<Vec<u8>> = vec![b"a".to_vec(), b"c.bin".to_vec(), b"d/b".to_vec(), b"d/e/f.txt".to_vec(), b"zzz".to_vec()];
    let order: Vec<usize> = vec![3, 0, 4, 1, 2];
    let Ok(archive) = build_named_archive(&names, &order) else { return };
    for form in [0u64, 1] {
        let sb = work.join(format!("sbstale{form}"));
        let _ = fs::remove_dir_all(&sb);
        fs::create_dir_all(sb.join("out/d/e")).unwrap();
        fs::write(sb.join("a.mla"), &archive).unwrap();
        for n in &names {
            fs::write(sb.join("out").join(String::from_utf8_lossy(n).as_ref()), vec![b'S'; 100]).unwrap();
        }
        let mut cmd = Command::new(mlar_bin());
        cmd.current_dir(&sb).arg("extract").arg("-i").arg("a.mla").arg("-o").arg("out");
        if form == 1 {
            cmd.arg("-g").arg("*");
        }
        let output = cmd.output().expect("run mlar");
        let mut msg = None;
        if !output.status.success() {
            msg = Some(format!("mlar extract into a directory holding older files fails (form {form})"));
        }
        for (i, n) in names.iter().enumerate() {
            let got = fs::read(sb.join("out").join(String::from_utf8_lossy(n).as_ref())).unwrap_or_default();
            let want = member_content_for(n, i);
            if got != want && msg.is_none() {
                msg = Some(format!("form {form}: member {:?} extracted over an older file of 100 bytes holds {} bytes, the member has {}", String::from_utf8_lossy(n), got.len(), want.len()));
            }
        }
        let _ = fs::remove_dir_all(&sb);
        out.case(&Case {
            id: format!("c16-stale-form{form}"),
            model_fn: "",
            args: vec![],
            imp: json!([]),
            oracle_ok: msg.is_none(),
            oracle_msg: msg.unwrap_or_default(),
            class: format!("extract over older files form={form}"),
            nontrivial: true,
            meta: json!({"form": form}),
        });
    }
}

fn components_pool() -> Vec<Vec<u8>> {
    vec![
        b".".to_vec(),
        b"..".to_vec(),
        b"a".to_vec(),
        b"b".to_vec(),
        Vec::new(), // empty component (double separator)
        "\u{e9}\u{4e16}".as_bytes().to_vec(),
        vec![b'L'; 255],
        vec![b'M'; 256],
        b"...".to_vec(),
        b"tmp".to_vec(),
        b"verif_c16_abs_marker".to_vec(),
    ]
}

pub fn gen_name(rng: &mut Rng, pool: &[Vec<u8>], depth: usize) -> Vec<u8> {
    let mut s = Vec::new();
    if rng.below(3) == 0 {
        s.push(b'/');
    }
    let n = rng.range(1, depth as u64) as usize;
    for i in 0..n {
        if i > 0 {
            s.push(b'/');
        }
        s.extend(rng.pick(pool).clone());
    }
    if rng.below(4) == 0 {
        s.push(b'/');
    }
    s
}

fn rows_of(r: &ExtractRun) -> Vec<Vec<u64>> {
    let mut rows = vec![vec![u64::from(r.status_ok)]];
    for (p, c) in &r.files {
        let mut row: Vec<u64> = p.iter().map(|b| *b as u64).collect();
        row.push(256);
        row.extend(c.iter().map(|b| *b as u64));
        rows.push(row);
    }
    rows
}

pub fn oracle_c16(names: &[Vec<u8>], form: u64, listed: usize, r: &ExtractRun) -> (Result<(), String>, Option<&'static str>) {
    if !r.outside_changed.is_empty() {
        return (Err(format!("outside the output directory: {}", r.outside_changed.join(", "))), None);
    }
    if r.abs_marker_written {
        return (Err("an absolute member path was written outside the sandbox".into()), None);
    }
    // benign members are extracted with exactly their content
    let norms: Vec<Option<Vec<Vec<u8>>>> = names.iter().map(|n| normalise(n)).collect();
    let selected = |i: usize| form != 2 || names[i] == names[listed];
    // a member that cannot be created at all (component > 255 bytes, NUL) aborts the run: known class
    let unrep = (0..names.len()).any(|i| selected(i) && norms[i].as_ref().map(|c| !c.is_empty() && !representable(c)).unwrap_or(false))
        // ... or a file/directory conflict between two selected members (one is a proper prefix of the other)
        || (0..names.len()).any(|i| {
            selected(i)
                && (0..names.len()).any(|j| {
                    j != i && selected(j) && match (&norms[i], &norms[j]) {
                        (Some(a), Some(b)) => !a.is_empty() && !b.is_empty() && a != b && b.starts_with(a),
                        _ => false,
                    }
                })
        });
    for i in 0..names.len() {
        if !selected(i) {
            continue;
        }
        let Some(ni) = &norms[i] else { continue };
        if !representable(ni) {
            continue;
        }
        let collides = (0..names.len()).any(|j| {
            j != i && selected(j) && norms[j].as_ref().map(|nj| !nj.is_empty() && (nj.starts_with(ni) || ni.starts_with(nj))).unwrap_or(false)
        });
        if collides {
            continue;
        }
        let rel: Vec<u8> = ni.join(&b'/');
        let got = r.files.iter().find(|f| f.0 == rel).map(|f| &f.1);
        if got != Some(&member_content_for(&names[i], i)) {
            let msg = format!("benign member {:?} is not extracted with its content (got {:?})", String::from_utf8_lossy(&names[i]), got.map(|g| g.len()));
            return (Err(msg), if unrep { Some("K16-unrepresentable-member-aborts") } else { None });
        }
    }
    (Ok(()), None)
}

pub fn c16_cases(rng: &mut Rng, tier: &str, out: &mut Out) {
    let work = std::env::current_dir().unwrap();
    let pool = components_pool();
    let mut sets: Vec<Vec<Vec<u8>>> = Vec::new();
    // exhaustive: all single names of depth <= 2 (quick) / <= 3 (thorough) over the pool x lead/trail
    let maxd = if tier == "thorough" { 3 } else { 2 };
    let mut seqs: Vec<Vec<usize>> = vec![vec![]];
    for _ in 0..maxd {
        let mut next = Vec::new();
        for s in &seqs {
            for i in 0..pool.len() {
                let mut t = s.clone();
                t.push(i);
                next.push(t);
            }
        }
        for s in &next {
            for lead in [false, true] {
                for trail in [false, true] {
                    let mut n = Vec::new();
                    if lead {
                        n.push(b'/');
                    }
                    n.extend(s.iter().map(|i| pool[*i].clone()).collect::<Vec<_>>().join(&b'/'));
                    if trail {
                        n.push(b'/');
                    }
                    if n.len() <= 65536 && String::from_utf8(n.clone()).is_ok() {
                        sets.push(vec![n, b"zz_benign".to_vec()]);
                    }
                }
            }
        }
        seqs = next;
    }
    let nrand = if tier == "thorough" { 600 } else { 120 };
    for _ in 0..nrand {
        let k = rng.range(1, 4) as usize;
        let mut s: Vec<Vec<u8>> = Vec::new();
        while s.len() < k {
            let n = gen_name(rng, &pool, 4);
            if !s.contains(&n) {
                s.push(n);
            }
        }
        sets.push(s);
    }
    for (k, set) in sets.iter().enumerate() {
        let mut names = set.clone();
        names.sort();
        names.dedup();
        let mut order: Vec<usize> = (0..names.len()).collect();
        // insertion order in the archive: random
        for i in (1..order.len()).rev() {
            order.swap(i, rng.below(i as u64 + 1) as usize);
        }
        let Ok(archive) = build_named_archive(&names, &order) else { continue };
        let form = (k % 3) as u64;
        let listed = rng.below(names.len() as u64) as usize;
        let abs_out = rng.below(2) == 0;
        let out_exists = rng.below(2) == 0;
        let r = run_extract(&work, k, &archive, &names, form, listed, abs_out, out_exists);
        let (oracle, known) = oracle_c16(&names, form, listed, &r);
        let has_dotdot = names.iter().any(|n| normalise(n).is_none());
        let has_abs = names.iter().any(|n| n.first() == Some(&b'/'));
        let small = names.iter().all(|n| n.len() < 600);
        let mut case = Case {
            id: format!("c16-{k}"),
            model_fn: if small { "c16_run" } else { "" },
            args: if small { vec![json!(form), json!(names), json!(order), json!(listed)] } else { vec![] },
            imp: json!(rows_of(&r)),
            oracle_ok: oracle.is_ok(),
            oracle_msg: oracle.err().unwrap_or_default(),
            class: format!("form={} members={} dotdot={} abs={} absout={} outexists={}", form, names.len(), has_dotdot, has_abs, abs_out, out_exists),
            nontrivial: true,
            meta: json!({"names": names.iter().map(|n| String::from_utf8_lossy(n).into_owned()).map(|s| if s.len() > 80 { format!("{}..({})", &s[..40], s.len()) } else { s }).collect::<Vec<_>>(), "form": form}),
        }
        .to_json();
        if let Some(kn) = known {
            case["known"] = json!(kn);
        }
        out.raw(&case);
    }
}

/// C12 through the command-line extractor: archives of MANY interleaved files (more than the
/// extractor's pool of open file writers) extracted in the whole-archive (linear) form must give
/// each file exactly the bytes per-file reading gives.
/// Linear extraction by `mlar extract` while the OUTPUT fails: a file-size limit of 1 KiB (sh `ulimit -f 2`, SIGXFSZ
/// ignored) makes every write beyond the first KiB of an output file fail with EFBIG. "Delivers to each chosen file
/// exactly the bytes": a run that exits with status 0 must have written every member in full; with members longer
/// than the limit the command has to fail. Members below 8 KiB matter: a buffered writer would only meet the fault
/// when it is dropped.
pub fn c12_fault_cases(_rng: &mut Rng, _tier: &str, out: &mut Out) {
    use mla::ArchiveWriter;
    let work = std::env::current_dir().unwrap();
    for (k, sizes) in [vec![6000usize, 10], vec![100, 3000, 1025], vec![20_000, 5]].into_iter().enumerate() {
        let mut cfg = ArchiveWriterConfig::new();
        cfg.set_layers(Layers::EMPTY);
        let mut w = ArchiveWriter::from_config(Vec::new(), cfg).expect("writer");
        let mut contents: Vec<(String, Vec<u8>)> = Vec::new();
        for (i, sz) in sizes.iter().enumerate() {
            let data: Vec<u8> = (0..*sz).map(|j| (j * 7 + i) as u8).collect();
            let name = format!("m{i}.bin");
            w.add_file(&name, data.len() as u64, data.as_slice()).unwrap();
            contents.push((name, data));
        }
        w.finalize().unwrap();
        let archive = w.into_raw();
        let sb = work.join(format!("c12fault{k}"));
        let _ = fs::remove_dir_all(&sb);
        fs::create_dir_all(&sb).unwrap();
        fs::write(sb.join("a.mla"), &archive).unwrap();
        let script = format!("trap '' XFSZ; ulimit -f 2; exec \"$0\" extract -i a.mla -o out");
        let o = Command::new("sh").current_dir(&sb).arg("-c").arg(&script).arg(mlar_bin()).output().expect("run sh");
        let mut msg: Option<String> = None;
        if o.status.success() {
            for (name, data) in &contents {
                let got = fs::read(sb.join("out").join(name)).unwrap_or_default();
                if &got != data {
                    msg = Some(format!("mlar extract under a 1 KiB file-size limit exits with status 0, and {name} holds {} of its {} bytes", got.len(), data.len()));
                    break;
                }
            }
        }
        let _ = fs::remove_dir_all(&sb);
        out.case(&Case {
            id: format!("c12-fault-{k}"),
            model_fn: "",
            args: vec![],
            imp: json!([]),
            oracle_ok: msg.is_none(),
            oracle_msg: msg.unwrap_or_default(),
            class: format!("extract output-fault status_ok={}", o.status.success()),
            nontrivial: true,
            meta: json!({"sizes": sizes, "exit": o.status.code()}),
        });
    }
}

pub fn c12_cli_cases(rng: &mut Rng, tier: &str, out: &mut Out) {
    c12_fault_cases(rng, tier, out);
    use mla::ArchiveWriter;
    let counts: Vec<usize> = if tier == "thorough" { vec![3, 999, 1000, 1001, 1500, 2500] } else { vec![3, 1001, 1300] };
    let work = std::env::current_dir().unwrap();
    for (k, n) in counts.iter().enumerate() {
        let mut msg: Option<String> = None;
        let layers = if k % 2 == 0 { Layers::EMPTY } else { Layers::COMPRESS };
        let mut cfg = ArchiveWriterConfig::new();
        cfg.set_layers(layers);
        let mut w = ArchiveWriter::from_config(Vec::new(), cfg).expect("writer");
        let names: Vec<String> = (0..*n).map(|i| format!("d{}/f{i}", i % 7)).collect();
        let parts = rng.range(2, 3) as usize;
        let ids: Vec<u64> = names.iter().map(|nm| w.start_file(nm).unwrap()).collect();
        let mut contents: Vec<Vec<u8>> = vec![Vec::new(); *n];
        for p in 0..parts {
            for i in 0..*n {
                let piece: Vec<u8> = format!("<{i}:{p}:{}>", "x".repeat((i * 7 + p) % 23)).into_bytes();
                w.append_file_content(ids[i], piece.len() as u64, piece.as_slice()).unwrap();
                contents[i].extend_from_slice(&piece);
            }
        }
        for id in ids {
            w.end_file(id).unwrap();
        }
        w.finalize().unwrap();
        let archive = w.into_raw();
        let sb = work.join(format!("c12cli{k}"));
        let _ = fs::remove_dir_all(&sb);
        fs::create_dir_all(&sb).unwrap();
        fs::write(sb.join("a.mla"), &archive).unwrap();
        let o = Command::new(mlar_bin()).current_dir(&sb).arg("extract").arg("-i").arg("a.mla").arg("-o").arg("out").output().expect("run mlar");
        if !o.status.success() {
            msg = Some(format!("mlar extract of {n} interleaved files failed: {}", String::from_utf8_lossy(&o.stderr).chars().take(200).collect::<String>()));
        } else {
            let mut bad = 0usize;
            let mut first = None;
            for (i, nm) in names.iter().enumerate() {
                let got = fs::read(sb.join("out").join(nm)).unwrap_or_default();
                if got != contents[i] {
                    bad += 1;
                    if first.is_none() {
                        first = Some((nm.clone(), got.len(), contents[i].len()));
                    }
                }
            }
            if bad > 0 {
                let (nm, g, e) = first.unwrap();
                msg = Some(format!("whole-archive extraction of {n} interleaved files: {bad} files differ from their content, e.g. {nm}: {g} bytes extracted, {e} written"));
            }
        }
        let _ = fs::remove_dir_all(&sb);
        out.case(&Case {
            id: format!("c12-cli-{n}"),
            model_fn: "",
            args: vec![],
            imp: json!([]),
            oracle_ok: msg.is_none(),
            oracle_msg: msg.unwrap_or_default(),
            class: format!("cli-linear files={} layers={}", if *n > 1000 { ">1000" } else { "<=1000" }, k % 2 * 2),
            nontrivial: true,
            meta: json!({"files": n, "parts": parts}),
        });
    }
}

/// C16 with an output directory that already contains symbolic links to the outside
/// (`out/link -> ../sibling`, `out/deep/l2 -> ../../sibling/keepdir`, `out/flink -> ../outside.txt`):
/// members routed through the links (into existing and not-yet-existing directories) must not
/// create, truncate or append to any FILE outside the output directory. (Directories that
/// `create_dir_all` makes through a link before the canonical check are not files; they are
/// reported in the class but tolerated.)
///
/// Model-compared: `c16sl_run` (Run.v) starts from the same link layout and must leave exactly the
/// same regular files (path, content), directories and symbolic links in the WHOLE sandbox
/// (inside and outside `out`; only the archive file `a.mla` is left out), and the same exit
/// status.  Rows: status; `path 256 content` per file; `257 path` per directory; `258 path` per
/// symbolic link; each group sorted by path.
fn snapshot_rows(status_ok: bool, snap: &BTreeMap<Vec<u8>, (u8, Vec<u8>)>) -> Vec<Vec<u64>> {
    let mut rows = vec![vec![u64::from(status_ok)]];
    for (kind, marker) in [(0u8, 256u64), (1, 257), (2, 258)] {
        for (p, v) in snap {
            if v.0 != kind || p == b"a.mla" {
                continue;
            }
            let path = p.iter().map(|b| *b as u64);
            let row: Vec<u64> = if kind == 0 {
                path.chain(std::iter::once(marker)).chain(v.1.iter().map(|b| *b as u64)).collect()
            } else {
                std::iter::once(marker).chain(path).collect()
            };
            rows.push(row);
        }
    }
    rows
}

/// Second defence of `create_file` (the canonical parent must be BENEATH the canonical output directory) against a
/// sibling whose name merely EXTENDS the output directory's name: `restore/latest -> ../restore-old`. "Beneath" is a
/// comparison of path components, not of bytes. Oracle only (the model's sandbox layout is the one of c16-symlink).
pub fn c16_prefix_cases(_rng: &mut Rng, _tier: &str, out: &mut Out) {
    let work = std::env::current_dir().unwrap();
    let mut k = 0;
    for (outdir, sibling) in [("restore", "restore-old"), ("o", "o2"), ("out", "out.bak")] {
        for form in [0u64, 2] {
            let mut names: Vec<Vec<u8>> = vec![b"latest/report.txt".to_vec(), b"latest/new.txt".to_vec(), b"zz_benign".to_vec()];
            names.sort();
            let order: Vec<usize> = (0..names.len()).collect();
            let Ok(archive) = build_named_archive(&names, &order) else { continue };
            let sb = work.join(format!("px{k}"));
            let _ = fs::remove_dir_all(&sb);
            fs::create_dir_all(sb.join(sibling)).unwrap();
            fs::write(sb.join(sibling).join("report.txt"), b"old report").unwrap();
            fs::create_dir_all(sb.join(outdir)).unwrap();
            std::os::unix::fs::symlink(format!("../{sibling}"), sb.join(outdir).join("latest")).unwrap();
            fs::write(sb.join("a.mla"), &archive).unwrap();
            let before = snapshot(&sb);
            let mut cmd = Command::new(mlar_bin());
            cmd.current_dir(&sb).arg("extract").arg("-i").arg("a.mla").arg("-o").arg(outdir);
            if form == 2 {
                cmd.arg("--").arg("latest/report.txt").arg("latest/new.txt");
            }
            let o = cmd.output().expect("run mlar");
            let after = snapshot(&sb);
            let inside = |p: &Vec<u8>| p == outdir.as_bytes() || p.starts_with(format!("{outdir}/").as_bytes());
            let mut bad: Vec<String> = Vec::new();
            for (p, v) in &after {
                if inside(p) || before.get(p) == Some(v) || v.0 == 1 {
                    continue;
                }
                bad.push(format!("{} {}", String::from_utf8_lossy(p), if before.contains_key(p) { "modified" } else { "created" }));
            }
            let _ = fs::remove_dir_all(&sb);
            let msg = if bad.is_empty() { None } else { Some(format!("output directory {outdir:?} holding a link to its sibling {sibling:?}: extraction wrote outside the output directory: {}", bad.join(", "))) };
            out.case(&Case {
                id: format!("c16-prefix-{k}"),
                model_fn: "",
                args: vec![],
                imp: json!([]),
                oracle_ok: msg.is_none(),
                oracle_msg: msg.unwrap_or_default(),
                class: format!("sibling-name-extends-output-dir form={form} status_ok={}", o.status.success()),
                nontrivial: true,
                meta: json!({"outdir": outdir, "sibling": sibling, "form": form}),
            });
            k += 1;
        }
    }
}

pub fn c16_symlink_cases(rng: &mut Rng, tier: &str, out: &mut Out) {
    c16_prefix_cases(rng, tier, out);
    let work = std::env::current_dir().unwrap();
    let targets: Vec<&str> = vec![
        "link/x", "link/keep.txt", "link/sub/escaped.txt", "link/sub/deeper/e2.txt", "deep/l2/y", "deep/l2/new/z", "flink",
        "link/../sibling/keep.txt", "./link/sub/a", "link//sub2//b", "inside/ok.txt", "link", "deep/l2",
        // through a link to a FILE used as a directory, through the real directory out/deep, into an
        // existing directory behind a link, absolute spelling of a routed name
        "flink/x", "deep/x", "link/keepdir/k", "/flink", "deep/l2/../../flink", "deep",
        // a dangling link (target outside the output directory, not existing) and a way through it
        "dlink", "dlink/x", "./dlink",
    ];
    let n = if tier == "thorough" { 120 } else { 30 };
    for k in 0..n {
        let cnt = rng.range(1, 4) as usize;
        let mut names: Vec<Vec<u8>> = Vec::new();
        while names.len() < cnt {
            let t = rng.pick(&targets).as_bytes().to_vec();
            if !names.contains(&t) {
                names.push(t);
            }
        }
        names.push(b"zz_benign".to_vec());
        names.sort();
        let mut order: Vec<usize> = (0..names.len()).collect();
        // insertion order in the archive: random (the linear form appends in archive order)
        for i in (1..order.len()).rev() {
            order.swap(i, rng.below(i as u64 + 1) as usize);
        }
        let Ok(archive) = build_named_archive(&names, &order) else { continue };
        let sb = work.join(format!("sl{k}"));
        let _ = fs::remove_dir_all(&sb);
        fs::create_dir_all(sb.join("sibling/keepdir")).unwrap();
        fs::write(sb.join("sibling/keep.txt"), b"keep").unwrap();
        fs::write(sb.join("outside.txt"), b"outside").unwrap();
        fs::create_dir_all(sb.join("out/deep")).unwrap();
        std::os::unix::fs::symlink("../sibling", sb.join("out/link")).unwrap();
        std::os::unix::fs::symlink("../../sibling/keepdir", sb.join("out/deep/l2")).unwrap();
        std::os::unix::fs::symlink("../outside.txt", sb.join("out/flink")).unwrap();
        std::os::unix::fs::symlink("../nowhere.txt", sb.join("out/dlink")).unwrap();
        fs::write(sb.join("a.mla"), &archive).unwrap();
        let before = snapshot(&sb);
        let form = (k % 3) as u64;
        let mut cmd = Command::new(mlar_bin());
        cmd.current_dir(&sb).arg("extract").arg("-i").arg("a.mla").arg("-o").arg("out");
        let listed = rng.below(names.len() as u64) as usize;
        match form {
            1 => {
                cmd.arg("-g").arg("*");
            }
            2 => {
                cmd.arg("--").arg(String::from_utf8_lossy(&names[listed]).into_owned());
            }
            _ => {}
        }
        let o = cmd.output().expect("run mlar");
        let after = snapshot(&sb);
        let mut bad: Vec<String> = Vec::new();
        let mut dirs_outside = 0usize;
        for (p, v) in &after {
            let under_out = p.starts_with(b"out/") || p == b"out";
            if under_out || before.get(p) == Some(v) {
                continue;
            }
            if v.0 == 1 {
                dirs_outside += 1;
            } else {
                bad.push(format!("{} {}", String::from_utf8_lossy(p), if before.contains_key(p) { "modified" } else { "created" }));
            }
        }
        for (p, v) in &before {
            if !after.contains_key(p) && v.0 != 1 && !(p.starts_with(b"out/")) {
                bad.push(format!("{} removed", String::from_utf8_lossy(p)));
            }
        }
        // the symlinks themselves must still be symlinks (not replaced / written through)
        for l in ["out/link", "out/deep/l2", "out/flink"] {
            if after.get(l.as_bytes()).map(|v| v.0) != Some(2) && before.get(l.as_bytes()).map(|v| v.0) == Some(2) {
                // replaced by a regular file inside out/: allowed (it is beneath the output directory)
            }
        }
        let _ = fs::remove_dir_all(&sb);
        let msg = if bad.is_empty() { None } else { Some(format!("with symbolic links inside the output directory, extraction wrote outside it: {}", bad.join(", "))) };
        out.case(&Case {
            id: format!("c16-symlink-{k}"),
            model_fn: "c16sl_run",
            args: vec![json!(form), json!(names), json!(order), json!(listed)],
            imp: json!(snapshot_rows(o.status.success(), &after)),
            oracle_ok: msg.is_none(),
            oracle_msg: msg.unwrap_or_default(),
            class: format!("symlinks form={} members={} status_ok={} dirs_created_outside={}", form, names.len(), o.status.success(), dirs_outside.min(3)),
            nontrivial: true,
            meta: json!({"names": names.iter().map(|n| String::from_utf8_lossy(n).into_owned()).collect::<Vec<_>>(), "form": form}),
        });
    }
}
