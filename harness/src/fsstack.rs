//! Repair of archives whose layers include COMPRESS: the inputs of the Coq entry points
//! `repair_comp` / `repair_comp_enc` (theories/RunFsStack.v).
//!
//! The model does not re-implement brotli: its decoder instance is the greedy table-driven
//! step of RunFsComp.v.  The tables are built here WITHOUT `mla`, once per archive, from the
//! compression-layer stream of the FULL (uncut) archive: for an encrypted archive the
//! encryption layer is removed with the `aes-gcm` crate directly (DataBlocks of CHUNK
//! ciphertext bytes + 16 tag bytes, nonce = 8-byte prefix ++ BE32 counter, every tag
//! verified), then `fscomp::tables` cuts the compressed blocks apart with the layer's own
//! sizes table, decodes each with the `brotli` crate and tabulates, for EVERY prefix of every
//! block, how many plaintext bytes brotli's streaming decoder (driven directly) has produced.
//! A cut archive is then `body[..cut]` with the same tables: whatever the layers below deliver
//! from a prefix of the archive is a prefix of the tabulated stream.
#![allow(dead_code)]
#[allow(unused_imports)]
use crate::archive::{Built, Plan, L_COMP, L_ENC};
#[allow(unused_imports)]
use crate::util::*;
#[allow(unused_imports)]
use serde_json::{json, Value};

fn fnv(b: &[u8]) -> u64 {
    b.iter().fold(0xcbf29ce484222325u64, |h, x| (h ^ *x as u64).wrapping_mul(0x100000001b3))
}

#[cfg(feature = "scaled")]
mod scaled {
    use super::*;
    use aes_gcm::aead::{Aead, KeyInit, Payload};
    use aes_gcm::Aes256Gcm;
    use std::cell::RefCell;
    use std::collections::HashMap;

    const CHUNK: usize = 64;
    const TAG: usize = 16;

    /// The compression-layer stream under the encryption layer of `body` (aes-gcm crate; None
    /// when a tag does not verify or a DataBlock is shorter than a tag).
    pub fn decrypt_body(key: &[u8; 32], nonce8: &[u8; 8], body: &[u8]) -> Option<Vec<u8>> {
        let c = Aes256Gcm::new(key.into());
        let mut out = Vec::with_capacity(body.len());
        for (i, blk) in body.chunks(CHUNK + TAG).enumerate() {
            if blk.len() < TAG {
                return None;
            }
            let mut n = [0u8; 12];
            n[..8].copy_from_slice(nonce8);
            n[8..].copy_from_slice(&u32::try_from(i).ok()?.to_be_bytes());
            let m = c.decrypt((&n).into(), Payload { msg: blk, aad: b"" }).ok()?;
            out.extend_from_slice(&m);
        }
        Some(out)
    }

    /// (tab, tail) as the model takes them; None when the stream cannot be tabulated (e.g. the
    /// footer contains a complete empty brotli stream).
    pub fn jtables_of(plan: &Plan, built: &Built) -> Option<(Value, Value)> {
        let body = &built.bytes[built.header_len..];
        let wire = if plan.layers & L_ENC != 0 { decrypt_body(&built.key, &built.nonce, body)? } else { body.to_vec() };
        let t = match crate::fscomp::tables(&wire) {
            Ok(t) => t,
            Err(e) => {
                eprintln!("fsstack: compression-layer stream not tabulated ({e}); the archive stays oracle-only");
                return None;
            }
        };
        let tab = Value::Array(t.blocks.iter().map(|(c, p, cnt)| json!([jbytes(c), jbytes(p), cnt])).collect());
        let tail = json!([jbytes(&t.tail), [t.fail_at]]);
        Some((tab, tail))
    }

    thread_local! {
        static CACHE: RefCell<HashMap<u64, Option<(Value, Value)>>> = RefCell::new(HashMap::new());
    }

    pub fn cached_tables(plan: &Plan, built: &Built) -> Option<(Value, Value)> {
        let key = fnv(&built.bytes) ^ ((built.bytes.len() as u64) << 48) ^ plan.layers as u64;
        CACHE.with(|c| {
            let mut c = c.borrow_mut();
            if c.len() > 64 {
                c.clear();
            }
            c.entry(key).or_insert_with(|| jtables_of(plan, built)).clone()
        })
    }
}

/// The model call for the repair of `built.bytes[..cut]` when the archive's layers include
/// compression; `("", [])` otherwise (no compression layer, prod flavour, cut inside the
/// header, stream not tabulated).
pub fn model_call(plan: &Plan, built: &Built, cut: usize, unauth: bool) -> (&'static str, Vec<Value>) {
    let none = ("", vec![]);
    if plan.layers & L_COMP == 0 || cut < built.header_len || cut > built.bytes.len() {
        return none;
    }
    #[cfg(feature = "scaled")]
    {
        let Some((tab, tail)) = scaled::cached_tables(plan, built) else { return none };
        let body = &built.bytes[built.header_len..cut];
        if plan.layers & L_ENC != 0 {
            return ("repair_comp_enc", vec![jbytes(&built.key), jbytes(&built.nonce), tab, tail, jbytes(body), json!(u64::from(unauth))]);
        }
        return ("repair_comp", vec![tab, tail, jbytes(body)]);
    }
    #[allow(unreachable_code)]
    {
        let _ = unauth;
        none
    }
}
