//! C15 (job c15-dims): the dimensions of the REAL ArchiveWriter's tables after generated call
//! sequences whose appends carry up to hundreds of KiB, read back from the footer of the
//! finished archive with the harness's own parser, against the writer MODEL run on the same
//! call sequence with appends of 1..3 bytes (theorem C15_writer_mem_shape_only: the dimensions
//! and the measure wmem depend on the shape of the calls only), and the measure itself.
//! Oracle (independent of the model): the same calls with every append cut down to 1..3 bytes
//! on the real writer give the same call results and the same table dimensions; the number of
//! offsets is at most 2 * files + append calls; the nominal sizes used by the measure
//! (theories/MemSize.v) are the sizes of the Rust types.
#![allow(dead_code)]
use crate::util::*;
use crate::writer::{fnmax, name_of, run_calls, split_nolayer, RunOut};
use serde_json::json;
use std::collections::HashMap;

// the constants of theories/MemSize.v
const W_FIXED: u64 = 208;
const FILES_ENTRY: u64 = 32;
const IDS_ENTRY: u64 = 48;
const SHA_STATE: u64 = 112;
const OFFSET_WORD: u64 = 8;

fn small(size: u64) -> u64 {
    if size == 0 {
        0
    } else {
        1 + size % 3
    }
}

/// the same calls with every append (and its source) cut down to 1..3 bytes; empty stays empty
fn shrink(calls: &[Vec<u64>]) -> Vec<Vec<u64>> {
    calls
        .iter()
        .map(|c| match c[0] {
            1 | 3 => vec![c[0], c[1], small(c[2]), small(c[2])],
            _ => c.clone(),
        })
        .collect()
}

/// rows of the table dimensions from the footer of a finished layer-less archive:
/// per file sorted by name [10, |name|, name.., offsets], then [7, files, runs, name bytes, wmem]
fn dims_rows(out: &RunOut) -> Vec<Vec<u64>> {
    let mut rows = out.rows.clone();
    match out.bytes.as_ref().and_then(|b| split_nolayer(b)) {
        None => rows.push(vec![8]),
        Some((_stream, foot)) => {
            let (mut nfiles, mut nruns, mut names) = (0u64, 0u64, 0u64);
            for e in &foot {
                // e = [namelen, name.., noffsets, offsets.., size, eof]
                let nl = e[0] as usize;
                let no = e[1 + nl];
                let mut r = vec![10, e[0]];
                r.extend_from_slice(&e[1..1 + nl]);
                r.push(no);
                rows.push(r);
                nfiles += 1;
                nruns += no;
                names += e[0];
            }
            // no file is open in a finalized writer
            let wmem = W_FIXED + (FILES_ENTRY + IDS_ENTRY) * nfiles + OFFSET_WORD * nruns + names;
            rows.push(vec![7, nfiles, nruns, names, wmem]);
        }
    }
    rows
}

fn gen_calls(rng: &mut Rng) -> (Vec<Vec<u64>>, String) {
    let nfiles = rng.range(1, 6);
    let codes: [u64; 14] = [0, 1, 2, 3, 5, 6, 8, 9, 10, 11, 12, 13, 14, 15];
    let mut used: Vec<u64> = Vec::new();
    let mut calls: Vec<Vec<u64>> = Vec::new();
    let mut next_id = 0u64;
    let mut open: Vec<u64> = Vec::new();
    let mut pending: Vec<(u64, u64)> = Vec::new(); // (id, appends left)
    let mut bigs = 0;
    let mut hostile = false;
    let size_of = |rng: &mut Rng, bigs: &mut u32| -> u64 {
        match rng.below(10) {
            0 => 0,
            1..=3 => rng.range(1, 64),
            4..=6 => rng.range(1000, 5000),
            _ => {
                *bigs += 1;
                rng.range(50_000, 300_000)
            }
        }
    };
    let mut started = 0;
    // files are started up front or lazily; appends of the open files are interleaved
    while started < nfiles || !pending.is_empty() {
        let start_now = started < nfiles && (pending.is_empty() || rng.below(3) == 0);
        if start_now {
            started += 1;
            let code = match rng.below(12) {
                0 => {
                    hostile = true;
                    *rng.pick(&[4u64, 7]) // over-long: refused
                }
                1 if !used.is_empty() => {
                    hostile = true;
                    *rng.pick(&used) // duplicate: refused
                }
                _ => *rng.pick(&codes),
            };
            let refused = code == 4 || code == 7 || used.contains(&code);
            if rng.below(6) == 0 {
                // add_file: start + append + end in one call
                let sz = size_of(rng, &mut bigs);
                calls.push(vec![3, code, sz, sz]);
                if !refused {
                    used.push(code);
                    next_id += 1;
                }
            } else {
                calls.push(vec![0, code]);
                if !refused {
                    used.push(code);
                    open.push(next_id);
                    pending.push((next_id, rng.below(6)));
                    next_id += 1;
                }
            }
            continue;
        }
        let k = rng.below(pending.len() as u64) as usize;
        let (id, left) = pending[k];
        if left == 0 {
            pending.remove(k);
            // most files are ended; the epilogue ends the others
            if rng.below(8) != 0 {
                calls.push(vec![2, id]);
                open.retain(|x| *x != id);
            }
            continue;
        }
        pending[k].1 -= 1;
        let sz = size_of(rng, &mut bigs);
        calls.push(vec![1, id, sz, sz]);
        match rng.below(20) {
            0 => calls.push(vec![4]),
            1 => {
                hostile = true;
                calls.push(vec![1, 99, 5, 5]) // never-issued id: refused
            }
            2 => {
                hostile = true;
                calls.push(vec![2, 98])
            }
            _ => {}
        }
    }
    if rng.below(4) != 0 && open.is_empty() {
        calls.push(vec![5]);
    }
    let class = format!("files={} bigs={} hostile={}", nfiles.min(6), bigs.min(3), hostile);
    (calls, class)
}

fn oracle(calls: &[Vec<u64>], big: &[Vec<u64>]) -> Result<(), String> {
    // the implementation alone: sizes do not matter to results and dimensions
    let small_run = dims_rows(&run_calls(&shrink(calls)));
    if small_run != big {
        return Err(format!(
            "the same calls with appends cut down to 1..3 bytes leave other results / table dimensions: {:?} vs {:?}",
            small_run.last(),
            big.last()
        ));
    }
    if let Some(last) = big.last() {
        if last[0] == 7 {
            let appends = calls.iter().filter(|c| c[0] == 1 || c[0] == 3).count() as u64;
            if last[2] > 2 * last[1] + appends {
                return Err(format!("{} offsets recorded for {} files and {} append calls", last[2], last[1], appends));
            }
        }
    }
    if big.iter().any(|r| r.len() == 2 && r[0] == 2) {
        return Err("a writer call panicked".into());
    }
    Ok(())
}

/// The nominal sizes of theories/MemSize.v against the Rust types (64-bit target).
fn sizes_case(out: &mut Out) {
    use std::mem::size_of;
    let string = size_of::<String>() as u64;
    let finfo = size_of::<mla::FileInfo>() as u64;
    let sha = size_of::<sha2::Sha256>() as u64;
    let state = size_of::<mla::ArchiveWriterState>() as u64;
    let map = size_of::<HashMap<String, u64>>() as u64;
    // state (tag, Vec header of ids, HashMap header of hashes) + files_info + ids_info headers
    // + next_id + current_id + the Box of dest
    let fixed = state + 2 * map + 8 + 8 + 8;
    let mut msg = Vec::new();
    if string + 8 != FILES_ENTRY {
        msg.push(format!("size_of::<String>() + 8 = {} but FILES_ENTRY = {FILES_ENTRY}", string + 8));
    }
    if finfo + 8 != IDS_ENTRY {
        msg.push(format!("size_of::<FileInfo>() + 8 = {} but IDS_ENTRY = {IDS_ENTRY}", finfo + 8));
    }
    if sha > SHA_STATE {
        msg.push(format!("size_of::<Sha256>() = {sha} exceeds SHA_STATE = {SHA_STATE}"));
    }
    if fixed > W_FIXED {
        msg.push(format!("fixed part of ArchiveWriter = {fixed} exceeds W_FIXED = {W_FIXED}"));
    }
    out.case(&Case {
        id: "c15-dims-sizes".into(),
        model_fn: "",
        args: vec![],
        imp: json!([]),
        oracle_ok: msg.is_empty(),
        oracle_msg: msg.join("; "),
        class: "nominal sizes".into(),
        nontrivial: true,
        meta: json!({"String": string, "FileInfo": finfo, "Sha256": sha, "ArchiveWriterState": state, "HashMap": map, "fixed": fixed, "fnmax": fnmax()}),
    });
}

pub fn c15_dims_cases(rng: &mut Rng, tier: &str, out: &mut Out) {
    sizes_case(out);
    // fixed cases first: the end call that records a run without any append; one huge append
    let fixed: Vec<Vec<Vec<u64>>> = vec![
        vec![vec![0, 0], vec![0, 1], vec![2, 0]],
        vec![vec![0, 0], vec![1, 0, 4_000_000, 4_000_000], vec![2, 0], vec![5]],
        vec![vec![0, 0], vec![0, 1], vec![1, 0, 70_000, 70_000], vec![1, 1, 3, 3], vec![1, 0, 90_000, 90_000], vec![1, 0, 1, 1], vec![2, 1], vec![2, 0], vec![5]],
    ];
    let n = if tier == "thorough" { 1500 } else { 250 };
    let mut all: Vec<(String, Vec<Vec<u64>>, String)> = fixed.into_iter().enumerate().map(|(i, c)| (format!("c15-dims-fixed-{i}"), c, "fixed".to_string())).collect();
    for k in 0..n {
        let (calls, class) = gen_calls(rng);
        all.push((format!("c15-dims-{k}"), calls, class));
    }
    for (id, calls, class) in all {
        let ro = run_calls(&calls);
        let rows = dims_rows(&ro);
        let o = oracle(&calls, &rows);
        let bytes: u64 = calls.iter().filter(|c| c[0] == 1 || c[0] == 3).map(|c| c[2]).sum();
        let _ = name_of;
        out.case(&Case {
            id,
            model_fn: "c15_dims",
            args: vec![json!(shrink(&calls))],
            imp: json!(rows),
            oracle_ok: o.is_ok(),
            oracle_msg: o.err().unwrap_or_default(),
            class,
            nontrivial: bytes > 0,
            meta: json!({"calls": calls, "bytes_appended": bytes}),
        });
    }
}

// ---------------------------------------------------------------------------------------------
// c15-blocks: ONE FileContent block of 4 MiB / 48 MiB (a single append_file_content call fed by
// a generator): the peak live heap of writing it, of repairing the archive and of extracting it
// linearly must not follow the size of the block.  (The job c15 feeds its data in 1 MiB
// appends: its blocks have the same size at both archive sizes, so a consumer that buffered a
// whole block would pass it.)

use crate::archive::{layers_of, L_ENC};
use crate::fuzz::measure;
use crate::mem::{CountSink, GenReader};
use mla::config::{ArchiveReaderConfig, ArchiveWriterConfig};
use mla::helpers::linear_extract;
use mla::{ArchiveFailSafeReader, ArchiveReader, ArchiveWriter};
use std::fs::File;
use std::io::{self, BufReader, Read, Write};
use x25519_dalek::{PublicKey, StaticSecret};

fn write_one_block<W: Write>(dest: W, layers: u8, size: u64, pk: &PublicKey) -> Result<W, String> {
    let mut cfg = ArchiveWriterConfig::new();
    cfg.set_layers(layers_of(layers));
    if layers & L_ENC != 0 {
        cfg.add_public_keys(std::slice::from_ref(pk));
    }
    let mut w = ArchiveWriter::from_config(dest, cfg).map_err(|e| format!("{e:?}"))?;
    let id = w.start_file("one/block.bin").map_err(|e| format!("{e:?}"))?;
    let g = GenReader { left: size, x: 4242 };
    w.append_file_content(id, size, g.take(size)).map_err(|e| format!("{e:?}"))?;
    w.end_file(id).map_err(|e| format!("{e:?}"))?;
    w.finalize().map_err(|e| format!("{e:?}"))?;
    Ok(w.into_raw())
}

fn one_block(op: &str, layers: u8, size: u64, dir: &std::path::Path, sk: &StaticSecret) -> Result<(usize, u64), String> {
    let pk = PublicKey::from(sk);
    let path = dir.join(format!("c15b_{layers}_{size}.mla"));
    if op == "write" {
        let (r, peak) = measure(|| write_one_block(CountSink(0), layers, size, &pk));
        return Ok((peak, r?.0));
    }
    if !path.exists() {
        let f = io::BufWriter::new(File::create(&path).map_err(|e| e.to_string())?);
        write_one_block(f, layers, size, &pk)?.flush().map_err(|e| e.to_string())?;
    }
    let mut rc = ArchiveReaderConfig::new();
    rc.add_private_keys(std::slice::from_ref(sk));
    if op == "repair" {
        let (r, peak) = measure(|| -> Result<u64, String> {
            let src = BufReader::new(File::open(&path).map_err(|e| e.to_string())?);
            let mut fsr = ArchiveFailSafeReader::from_config(src, rc).map_err(|e| format!("{e:?}"))?;
            let mut wc = ArchiveWriterConfig::new();
            wc.set_layers(layers_of(0));
            let mut w = ArchiveWriter::from_config(CountSink(0), wc).map_err(|e| format!("{e:?}"))?;
            fsr.convert_to_archive(&mut w).map_err(|e| format!("{e:?}"))?;
            Ok(w.into_raw().0)
        });
        Ok((peak, r?))
    } else {
        let (r, peak) = measure(|| -> Result<u64, String> {
            let src = File::open(&path).map_err(|e| e.to_string())?;
            let mut rd = ArchiveReader::from_config(src, rc).map_err(|e| format!("{e:?}"))?;
            let name = "one/block.bin".to_string();
            let mut export: HashMap<&String, CountSink> = HashMap::new();
            export.insert(&name, CountSink(0));
            linear_extract(&mut rd, &mut export).map_err(|e| format!("{e:?}"))?;
            Ok(export.values().map(|s| s.0).sum())
        });
        Ok((peak, r?))
    }
}

pub fn c15_blocks_cases(_rng: &mut Rng, tier: &str, out: &mut Out) {
    let (small, big): (u64, u64) = if tier == "thorough" { (4 << 20, 192 << 20) } else { (4 << 20, 48 << 20) };
    let dir = std::env::current_dir().unwrap();
    let sk = {
        let mut r = Rng::new(0xC15B);
        let mut b = [0u8; 32];
        b.copy_from_slice(&r.bytes(32));
        StaticSecret::from(b)
    };
    let block: u64 = 4 << 20;
    for layers in [0u8, 3] {
        for op in ["write", "repair", "linear"] {
            let a = one_block(op, layers, small, &dir, &sk);
            let b = one_block(op, layers, big, &dir, &sk);
            let mut msg = None;
            let mut meta = json!({"op": op, "layers": layers, "small_block": small, "big_block": big});
            match (a, b) {
                (Ok((pa, na)), Ok((pb, nb))) => {
                    meta["peak_small"] = json!(pa);
                    meta["peak_big"] = json!(pb);
                    meta["bytes_small"] = json!(na);
                    meta["bytes_big"] = json!(nb);
                    let slack = (1usize << 20) + 16 * (big / block) as usize;
                    if pb > pa + slack {
                        msg = Some(format!("{op} (layers {layers}): peak live heap {pb} bytes for one block of {big} bytes, {pa} for one of {small}: memory follows the size of a FileContent block"));
                    }
                    if op == "linear" && (na != small || nb != big) {
                        msg = Some(format!("{op} (layers {layers}): {na} / {nb} bytes delivered"));
                    }
                    if op == "repair" && (na < small || nb < big) {
                        msg = Some(format!("{op} (layers {layers}): repaired archives of {na} / {nb} bytes"));
                    }
                }
                (Err(e), _) | (_, Err(e)) => msg = Some(format!("{op} (layers {layers}) failed: {e}")),
            }
            out.case(&Case {
                id: format!("c15-blocks-{op}-l{layers}"),
                model_fn: "",
                args: vec![],
                imp: json!([]),
                oracle_ok: msg.is_none(),
                oracle_msg: msg.unwrap_or_default(),
                class: format!("op={op} layers={layers}"),
                nontrivial: true,
                meta,
            });
        }
        for t in [small, big] {
            let _ = std::fs::remove_file(dir.join(format!("c15b_{layers}_{t}.mla")));
        }
    }
}
