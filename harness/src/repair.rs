//! Repair (ArchiveFailSafeReader::convert_to_archive): runner, canonical rows shared with the
//! Coq entry points repair_plain / repair_enc, oracles of C02 / C04 / C05, truncation sweeps.
#![allow(dead_code)]
use crate::archive::*;
use crate::util::*;
use mla::config::{ArchiveReaderConfig, ArchiveWriterConfig};
use mla::errors::FailSafeReadError;
use mla::{ArchiveFailSafeReader, ArchiveWriter, Layers};
use serde_json::{json, Value};
use std::io::Read;
use x25519_dalek::StaticSecret;

pub fn status_code(e: &FailSafeReadError) -> (u64, Vec<String>) {
    use FailSafeReadError::*;
    match e {
        NoError => (0, vec![]),
        UnexpectedEOFOnNextBlock => (1, vec![]),
        IOErrorOnNextBlock(_) => (2, vec![]),
        ErrorOnNextBlock(_) => (3, vec![]),
        ArchiveFileIDReuse(_) => (4, vec![]),
        ArchiveFileIDAlreadyClose(_) => (5, vec![]),
        FilenameReuse(_) => (6, vec![]),
        ContentForUnknownFile(_) => (7, vec![]),
        EOFForUnknownFile(_) => (8, vec![]),
        ErrorInFile(_, _) => (9, vec![]),
        HashDiffers { .. } => (10, vec![]),
        FailSafeReadInternalError => (11, vec![]),
        EndOfOriginalArchiveData => (12, vec![]),
        UnfinishedFiles { filenames, stopping_error } => (status_code(stopping_error).0, filenames.clone()),
    }
}

static CFG_ORDER: std::sync::atomic::AtomicUsize = std::sync::atomic::AtomicUsize::new(0);

pub struct Repaired {
    pub rows: Vec<Vec<u64>>,
    pub status: Option<u64>,
    pub unfinished: Vec<Vec<u8>>,
    pub files: Vec<(Vec<u8>, Vec<u8>)>, // re-read with the normal reader
    pub crashed: Option<String>,
    pub reread_ok: bool,
}

/// Repair `input` into a layer-less archive; a source reader wrapper can throttle reads.
pub fn repair_with<R: Read>(src: R, privs: &[StaticSecret], unauth: bool) -> Repaired {
    let res = catch(|| {
        let mut cfg = ArchiveReaderConfig::new();
        // the two setters commute for a caller: every other call selects the mode BEFORE giving the keys
        let mode_first = CFG_ORDER.fetch_add(1, std::sync::atomic::Ordering::Relaxed) % 2 == 1;
        if !mode_first {
            cfg.add_private_keys(privs);
        }
        if unauth {
            cfg.failsafe_return_data_even_unauthenticated();
        } else {
            cfg.failsafe_return_only_authenticated_data();
        }
        if mode_first {
            cfg.add_private_keys(privs);
        }
        let mut fsr = ArchiveFailSafeReader::from_config(src, cfg).map_err(|e| format!("open: {e:?}"))?;
        let mut wcfg = ArchiveWriterConfig::new();
        wcfg.set_layers(Layers::EMPTY);
        let mut w = ArchiveWriter::from_config(Vec::new(), wcfg).map_err(|e| format!("writer: {e:?}"))?;
        let st = fsr.convert_to_archive(&mut w).map_err(|e| format!("convert: {e:?}"))?;
        Ok::<_, String>((status_code(&st), w.into_raw()))
    });
    match res {
        Err(p) => Repaired { rows: vec![vec![2]], status: None, unfinished: vec![], files: vec![], crashed: Some(p), reread_ok: false },
        Ok(Err(_e)) => Repaired { rows: vec![vec![1]], status: None, unfinished: vec![], files: vec![], crashed: None, reread_ok: false },
        Ok(Ok(((code, unf), out))) => {
            let mut unf_b: Vec<Vec<u8>> = unf.iter().map(|s| s.as_bytes().to_vec()).collect();
            unf_b.sort();
            let mut rows = vec![vec![code, unf_b.len() as u64]];
            for n in &unf_b {
                let mut r = vec![5u64];
                r.extend(n.iter().map(|b| *b as u64));
                rows.push(r);
            }
            rows.push(vec![88]);
            // re-read the repaired archive with the normal reader
            let mut names: Vec<Vec<u8>> = Vec::new();
            let mut reread_ok = true;
            match catch(|| open_reader(&out, &[])) {
                Ok(Ok(rd)) => {
                    if let Ok(it) = rd.list_files() {
                        names = it.map(|s| s.as_bytes().to_vec()).collect();
                    }
                }
                _ => reread_ok = false,
            }
            names.sort();
            let mut ops = vec![vec![0u64]];
            for i in 0..names.len() as u64 {
                ops.push(vec![1, i]);
                ops.push(vec![3, i, 100_000]);
            }
            let hrows = run_history(&out, &[], &names, &ops, true);
            let groups = per_op(&hrows);
            let mut files = Vec::new();
            for (i, n) in names.iter().enumerate() {
                let g = groups.get(2 + 2 * i).cloned().unwrap_or_default();
                let mut data = Vec::new();
                if g.first().map(|r| r[0]) != Some(7) {
                    reread_ok = false;
                }
                for r in g.iter().skip(1) {
                    if r[0] != 0 {
                        reread_ok = false;
                    } else {
                        data.extend(r[1..].iter().map(|x| *x as u8));
                    }
                }
                files.push((n.clone(), data));
            }
            rows.extend(hrows);
            Repaired { rows, status: Some(code), unfinished: unf_b, files, crashed: None, reread_ok }
        }
    }
}

pub fn repair_bytes(input: &[u8], privs: &[StaticSecret], unauth: bool) -> Repaired {
    repair_with(input, privs, unauth)
}

/// C02: soundness of the repair of a prefix of a valid archive.
pub fn oracle_c02(plan: &Plan, built: &Built, r: &Repaired, header_complete: bool) -> Result<(), String> {
    if let Some(p) = &r.crashed {
        return Err(format!("repair panicked: {p}"));
    }
    let Some(status) = r.status else {
        return if header_complete { Err("repair returned an error although the header is complete".into()) } else { Ok(()) };
    };
    if !r.reread_ok {
        return Err("the repaired archive does not open / read normally".into());
    }
    for (name, data) in &r.files {
        let Some(idx) = plan.names.iter().position(|n| n == name) else {
            return Err(format!("repaired archive contains a name that is not in the original: {:?}", String::from_utf8_lossy(name)));
        };
        let orig = &built.contents[idx];
        if !orig.starts_with(data) {
            return Err(format!("file {idx}: recovered content is not a prefix of the original"));
        }
        if !r.unfinished.contains(name) && data != orig {
            return Err(format!("file {idx} is not reported unfinished but is incomplete ({} of {} bytes)", data.len(), orig.len()));
        }
    }
    if status == 12 {
        if !r.unfinished.is_empty() || r.files.len() != plan.names.len() {
            return Err("end of original data reported but not all files recovered completely".into());
        }
    }
    Ok(())
}

pub fn model_call(plan: &Plan, built: &Built, cut: usize, unauth: bool) -> (&'static str, Vec<Value>) {
    if cut < built.header_len || !cfg!(feature = "scaled") {
        return ("", vec![]);
    }
    let body = &built.bytes[built.header_len..cut];
    if plan.layers == 0 {
        ("repair_plain", vec![jbytes(body)])
    } else if plan.layers == L_ENC {
        ("repair_enc", vec![jbytes(&built.key), jbytes(&built.nonce), jbytes(body), json!(u64::from(unauth))])
    } else {
        // archives with the compression layer: tables of the real brotli decoder, RunFsStack.v
        crate::fsstack::model_call(plan, built, cut, unauth)
    }
}

pub fn sweep_archives(rng: &mut Rng, n: usize) -> Vec<(Plan, Built)> {
    let mut v = Vec::new();
    let mut k = 0;
    while v.len() < n {
        let layers = (k % 4) as u8;
        k += 1;
        let mut plan = gen_plan(rng, layers);
        if plan.pieces.is_empty() {
            continue;
        }
        plan.recipients = 1;
        plan.reader_key = 0;
        if let Ok(b) = build(rng, &plan) {
            if b.bytes.len() <= 1500 {
                v.push((plan, b));
            }
        }
    }
    v
}

/// C02: every truncation length of a few archives x both modes.
pub fn c02_cases(rng: &mut Rng, tier: &str, out: &mut Out) {
    let narch = if tier == "thorough" { 40 } else { 8 };
    let model_stride = if tier == "thorough" { 3 } else { 1 };
    for (ai, (plan, built)) in sweep_archives(rng, narch).iter().enumerate() {
        for cut in 0..=built.bytes.len() {
            for unauth in [false, true] {
                if unauth && plan.layers & L_ENC == 0 {
                    continue;
                }
                let r = repair_bytes(&built.bytes[..cut], &built.privs, unauth);
                let oracle = oracle_c02(plan, built, &r, cut >= built.header_len);
                // work package hdrsrc: the model runs on the archive bytes INCLUDING the header (every cut, the
                // header's too); every 16th case with the model's own ECIES unwrap
                let (f, args) = if cut % model_stride == 0 || !oracle.is_ok() {
                    if cfg!(feature = "scaled") { crate::hdrsrc::archive_model_call(plan, built, cut, unauth, &[], cut % 16 == 3) } else { model_call(plan, built, cut, unauth) }
                } else { ("", vec![]) };
                let dist_to_end = built.bytes.len() - cut;
                out.case(&Case {
                    id: format!("c02-a{ai}-cut{cut}-u{}", u8::from(unauth)),
                    model_fn: f,
                    args,
                    imp: json!(r.rows),
                    oracle_ok: oracle.is_ok(),
                    oracle_msg: oracle.err().unwrap_or_default(),
                    class: format!("layers={} unauth={} status={:?} region={}", plan.layers, unauth, r.status,
                                   if cut < built.header_len { "header" } else if dist_to_end == 0 { "intact" } else if dist_to_end < 60 { "tail" } else { "body" }),
                    nontrivial: cut >= built.header_len,
                    meta: json!({"archive": ai, "cut": cut, "len": built.bytes.len(), "layers": plan.layers, "unauth": unauth, "header_len": built.header_len}),
                });
            }
        }
    }
}

/// C05: completeness on the intact archive, monotonicity along every n -> n+1, maximality
/// without compression. One case per (archive, mode).
pub fn c05_cases(rng: &mut Rng, tier: &str, out: &mut Out) {
    let narch = if tier == "thorough" { 60 } else { 12 };
    for (ai, (plan, built)) in sweep_archives(rng, narch).iter().enumerate() {
        for unauth in [false, true] {
            if unauth && plan.layers & L_ENC == 0 {
                continue;
            }
            let mut msg: Option<String> = None;
            let mut prev: Vec<(Vec<u8>, Vec<u8>)> = Vec::new();
            let mut evals = 0;
            for cut in built.header_len..=built.bytes.len() {
                let r = repair_bytes(&built.bytes[..cut], &built.privs, unauth);
                evals += 1;
                if let Some(p) = &r.crashed {
                    msg = Some(format!("cut {cut}: repair panicked: {p}"));
                    break;
                }
                // monotone: every file recovered at cut-1 is at least as long at cut
                for (n, d) in &prev {
                    let now = r.files.iter().find(|f| &f.0 == n).map(|f| f.1.len()).unwrap_or(0);
                    if now < d.len() {
                        msg = Some(format!("cut {cut}: file {:?} shrinks from {} to {} bytes when one more byte is given", String::from_utf8_lossy(n), d.len(), now));
                    }
                }
                if msg.is_some() {
                    break;
                }
                // maximality without compression: all content bytes present in the usable part
                if plan.layers & L_COMP == 0 {
                    let usable = usable_plain_len(plan, built, cut, unauth);
                    let expect = expected_recovery(plan, built, usable);
                    for (i, exp) in expect.iter().enumerate() {
                        let got = r.files.iter().find(|f| f.0 == plan.names[i]).map(|f| f.1.len()).unwrap_or(0);
                        if got < *exp {
                            msg = Some(format!("cut {cut}: file {i}: {got} bytes recovered, {exp} are present in the usable part of the stream"));
                        }
                    }
                    if msg.is_some() {
                        break;
                    }
                }
                prev = r.files.clone();
                if cut == built.bytes.len() {
                    if r.status != Some(12) || !r.unfinished.is_empty() {
                        msg = Some(format!("undamaged archive: status {:?}, {} unfinished", r.status, r.unfinished.len()));
                    }
                    for (i, c) in built.contents.iter().enumerate() {
                        if r.files.iter().find(|f| f.0 == plan.names[i]).map(|f| &f.1) != Some(c) {
                            msg = Some(format!("undamaged archive: file {i} not recovered completely"));
                        }
                    }
                    // the undamaged archive delivered by a pipe-like source (reads ending anywhere: inside a chunk,
                    // at its end, inside its tag) is recovered as completely
                    for q in [1usize, 2, 3, 7, 15, 16, 17, 63, 64, 65, 79, 81] {
                        if msg.is_some() {
                            break;
                        }
                        let sched: Vec<usize> = if q == 81 { (0..4000).map(|_| *rng.pick(&[1usize, 5, 11, 16, 40, 64, 80])).collect() } else { vec![q] };
                        let t = repair_with(ThrottledReader::new(std::io::Cursor::new(built.bytes.clone()), sched), &built.privs, unauth);
                        evals += 1;
                        if t.crashed.is_some() || t.status != Some(12) || !t.unfinished.is_empty() || t.files != r.files {
                            msg = Some(format!("undamaged archive from a source returning at most {q} bytes per read (81 = varying): status {:?}, {} unfinished, {} of {} bytes recovered",
                                               t.status, t.unfinished.len(), t.files.iter().map(|f| f.1.len()).sum::<usize>(), built.contents.iter().map(|c| c.len()).sum::<usize>()));
                        }
                    }
                    // with the encryption layer every read of the source goes through read_exact / read_to_end / io::copy,
                    // which repeat an interrupted read: a source that reports ONE interruption loses nothing
                    if plan.layers & L_ENC != 0 {
                        for trial in 0..6usize {
                            if msg.is_some() {
                                break;
                            }
                            let q = [1usize, 7, 16, 80, 100_000, 33][trial];
                            let at = rng.below((built.bytes.len() / q.min(80)) as u64 + 3) as usize;
                            let src = FlakyReader { data: &built.bytes, pos: 0, sched: vec![q], calls: 0, intr: vec![at] };
                            let t = repair_with(src, &built.privs, unauth);
                            evals += 1;
                            if t.crashed.is_some() || t.status != Some(12) || !t.unfinished.is_empty() || t.files != r.files {
                                msg = Some(format!("undamaged encrypted archive from a source (reads of {q} bytes) reporting ONE interruption at read {at}: status {:?}, {} unfinished, {} of {} bytes recovered",
                                                   t.status, t.unfinished.len(), t.files.iter().map(|f| f.1.len()).sum::<usize>(), built.contents.iter().map(|c| c.len()).sum::<usize>()));
                            }
                        }
                    }
                }
            }
            out.case(&Case {
                id: format!("c05-a{ai}-u{}", u8::from(unauth)),
                model_fn: "",
                args: vec![],
                imp: json!([]),
                oracle_ok: msg.is_none(),
                oracle_msg: msg.unwrap_or_default(),
                class: format!("layers={} unauth={}", plan.layers, unauth),
                nontrivial: true,
                meta: json!({"archive": ai, "len": built.bytes.len(), "layers": plan.layers, "unauth": unauth, "cuts": evals,
                             "pieces": plan.pieces.iter().map(|p| (p.0, p.1.len())).collect::<Vec<_>>()}),
            });
        }
    }
}

/// Rewrite every file id of a layer-less block stream with `f` (ids are opaque u64 in the
/// format: an independent writer may number files any way it likes).
pub fn remap_ids(bytes: &[u8], header_len: usize, f: impl Fn(u64) -> u64) -> Option<Vec<u8>> {
    let mut out = bytes.to_vec();
    let body = &bytes[header_len..];
    let mut p = 0usize;
    loop {
        let t = *body.get(p)?;
        if t == 0xFE {
            return Some(out);
        }
        let id = u64::from_le_bytes(body.get(p + 1..p + 9)?.try_into().ok()?);
        out[header_len + p + 1..header_len + p + 9].copy_from_slice(&f(id).to_le_bytes());
        p += 9;
        match t {
            0 | 1 => {
                let l = u64::from_le_bytes(body.get(p..p + 8)?.try_into().ok()?) as usize;
                p += 8 + l;
            }
            0xFF => p += 32,
            _ => return None,
        }
    }
}

/// C05 on archives whose file ids are not 0, 1, 2.. in start order (layer-less; ids remapped by
/// +1, by a large constant, and reversed): the normal reader still reads them, and repairing
/// the undamaged archive recovers every file completely.
pub fn c05_ids_cases(rng: &mut Rng, tier: &str, out: &mut Out) {
    let n = if tier == "thorough" { 120 } else { 24 };
    let mut done = 0;
    while done < n {
        let mut plan = gen_plan(rng, 0);
        if plan.pieces.is_empty() {
            continue;
        }
        plan.recipients = 1;
        plan.reader_key = 0;
        let Ok(built) = build(rng, &plan) else { continue };
        let nf = plan.names.len() as u64;
        let kind = done % 3;
        let remapped = match kind {
            0 => remap_ids(&built.bytes, built.header_len, |i| i + 1),
            1 => remap_ids(&built.bytes, built.header_len, |i| i + (1 << 40) + 7),
            _ => remap_ids(&built.bytes, built.header_len, |i| nf - 1 - i.min(nf - 1)),
        };
        let Some(bytes) = remapped else { continue };
        let mut msg: Option<String> = None;
        // the normal reader does not care about the ids
        let ops = full_read_ops(rng, plan.names.len());
        let rows = run_history(&bytes, &[], &plan.names, &ops, true);
        let b2 = Built { bytes: bytes.clone(), header_len: built.header_len, key: built.key, nonce: built.nonce, privs: vec![], contents: built.contents.clone() };
        if let Err(e) = oracle_read(&plan, &b2, &ops, &rows) {
            msg = Some(format!("archive with remapped file ids (kind {kind}): {e}"));
        }
        let r = repair_bytes(&bytes, &[], false);
        if msg.is_none() {
            if let Some(p) = &r.crashed {
                msg = Some(format!("repair of an undamaged archive with remapped file ids (kind {kind}) panicked: {p}"));
            } else if r.status != Some(12) || !r.unfinished.is_empty() {
                msg = Some(format!("repair of an undamaged archive with remapped file ids (kind {kind}): status {:?}, {} unfinished", r.status, r.unfinished.len()));
            } else {
                for (i, c) in built.contents.iter().enumerate() {
                    if r.files.iter().find(|f| f.0 == plan.names[i]).map(|f| &f.1) != Some(c) {
                        msg = Some(format!("repair of an undamaged archive with remapped file ids (kind {kind}): file {i} not recovered completely"));
                    }
                }
            }
        }
        out.case(&Case {
            id: format!("c05-ids-{done}"),
            model_fn: "repair_plain",
            args: vec![jbytes(&bytes[built.header_len..])],
            imp: json!(r.rows),
            oracle_ok: msg.is_none(),
            oracle_msg: msg.unwrap_or_default(),
            class: format!("remapped-ids kind={kind} files={}", plan.names.len()),
            nontrivial: true,
            meta: json!({"kind": kind, "files": plan.names.len(), "len": bytes.len()}),
        });
        done += 1;
    }
}

/// C05, completeness on undamaged COMPRESSED archives spanning many blocks (where a block's
/// compressed stream ends relative to the fail-safe reader's refills varies from archive to
/// archive): repaired from memory and from sources returning 1, 2, 3 or 7 bytes per read.
pub fn c05_blocks_cases(rng: &mut Rng, tier: &str, out: &mut Out) {
    let n = if tier == "thorough" { 1200 } else { 160 };
    let (lo, hi) = if cfg!(feature = "scaled") { (300u64, 3000u64) } else { (3_000_000, 9_000_000) };
    let n = if cfg!(feature = "scaled") { n } else { n / 40 };
    for k in 0..n {
        let layers = if k % 3 == 2 { L_COMP | L_ENC } else { L_COMP };
        let nfiles = rng.range(1, 3) as usize;
        let names: Vec<Vec<u8>> = (0..nfiles).map(|i| format!("f{i}").into_bytes()).collect();
        let total = rng.range(lo, hi) as usize;
        let entropy = rng.below(3);
        let mut pieces = Vec::new();
        let mut left = total;
        while left > 0 {
            let m = (rng.range(1, (total / 2).max(2) as u64) as usize).min(left);
            let data: Vec<u8> = match entropy {
                0 => vec![(pieces.len() % 251) as u8; m],
                1 => (0..m).map(|i| b"the quick brown fox jumps over the lazy dog "[(i + pieces.len()) % 44]).collect(),
                _ => rng.bytes(m),
            };
            pieces.push((rng.below(nfiles as u64) as usize, data));
            left -= m;
        }
        let plan = Plan { names, pieces, layers, level: *rng.pick(&[0u32, 1, 5, 9, 11]), recipients: 1, reader_key: 0 };
        let Ok(built) = build(rng, &plan) else { continue };
        let mut msg: Option<String> = None;
        let mut model_cases: Vec<(bool, &'static str, Vec<Value>, Vec<Vec<u64>>, Option<String>)> = Vec::new();
        let complete = |r: &Repaired, how: &str| -> Option<String> {
            if let Some(p) = &r.crashed {
                return Some(format!("undamaged compressed archive ({how}): repair panicked: {p}"));
            }
            if r.status != Some(12) || !r.unfinished.is_empty() {
                return Some(format!("undamaged compressed archive ({how}): status {:?}, {} unfinished", r.status, r.unfinished.len()));
            }
            for (i, c) in built.contents.iter().enumerate() {
                let got = r.files.iter().find(|f| f.0 == plan.names[i]).map(|f| f.1.len()).unwrap_or(0);
                if r.files.iter().find(|f| f.0 == plan.names[i]).map(|f| &f.1) != Some(c) {
                    return Some(format!("undamaged compressed archive ({how}): file {i}: {got} of {} bytes recovered", c.len()));
                }
            }
            None
        };
        for unauth in [false, true] {
            if unauth && layers & L_ENC == 0 {
                continue;
            }
            let r = repair_bytes(&built.bytes, &built.privs, unauth);
            let m = complete(&r, "from memory");
            // model comparison of the from-memory repair (RunFsStack.repair_comp / repair_comp_enc)
            let (f, args) = model_call(&plan, &built, built.bytes.len(), unauth);
            if !f.is_empty() {
                model_cases.push((unauth, f, args, r.rows.clone(), m.clone()));
            }
            if msg.is_none() {
                msg = m;
            }
        }
        for piece in [1usize, 2, 3, 7] {
            if msg.is_some() || (k % 4 != piece % 4 && tier != "thorough") {
                continue;
            }
            let r = repair_with(ThrottledReader::new(built.bytes.as_slice(), vec![piece]), &built.privs, true);
            msg = complete(&r, &format!("from a source returning {piece} bytes per read"));
        }
        let total_stream = total + 60 * nfiles;
        let blocks = if cfg!(feature = "scaled") { total_stream / 256 } else { total_stream / (4 << 20) };
        out.case(&Case {
            id: format!("c05-blocks-{k}"),
            model_fn: "",
            args: vec![],
            imp: json!([]),
            oracle_ok: msg.is_none(),
            oracle_msg: msg.unwrap_or_default(),
            class: format!("intact-compressed layers={layers} entropy={entropy} blocks={}", blocks.min(12)),
            nontrivial: true,
            meta: json!({"layers": layers, "level": plan.level, "entropy": entropy, "total": total, "archive_len": built.bytes.len(),
                         "pieces": plan.pieces.iter().map(|p| (p.0, p.1.len())).collect::<Vec<_>>()}),
        });
        for (unauth, f, args, rows, m) in model_cases {
            out.case(&Case {
                id: format!("c05-blocks-{k}-model-u{}", u8::from(unauth)),
                model_fn: f,
                args,
                imp: json!(rows),
                oracle_ok: m.is_none(),
                oracle_msg: m.unwrap_or_default(),
                class: format!("intact-compressed from-memory model layers={layers} unauth={unauth} entropy={entropy} blocks={}", blocks.min(12)),
                nontrivial: true,
                meta: json!({"layers": layers, "level": plan.level, "entropy": entropy, "total": total, "archive_len": built.bytes.len(), "unauth": unauth}),
            });
        }
    }
}

/// Number of plaintext (block stream) bytes repair may use from the first `cut` archive bytes.
pub fn usable_plain_len(plan: &Plan, built: &Built, cut: usize, unauth: bool) -> usize {
    let body = cut - built.header_len;
    if plan.layers & L_ENC == 0 {
        return body;
    }
    let (ch, tag) = if cfg!(feature = "scaled") { (64usize, 16usize) } else { (131072, 16) };
    let cts = ch + tag;
    let full = body / cts;
    let rest = body % cts;
    if unauth {
        full * ch + rest.min(ch)
    } else {
        // complete chunks only; chunk 0 is returned unauthenticated (known finding D2), which
        // only gives more
        let whole = full * ch;
        // a last partial chunk that is complete with its tag counts too
        let total_body = built.bytes.len() - built.header_len;
        if cut == built.bytes.len() && rest >= tag {
            let _ = total_body;
            whole + rest - tag
        } else {
            whole
        }
    }
}

/// For each file, the number of content bytes lying in the first `usable` bytes of the block
/// stream (reconstructed from the plan: FileStart 17+name, FileContent 17+data, EndOfFile 41).
pub fn expected_recovery(plan: &Plan, _built: &Built, usable: usize) -> Vec<usize> {
    let n = plan.names.len();
    let mut got = vec![0usize; n];
    let mut pos = 0usize;
    let mut started = vec![false; n];
    let last_piece: Vec<Option<usize>> = (0..n).map(|f| plan.pieces.iter().rposition(|p| p.0 == f)).collect();
    for (k, (f, piece)) in plan.pieces.iter().enumerate() {
        if !started[*f] {
            started[*f] = true;
            pos += 17 + plan.names[*f].len();
        }
        if !piece.is_empty() {
            pos += 17;
            let avail = usable.saturating_sub(pos).min(piece.len());
            got[*f] += avail;
            pos += piece.len();
        }
        if last_piece[*f] == Some(k) {
            pos += 41;
        }
    }
    got
}

// ---------------- witnesses (regression corpus of repaired defects) ----------------

fn fixed_plan(layers: u8, sizes: &[(usize, usize)], entropy: u8) -> Plan {
    let nfiles = sizes.iter().map(|s| s.0).max().unwrap_or(0) + 1;
    let names: Vec<Vec<u8>> = (0..nfiles).map(|i| format!("file{i}").into_bytes()).collect();
    let mut rng = Rng::new(4242);
    let pieces = sizes
        .iter()
        .map(|(f, n)| {
            let d: Vec<u8> = match entropy {
                0 => vec![0u8; *n],
                1 => (0..*n).map(|i| b"the quick brown fox "[i % 20]).collect(),
                _ => rng.bytes(*n),
            };
            (*f, d)
        })
        .collect();
    Plan { names, pieces, layers, level: 5, recipients: 1, reader_key: 0 }
}

/// D4/D5: an UNDAMAGED compressed archive must be recovered completely (a decompression pass
/// that produced no output was reported as end of stream).
pub fn witness_d4() -> Result<(), String> {
    let mut rng = Rng::new(99);
    let unit = if cfg!(feature = "scaled") { 1usize } else { 16384 };
    for (k, sizes) in [vec![(0usize, 95usize), (0, 1), (0, 81)], vec![(0, 127), (1, 257)], vec![(0, 78), (3, 23), (3, 23), (1, 105), (3, 24), (2, 35), (2, 23)],
                       vec![(0, 256)], vec![(0, 255), (0, 1), (0, 256), (0, 300)], vec![(0, 600)]].iter().enumerate() {
        for entropy in 0..3u8 {
            for layers in [L_COMP, L_COMP | L_ENC] {
                let sizes: Vec<(usize, usize)> = sizes.iter().map(|(f, n)| (*f, n * unit)).collect();
                let plan = fixed_plan(layers, &sizes, entropy);
                let built = build(&mut rng, &plan)?;
                let r = repair_bytes(&built.bytes, &built.privs, true);
                if r.status != Some(12) || !r.unfinished.is_empty() {
                    return Err(format!("D4: undamaged compressed archive #{k} (entropy {entropy}, layers {layers}): status {:?}, {} unfinished", r.status, r.unfinished.len()));
                }
                for (i, c) in built.contents.iter().enumerate() {
                    if r.files.iter().find(|f| f.0 == plan.names[i]).map(|f| &f.1) != Some(c) {
                        return Err(format!("D4: undamaged compressed archive #{k} (entropy {entropy}, layers {layers}): file {i} not recovered completely"));
                    }
                }
            }
        }
    }
    Ok(())
}

/// D5: repairing from a source that returns one byte per read gives the same result.
pub fn witness_d5() -> Result<(), String> {
    let mut rng = Rng::new(7);
    let plan = fixed_plan(L_COMP, &[(0, 300), (1, 40), (0, 10)], 1);
    let built = build(&mut rng, &plan)?;
    let a = repair_bytes(&built.bytes, &built.privs, true);
    let b = repair_with(ThrottledReader::new(built.bytes.as_slice(), vec![1]), &built.privs, true);
    if a.files != b.files || a.status != b.status {
        return Err(format!("D5: repair from a 1-byte-per-read source recovers {} bytes, from memory {} bytes",
                           b.files.iter().map(|f| f.1.len()).sum::<usize>(), a.files.iter().map(|f| f.1.len()).sum::<usize>()));
    }
    if a.status != Some(12) {
        return Err(format!("D5: status {:?}", a.status));
    }
    Ok(())
}

/// D6: after flush() the bytes at the destination are enough to recover what was appended.
pub fn witness_d6() -> Result<(), String> {
    use mla::config::ArchiveWriterConfig;
    for n in [200usize, 2000, 200_000] {
        let mut cfg = ArchiveWriterConfig::new();
        cfg.set_layers(Layers::COMPRESS);
        let mut w = ArchiveWriter::from_config(Vec::new(), cfg).map_err(|e| format!("{e:?}"))?;
        let id = w.start_file("f").map_err(|e| format!("{e:?}"))?;
        let data = vec![b'z'; n];
        w.append_file_content(id, n as u64, data.as_slice()).map_err(|e| format!("{e:?}"))?;
        w.flush().map_err(|e| format!("{e:?}"))?;
        let bytes = w.into_raw();
        let r = repair_bytes(&bytes, &[], true);
        let got = r.files.iter().find(|f| f.0 == b"f").map(|f| f.1.len()).unwrap_or(0);
        if got != n {
            return Err(format!("D6: {n} compressible bytes appended and flushed, repair of the flushed bytes recovers {got}"));
        }
    }
    Ok(())
}

pub fn witnesses() -> Vec<(&'static str, &'static str, fn() -> Result<(), String>)> {
    vec![("D4", "C05", witness_d4), ("D5", "C13", witness_d5), ("D6", "C14", witness_d6)]
}


/// A source serving `data` in reads of at most `sched[i]` bytes (last entry repeats) that answers
/// `ErrorKind::Interrupted` ONCE at each read index listed in `intr` (the read is then repeated by
/// whoever retries) - what a pipe or a socket under signals does.
pub struct FlakyReader<'a> {
    pub data: &'a [u8],
    pub pos: usize,
    pub sched: Vec<usize>,
    pub calls: usize,
    pub intr: Vec<usize>,
}
impl<'a> Read for FlakyReader<'a> {
    fn read(&mut self, buf: &mut [u8]) -> std::io::Result<usize> {
        let c = self.calls;
        self.calls += 1;
        if self.intr.contains(&c) {
            return Err(std::io::Error::new(std::io::ErrorKind::Interrupted, "interrupted"));
        }
        let q = if self.sched.is_empty() { usize::MAX } else { self.sched[c.min(self.sched.len() - 1)].max(1) };
        let k = q.min(buf.len()).min(self.data.len() - self.pos);
        buf[..k].copy_from_slice(&self.data[self.pos..self.pos + k]);
        self.pos += k;
        Ok(k)
    }
}

/// A source that serves `data` in reads of at most `q` bytes and fails ONCE, at read index `at`, with a hard I/O
/// error (a medium that hiccups); the read after it continues where the stream stood.
pub struct ErrOnceReader<'a> {
    pub data: &'a [u8],
    pub pos: usize,
    pub q: usize,
    pub calls: usize,
    pub at: usize,
}
impl<'a> Read for ErrOnceReader<'a> {
    fn read(&mut self, buf: &mut [u8]) -> std::io::Result<usize> {
        let c = self.calls;
        self.calls += 1;
        if c == self.at {
            return Err(std::io::Error::new(std::io::ErrorKind::Other, "medium error"));
        }
        let k = self.q.max(1).min(buf.len()).min(self.data.len() - self.pos);
        buf[..k].copy_from_slice(&self.data[self.pos..self.pos + k]);
        self.pos += k;
        Ok(k)
    }
}

/// C02 over unusual but legal SOURCES and ARCHIVES:
///  (a) prefixes delivered by a source that splits reads and reports interruptions (the repair result
///      must still be sound: names of the original, contents prefixes, complete unless unfinished,
///      end-of-data only if everything was recovered);
///  (b) every cut of layer-less archives whose file ids are not 0,1,2.. in start order (remapped by
///      +1, by a large constant, reversed) - model-compared (repair_plain takes any ids).
pub fn c02_src_cases(rng: &mut Rng, tier: &str, out: &mut Out) {
    let narch = if tier == "thorough" { 24 } else { 6 };
    // (a)
    for (ai, (plan, built)) in sweep_archives(rng, narch).iter().enumerate() {
        let len = built.bytes.len();
        let ncuts = if tier == "thorough" { 40 } else { 14 };
        for ci in 0..ncuts {
            let cut = if ci == 0 { len } else { rng.range(built.header_len as u64, len as u64) as usize };
            for unauth in [false, true] {
                if unauth && plan.layers & L_ENC == 0 {
                    continue;
                }
                let q = *rng.pick(&[1usize, 2, 3, 7, 13, 100_000]);
                let nintr = rng.range(1, 4) as usize;
                // interruptions anywhere among the reads such a run makes (most land in block headers, where
                // read_exact repeats the read; some in content, where the repair loop sees them)
                let upper = (cut / q.min(64)).max(4) as u64 + 8;
                let intr: Vec<usize> = (0..nintr).map(|_| rng.below(upper) as usize).collect();
                let src = FlakyReader { data: &built.bytes[..cut], pos: 0, sched: vec![q], calls: 0, intr: intr.clone() };
                let r = repair_with(src, &built.privs, unauth);
                let oracle = oracle_c02(plan, built, &r, true);
                out.case(&Case {
                    id: format!("c02-src-a{ai}-c{ci}-u{}", u8::from(unauth)),
                    model_fn: "",
                    args: vec![],
                    imp: json!(r.rows),
                    oracle_ok: oracle.is_ok(),
                    oracle_msg: oracle.err().map(|e| format!("source with reads of {q} bytes interrupted at read(s) {intr:?}, cut {cut}: {e}")).unwrap_or_default(),
                    class: format!("flaky-source layers={} unauth={} quota={} status={:?}", plan.layers, unauth, q, r.status),
                    nontrivial: r.status.is_some(),
                    meta: json!({"archive": ai, "cut": cut, "len": len, "layers": plan.layers, "unauth": unauth, "quota": q, "interrupted_reads": intr}),
                });
            }
        }
    }
    // (b)
    let n = if tier == "thorough" { 12 } else { 3 };
    let mut done = 0;
    while done < n {
        let mut plan = gen_plan(rng, 0);
        if plan.pieces.is_empty() || plan.names.len() < 2 {
            continue;
        }
        plan.recipients = 1;
        plan.reader_key = 0;
        let Ok(built) = build(rng, &plan) else { continue };
        if built.bytes.len() > 900 {
            continue;
        }
        let nf = plan.names.len() as u64;
        let kind = done % 3;
        let remapped = match kind {
            0 => remap_ids(&built.bytes, built.header_len, |i| i + 1),
            1 => remap_ids(&built.bytes, built.header_len, |i| i + (1 << 40) + 7),
            _ => remap_ids(&built.bytes, built.header_len, |i| nf - 1 - i.min(nf - 1)),
        };
        let Some(bytes) = remapped else { continue };
        let b2 = Built { bytes: bytes.clone(), header_len: built.header_len, key: built.key, nonce: built.nonce, privs: vec![], contents: built.contents.clone() };
        for cut in built.header_len..=bytes.len() {
            let r = repair_bytes(&bytes[..cut], &[], false);
            let oracle = oracle_c02(&plan, &b2, &r, true);
            out.case(&Case {
                id: format!("c02-ids-{done}-cut{cut}"),
                model_fn: if cfg!(feature = "scaled") { "repair_plain" } else { "" },
                args: if cfg!(feature = "scaled") { vec![jbytes(&bytes[built.header_len..cut])] } else { vec![] },
                imp: json!(r.rows),
                oracle_ok: oracle.is_ok(),
                oracle_msg: oracle.err().map(|e| format!("archive with remapped file ids (kind {kind}), cut {cut}: {e}")).unwrap_or_default(),
                class: format!("remapped-ids kind={kind} status={:?}", r.status),
                nontrivial: true,
                meta: json!({"kind": kind, "cut": cut, "len": bytes.len(), "files": plan.names.len()}),
            });
        }
        done += 1;
    }
}


// ------------------------------------------------------------------ archives no writer of this library produces

/// Layer-less archives written by the INDEPENDENT encoder of format.rs (FORMAT.md only): file ids that do
/// not start at 0, empty FileContent blocks (also as the very first content block), a file named "" among
/// the names, interleaved pieces. Valid per the format description; the library's own writer never emits them.
pub fn exotic_archives(rng: &mut Rng, n: usize) -> Vec<(Plan, Built)> {
    use crate::format::indep;
    let mut v = Vec::new();
    for k in 0..n {
        let nfiles = 2 + k % 3;
        let mut names: Vec<Vec<u8>> = (0..nfiles).map(|i| format!("e{k}/{i}").into_bytes()).collect();
        if k % 2 == 0 {
            names[nfiles - 1] = Vec::new(); // the empty name
        }
        let mut pieces: Vec<(usize, Vec<u8>)> = Vec::new();
        if k % 3 != 2 {
            pieces.push((0, Vec::new())); // an empty block before any non-empty one
        }
        for _ in 0..rng.range(3, 7) {
            let f = rng.below(nfiles as u64) as usize;
            let len = *rng.pick(&[0usize, 0, 1, 7, 40, 63, 64, 65, 130]);
            pieces.push((f, rng.bytes(len)));
        }
        let p = indep::EncParams { layers: 0, recipients: vec![], ephemeral: [0; 32], key: [0; 32], nonce: [0; 8], quality: 0, keep_empty_pieces: true, footer_rot: k };
        let bytes = indep::encode(&names, &pieces, &p);
        let mut contents: Vec<Vec<u8>> = vec![Vec::new(); nfiles];
        for (f, d) in &pieces {
            contents[*f].extend_from_slice(d);
        }
        let plan = Plan { names, pieces, layers: 0, level: 0, recipients: 1, reader_key: 0 };
        v.push((plan, Built { bytes, header_len: 9, key: [0; 32], nonce: [0; 8], privs: vec![], contents }));
    }
    v
}

/// `repair_bytes` under a watchdog: None when the repair has not returned after `secs` seconds (the thread is
/// left behind; the caller stops the family).
pub fn repair_bytes_watchdog(input: &[u8], secs: u64) -> Option<Repaired> {
    let (tx, rx) = std::sync::mpsc::channel();
    let data = input.to_vec();
    std::thread::spawn(move || {
        let r = repair_bytes(&data, &[], false);
        let _ = tx.send(r);
    });
    rx.recv_timeout(std::time::Duration::from_secs(secs)).ok()
}

/// C02 / C05 on exotic archives: every cut (C02 clauses, model-compared), the intact archive complete,
/// no file shrinking from one cut to the next; a repair that does not return within 10 s is a failure.
pub fn c02_exotic_cases(rng: &mut Rng, tier: &str, out: &mut Out) {
    let n = if tier == "thorough" { 18 } else { 4 };
    'arch: for (ai, (plan, built)) in exotic_archives(rng, n).iter().enumerate() {
        // the normal reader reads them (they are valid)
        let ops = full_read_ops(rng, plan.names.len());
        let rows = run_history(&built.bytes, &[], &plan.names, &ops, true);
        if let Err(e) = oracle_read(plan, built, &ops, &rows) {
            out.case(&Case { id: format!("c02-exotic-{ai}-read"), model_fn: "", args: vec![], imp: json!([]), oracle_ok: false,
                             oracle_msg: format!("an archive written by the independent encoder (ids from 10, empty blocks, empty name) is not read back: {e}"),
                             class: "exotic read".into(), nontrivial: true, meta: json!({"archive": ai}) });
        }
        let mut prev: Vec<(Vec<u8>, Vec<u8>)> = Vec::new();
        for cut in built.header_len..=built.bytes.len() {
            let Some(r) = repair_bytes_watchdog(&built.bytes[..cut], 10) else {
                out.case(&Case { id: format!("c02-exotic-{ai}-cut{cut}"), model_fn: "", args: vec![], imp: json!([]), oracle_ok: false,
                                 oracle_msg: format!("repair of the first {cut} bytes (of {}) of a valid archive holding empty content blocks does not terminate (10 s)", built.bytes.len()),
                                 class: "exotic hang".into(), nontrivial: true, meta: json!({"archive": ai, "cut": cut, "pieces": plan.pieces.iter().map(|p| (p.0, p.1.len())).collect::<Vec<_>>()}) });
                break 'arch;
            };
            let mut oracle = oracle_c02(plan, built, &r, true);
            if oracle.is_ok() {
                for (nm, d) in &prev {
                    let now = r.files.iter().find(|f| &f.0 == nm).map(|f| f.1.len()).unwrap_or(0);
                    if now < d.len() {
                        oracle = Err(format!("file {:?} shrinks from {} to {} bytes when one more byte of the archive is given", String::from_utf8_lossy(nm), d.len(), now));
                    }
                }
            }
            if oracle.is_ok() && cut == built.bytes.len() && (r.status != Some(12) || !r.unfinished.is_empty() || r.files.len() != plan.names.len()) {
                oracle = Err(format!("undamaged archive: status {:?}, {} unfinished, {} of {} files", r.status, r.unfinished.len(), r.files.len(), plan.names.len()));
            }
            prev = r.files.clone();
            out.case(&Case {
                id: format!("c02-exotic-{ai}-cut{cut}"),
                model_fn: if cfg!(feature = "scaled") { "repair_plain" } else { "" },
                args: if cfg!(feature = "scaled") { vec![jbytes(&built.bytes[built.header_len..cut])] } else { vec![] },
                imp: json!(r.rows),
                oracle_ok: oracle.is_ok(),
                oracle_msg: oracle.err().map(|e| format!("archive of the independent encoder (ids from 10, empty blocks, empty name), cut {cut}: {e}")).unwrap_or_default(),
                class: format!("exotic status={:?}", r.status),
                nontrivial: true,
                meta: json!({"archive": ai, "cut": cut, "len": built.bytes.len()}),
            });
        }
    }
}
