//! C06 — archives conform to format v1 as documented, in both directions.
//!
//! Everything in the `indep` module is written from /repo/FORMAT.md ALONE, with the `aes-gcm`,
//! `hkdf`, `sha2`, `x25519-dalek` and `brotli` crates called directly: it never touches `mla::`.
//!  (a) library -> independent decoder      (b) independent encoder -> library
//!  (c) samples/archive_v1.mla              (d) AesGcm256 vs aes-gcm vs the Coq model
#![allow(dead_code)]
use crate::archive::{self, Plan, L_COMP, L_ENC};
use crate::util::*;
use serde_json::{json, Value};

/// An independent implementation of FORMAT.md (decoder and encoder).
pub mod indep {
    use aes_gcm::aead::{Aead, KeyInit, Payload};
    use aes_gcm::Aes256Gcm;
    use hkdf::Hkdf;
    use sha2::{Digest, Sha256};
    use std::collections::BTreeMap;
    use std::io::{Read, Write};
    use x25519_dalek::{PublicKey, StaticSecret};

    /// "encrypted_content: [u8; 128 * 1024]" / "4 * 1024 * 1024-bytes" (FORMAT.md); the scaled
    /// flavour of the library is built with 64 / 256 instead.
    pub const CHUNK: usize = if cfg!(feature = "scaled") { 64 } else { 128 * 1024 };
    pub const BLOCK: usize = if cfg!(feature = "scaled") { 256 } else { 4 * 1024 * 1024 };
    pub const TAG: usize = 16;
    pub const ENCRYPT: u8 = 0b0000_0001;
    pub const COMPRESS: u8 = 0b0000_0010;

    #[derive(Clone, Debug, PartialEq)]
    pub struct File {
        pub name: Vec<u8>,
        pub content: Vec<u8>,
        pub hash: Vec<u8>,
    }

    #[derive(Default)]
    pub struct Decoded {
        pub layers: u8,
        pub header_len: usize,
        /// files in the order of their FileStart blocks
        pub files: Vec<File>,
        pub recipients: usize,
        pub kd: Option<[u8; 32]>,
        pub nonce: Option<[u8; 8]>,
        /// D-H(cpriv, apub) of the candidate key that unwrapped the archive key
        pub dh: Option<[u8; 32]>,
        pub chunks: usize,
        /// (compressed block, its decompression)
        pub brotli: Vec<(Vec<u8>, Vec<u8>)>,
        pub content_len: usize,
    }

    struct Rd<'a> {
        b: &'a [u8],
        p: usize,
    }
    impl<'a> Rd<'a> {
        fn take(&mut self, n: usize, what: &str) -> Result<&'a [u8], String> {
            if self.b.len() - self.p < n {
                return Err(format!("{what}: {n} bytes needed at offset {}, {} left", self.p, self.b.len() - self.p));
            }
            let s = &self.b[self.p..self.p + n];
            self.p += n;
            Ok(s)
        }
        fn u8(&mut self, what: &str) -> Result<u8, String> {
            Ok(self.take(1, what)?[0])
        }
        fn u32(&mut self, what: &str) -> Result<u32, String> {
            Ok(u32::from_le_bytes(self.take(4, what)?.try_into().unwrap()))
        }
        fn u64(&mut self, what: &str) -> Result<u64, String> {
            Ok(u64::from_le_bytes(self.take(8, what)?.try_into().unwrap()))
        }
        fn len(&mut self, what: &str) -> Result<usize, String> {
            let v = self.u64(what)?;
            if v > self.b.len() as u64 {
                return Err(format!("{what}: length {v} exceeds the data"));
            }
            Ok(v as usize)
        }
    }

    fn gcm_open(key: &[u8; 32], nonce: &[u8; 12], ct: &[u8], tag: &[u8]) -> Option<Vec<u8>> {
        let c = Aes256Gcm::new(key.into());
        let mut m = ct.to_vec();
        m.extend_from_slice(tag);
        c.decrypt(nonce.into(), Payload { msg: &m, aad: b"" }).ok()
    }
    fn gcm_seal(key: &[u8; 32], nonce: &[u8; 12], pt: &[u8]) -> Vec<u8> {
        Aes256Gcm::new(key.into()).encrypt(nonce.into(), Payload { msg: pt, aad: b"" }).expect("aes-gcm")
    }

    /// dhkey = HKDF(SHA-256, D-H(cpriv, apub), "KEY DERIVATION")
    pub fn dhkey(shared: &[u8; 32]) -> [u8; 32] {
        let mut out = [0u8; 32];
        Hkdf::<Sha256>::new(None, shared).expand(b"KEY DERIVATION", &mut out).expect("hkdf");
        out
    }
    fn chunk_nonce(nonce: &[u8; 8], i: u32) -> [u8; 12] {
        let mut n = [0u8; 12];
        n[..8].copy_from_slice(nonce);
        n[8..].copy_from_slice(&i.to_be_bytes());
        n
    }

    pub fn decode(archive: &[u8], candidates: &[[u8; 32]]) -> Result<Decoded, String> {
        let mut d = Decoded::default();
        let mut r = Rd { b: archive, p: 0 };
        // ---- MLA header
        if r.take(3, "magic")? != b"MLA" {
            return Err("magic is not MLA".into());
        }
        let version = r.u32("format_version")?;
        if version != 1 {
            return Err(format!("format_version {version}"));
        }
        d.layers = r.u8("layers_enabled")?;
        if d.layers & !(ENCRYPT | COMPRESS) != 0 {
            return Err(format!("unknown layer bits {:#x}", d.layers));
        }
        let opt = r.u8("Option tag of encrypt")?;
        let mut enc = None;
        match opt {
            0 => {}
            1 => {
                let public: [u8; 32] = r.take(32, "multi_recipient.public")?.try_into().unwrap();
                let n = r.len("encrypted_keys length")?;
                let mut keys = Vec::new();
                for _ in 0..n {
                    let k: [u8; 32] = r.take(32, "KeyAndTag.key")?.try_into().unwrap();
                    let t: [u8; 16] = r.take(16, "KeyAndTag.tag")?.try_into().unwrap();
                    keys.push((k, t));
                }
                let nonce: [u8; 8] = r.take(8, "nonce")?.try_into().unwrap();
                enc = Some((public, keys, nonce));
            }
            x => return Err(format!("Option tag {x}")),
        }
        d.header_len = r.p;
        let mut data: Vec<u8> = archive[r.p..].to_vec();
        // ---- 1. encryption layer
        if d.layers & ENCRYPT != 0 {
            let (apub, keys, nonce) = enc.ok_or("encrypt layer enabled but no EncryptionPersistentConfig")?;
            d.recipients = keys.len();
            d.nonce = Some(nonce);
            let mut kd = None;
            'cand: for cpriv in candidates {
                let shared = StaticSecret::from(*cpriv).diffie_hellman(&PublicKey::from(apub));
                let dk = dhkey(shared.as_bytes());
                for (k, t) in &keys {
                    if let Some(pk) = gcm_open(&dk, b"ECIES NONCE0", k, t) {
                        kd = Some(<[u8; 32]>::try_from(pk.as_slice()).map_err(|_| "wrapped key is not 32 bytes")?);
                        d.dh = Some(*shared.as_bytes());
                        break 'cand;
                    }
                }
            }
            let kd = kd.ok_or("no candidate key unwraps the archive key")?;
            d.kd = Some(kd);
            let mut inner = Vec::with_capacity(data.len());
            for (i, blk) in data.chunks(CHUNK + TAG).enumerate() {
                if blk.len() < TAG {
                    return Err(format!("last DataBlock has {} bytes, fewer than a tag", blk.len()));
                }
                let (ct, tag) = blk.split_at(blk.len() - TAG);
                let i32 = u32::try_from(i).map_err(|_| "too many DataBlocks")?;
                let msg = gcm_open(&kd, &chunk_nonce(&nonce, i32), ct, tag).ok_or(format!("tag of DataBlock {i} does not verify"))?;
                inner.extend_from_slice(&msg);
                d.chunks += 1;
            }
            data = inner;
        }
        // ---- 2. compression layer
        if d.layers & COMPRESS != 0 {
            if data.len() < 4 {
                return Err("compression layer: no sizes_info_length".into());
            }
            let l = u32::from_le_bytes(data[data.len() - 4..].try_into().unwrap()) as usize;
            if data.len() - 4 < l {
                return Err("compression layer: sizes_info_length exceeds data".into());
            }
            let fstart = data.len() - 4 - l;
            let mut fr = Rd { b: &data[fstart..data.len() - 4], p: 0 };
            let n = fr.len("compressed_sizes length")?;
            let mut sizes = Vec::new();
            for _ in 0..n {
                sizes.push(fr.u32("compressed size")? as usize);
            }
            let last = fr.u32("last_block_size")? as usize;
            if fr.p != l {
                return Err(format!("SizesInfo takes {} bytes, sizes_info_length says {l}", fr.p));
            }
            if sizes.iter().sum::<usize>() != fstart {
                return Err(format!("compressed sizes sum to {}, compressed_data has {fstart} bytes", sizes.iter().sum::<usize>()));
            }
            let mut out = Vec::new();
            let mut p = 0usize;
            for (i, sz) in sizes.iter().enumerate() {
                let blk = &data[p..p + sz];
                p += sz;
                let mut plain = Vec::new();
                brotli::Decompressor::new(blk, 4096).read_to_end(&mut plain).map_err(|e| format!("brotli block {i}: {e}"))?;
                let want = if i + 1 == sizes.len() { last } else { BLOCK };
                if plain.len() != want {
                    return Err(format!("compressed block {i} decompresses to {} bytes, expected {want}", plain.len()));
                }
                out.extend_from_slice(&plain);
                d.brotli.push((blk.to_vec(), plain));
            }
            data = out;
        }
        // ---- 3. actual archive files data
        d.content_len = data.len();
        if data.len() < 4 {
            return Err("no archive_footer_length".into());
        }
        let fl = u32::from_le_bytes(data[data.len() - 4..].try_into().unwrap()) as usize;
        if data.len() - 4 < fl {
            return Err("archive_footer_length exceeds data".into());
        }
        let fstart = data.len() - 4 - fl;
        let mut fr = Rd { b: &data[fstart..data.len() - 4], p: 0 };
        let n = fr.len("files_info length")?;
        let mut footer: BTreeMap<Vec<u8>, (Vec<u64>, u64, u64)> = BTreeMap::new();
        for _ in 0..n {
            let nl = fr.len("filename length")?;
            let name = fr.take(nl, "filename")?.to_vec();
            std::str::from_utf8(&name).map_err(|_| "footer filename is not UTF-8")?;
            let no = fr.len("offsets length")?;
            let mut offs = Vec::new();
            for _ in 0..no {
                offs.push(fr.u64("offset")?);
            }
            let size = fr.u64("size")?;
            let eof = fr.u64("eof_offset")?;
            if footer.insert(name, (offs, size, eof)).is_some() {
                return Err("footer lists a filename twice".into());
            }
        }
        if fr.p != fl {
            return Err(format!("ArchiveFooter takes {} bytes, archive_footer_length says {fl}", fr.p));
        }
        let file_data = &data[..fstart];
        // linear reading of the blocks
        struct Cur {
            name: Vec<u8>,
            content: Vec<u8>,
            hash: Option<Vec<u8>>,
            runs: Vec<u64>,
            eof: u64,
        }
        let mut by_id: BTreeMap<u64, usize> = BTreeMap::new();
        let mut cur: Vec<Cur> = Vec::new();
        let mut br = Rd { b: file_data, p: 0 };
        let mut last_id: Option<u64> = None;
        let mut ended = false;
        // offset -> (id, end offset) of every block, for the footer-driven reading below
        let mut blocks: BTreeMap<u64, (u8, u64, usize, usize)> = BTreeMap::new(); // off -> (type, id, data start, data len)
        while br.p < file_data.len() {
            let off = br.p as u64;
            let t = br.u8("block type")?;
            if t == 0xFE {
                ended = true;
                break;
            }
            let id = br.u64("block id")?;
            match t {
                0x00 => {
                    let l = br.len("filename length")?;
                    let name = br.take(l, "filename")?.to_vec();
                    std::str::from_utf8(&name).map_err(|_| "filename is not UTF-8")?;
                    if by_id.contains_key(&id) {
                        return Err(format!("two FileStart blocks with id {id}"));
                    }
                    by_id.insert(id, cur.len());
                    cur.push(Cur { name, content: Vec::new(), hash: None, runs: Vec::new(), eof: 0 });
                    blocks.insert(off, (t, id, 0, 0));
                }
                0x01 => {
                    let l = br.len("block_data length")?;
                    let start = br.p;
                    let dat = br.take(l, "block_data")?;
                    let f = *by_id.get(&id).ok_or(format!("FileContent for unknown id {id}"))?;
                    if cur[f].hash.is_some() {
                        return Err(format!("FileContent after EndOfFile for id {id}"));
                    }
                    cur[f].content.extend_from_slice(dat);
                    blocks.insert(off, (t, id, start, l));
                }
                0xFF => {
                    let h = br.take(32, "hash")?.to_vec();
                    let f = *by_id.get(&id).ok_or(format!("EndOfFile for unknown id {id}"))?;
                    if cur[f].hash.is_some() {
                        return Err(format!("two EndOfFile blocks for id {id}"));
                    }
                    cur[f].hash = Some(h);
                    cur[f].eof = off;
                    blocks.insert(off, (t, id, 0, 0));
                }
                x => return Err(format!("block type {x:#x} at offset {off}")),
            }
            if last_id != Some(id) {
                let f = by_id[&id];
                cur[f].runs.push(off);
            }
            last_id = Some(id);
        }
        if !ended {
            return Err("no EndOfArchiveData block before the footer".into());
        }
        if br.p != file_data.len() {
            return Err(format!("{} bytes between EndOfArchiveData and the ArchiveFooter", file_data.len() - br.p));
        }
        if cur.len() != footer.len() {
            return Err(format!("{} files in the block stream, {} in the footer", cur.len(), footer.len()));
        }
        for c in &cur {
            let h = c.hash.clone().ok_or(format!("file {:?} has no EndOfFile", String::from_utf8_lossy(&c.name)))?;
            if Sha256::digest(&c.content).as_slice() != h.as_slice() {
                return Err(format!("EndOfFile.hash of {:?} is not the SHA-256 of its content", String::from_utf8_lossy(&c.name)));
            }
            let (offs, size, eof) = footer.get(&c.name).ok_or(format!("file {:?} is not in the footer", String::from_utf8_lossy(&c.name)))?;
            if *size != c.content.len() as u64 {
                return Err(format!("files_info.size {} but {} content bytes", size, c.content.len()));
            }
            if *eof != c.eof {
                return Err(format!("files_info.eof_offset {} but EndOfFile is at {}", eof, c.eof));
            }
            if offs != &c.runs {
                return Err(format!("files_info.offsets {:?} are not the offsets of the continuous chunks {:?}", offs, c.runs));
            }
            // footer-driven reading: at each offset, the blocks of this file that follow one another
            let mut got = Vec::new();
            let id = blocks.get(&offs[0]).map(|b| b.1).ok_or("offsets[0] is not a block")?;
            for o in offs {
                let mut it = blocks.range(*o..);
                match it.next() {
                    Some((k, _)) if k == o => {}
                    _ => return Err(format!("offset {o} is not the start of a block")),
                }
                for (_, (t, bid, st, l)) in blocks.range(*o..) {
                    if *bid != id {
                        break;
                    }
                    if *t == 0x01 {
                        got.extend_from_slice(&file_data[*st..*st + *l]);
                    }
                }
            }
            if got != c.content {
                return Err("reading through files_info.offsets gives another content than the linear reading".into());
            }
            d.files.push(File { name: c.name.clone(), content: c.content.clone(), hash: h });
        }
        Ok(d)
    }

    // ------------------------------------------------------------------ encoder

    pub struct EncParams {
        pub layers: u8,
        pub recipients: Vec<[u8; 32]>, // public keys
        pub ephemeral: [u8; 32],
        pub key: [u8; 32],
        pub nonce: [u8; 8],
        pub quality: u32,
        /// emit FileContent blocks of length 0 for empty pieces (allowed by FORMAT.md)
        pub keep_empty_pieces: bool,
        /// HashMap order of the footer: rotate the name-sorted list by this much
        pub footer_rot: usize,
    }

    /// names, and the pieces (file index, data) in writing order
    pub fn encode(names: &[Vec<u8>], pieces: &[(usize, Vec<u8>)], p: &EncParams) -> Vec<u8> {
        // ---- 3. actual archive files data
        let n = names.len();
        let mut data: Vec<u8> = Vec::new();
        let mut started = vec![false; n];
        let mut contents: Vec<Vec<u8>> = vec![Vec::new(); n];
        let mut runs: Vec<Vec<u64>> = vec![Vec::new(); n];
        let mut eofs = vec![0u64; n];
        let mut last: Option<usize> = None;
        let last_piece: Vec<Option<usize>> = (0..n).map(|f| pieces.iter().rposition(|q| q.0 == f)).collect();
        fn mark(runs: &mut [Vec<u64>], last: &mut Option<usize>, f: usize, off: usize) {
            if *last != Some(f) {
                runs[f].push(off as u64);
            }
            *last = Some(f);
        }
        let start = |data: &mut Vec<u8>, f: usize| {
            data.push(0x00);
            data.extend_from_slice(&(f as u64 + 10).to_le_bytes()); // ids need not start at 0
            data.extend_from_slice(&(names[f].len() as u64).to_le_bytes());
            data.extend_from_slice(&names[f]);
        };
        let end = |data: &mut Vec<u8>, f: usize, content: &[u8]| {
            data.push(0xFF);
            data.extend_from_slice(&(f as u64 + 10).to_le_bytes());
            data.extend_from_slice(Sha256::digest(content).as_slice());
        };
        for (k, (f, piece)) in pieces.iter().enumerate() {
            if !started[*f] {
                mark(&mut runs, &mut last, *f, data.len());
                start(&mut data, *f);
                started[*f] = true;
            }
            if !piece.is_empty() || p.keep_empty_pieces {
                mark(&mut runs, &mut last, *f, data.len());
                data.push(0x01);
                data.extend_from_slice(&(*f as u64 + 10).to_le_bytes());
                data.extend_from_slice(&(piece.len() as u64).to_le_bytes());
                data.extend_from_slice(piece);
                contents[*f].extend_from_slice(piece);
            }
            if last_piece[*f] == Some(k) {
                mark(&mut runs, &mut last, *f, data.len());
                eofs[*f] = data.len() as u64;
                end(&mut data, *f, &contents[*f]);
            }
        }
        for f in 0..n {
            if !started[f] {
                mark(&mut runs, &mut last, f, data.len());
                start(&mut data, f);
                eofs[f] = data.len() as u64;
                end(&mut data, f, &[]);
            }
        }
        data.push(0xFE);
        let mut order: Vec<usize> = (0..n).collect();
        order.sort_by(|a, b| names[*a].cmp(&names[*b]));
        if n > 0 {
            order.rotate_left(p.footer_rot % n);
        }
        let mut footer: Vec<u8> = Vec::new();
        footer.extend_from_slice(&(n as u64).to_le_bytes());
        for f in order {
            footer.extend_from_slice(&(names[f].len() as u64).to_le_bytes());
            footer.extend_from_slice(&names[f]);
            footer.extend_from_slice(&(runs[f].len() as u64).to_le_bytes());
            for o in &runs[f] {
                footer.extend_from_slice(&o.to_le_bytes());
            }
            footer.extend_from_slice(&(contents[f].len() as u64).to_le_bytes());
            footer.extend_from_slice(&eofs[f].to_le_bytes());
        }
        data.extend_from_slice(&footer);
        data.extend_from_slice(&(footer.len() as u32).to_le_bytes());
        // ---- 2. compression layer
        if p.layers & COMPRESS != 0 {
            let mut out = Vec::new();
            let mut sizes: Vec<u32> = Vec::new();
            let mut last_size = 0u32;
            for blk in data.chunks(BLOCK) {
                let mut c = Vec::new();
                {
                    let mut w = brotli::CompressorWriter::new(&mut c, 4096, p.quality, 22);
                    w.write_all(blk).unwrap();
                    w.flush().unwrap();
                }
                sizes.push(c.len() as u32);
                last_size = blk.len() as u32;
                out.extend_from_slice(&c);
            }
            let mut si = Vec::new();
            si.extend_from_slice(&(sizes.len() as u64).to_le_bytes());
            for s in &sizes {
                si.extend_from_slice(&s.to_le_bytes());
            }
            si.extend_from_slice(&last_size.to_le_bytes());
            out.extend_from_slice(&si);
            out.extend_from_slice(&(si.len() as u32).to_le_bytes());
            data = out;
        }
        // ---- header
        let mut ar: Vec<u8> = Vec::new();
        ar.extend_from_slice(b"MLA");
        ar.extend_from_slice(&1u32.to_le_bytes());
        ar.push(p.layers);
        if p.layers & ENCRYPT != 0 {
            ar.push(1);
            let eph = StaticSecret::from(p.ephemeral);
            ar.extend_from_slice(PublicKey::from(&eph).as_bytes());
            ar.extend_from_slice(&(p.recipients.len() as u64).to_le_bytes());
            for rcp in &p.recipients {
                let shared = eph.diffie_hellman(&PublicKey::from(*rcp));
                let dk = dhkey(shared.as_bytes());
                ar.extend_from_slice(&gcm_seal(&dk, b"ECIES NONCE0", &p.key)); // key (32) then tag (16)
            }
            ar.extend_from_slice(&p.nonce);
            // ---- 1. encryption layer
            if data.is_empty() {
                ar.extend_from_slice(&gcm_seal(&p.key, &chunk_nonce(&p.nonce, 0), &[]));
            }
            for (i, blk) in data.chunks(CHUNK).enumerate() {
                ar.extend_from_slice(&gcm_seal(&p.key, &chunk_nonce(&p.nonce, i as u32), blk));
            }
        } else {
            ar.push(0);
            ar.extend_from_slice(&data);
        }
        ar
    }
}

// ====================================================================== the library side

fn rows_of_files(files: &[(Vec<u8>, Vec<u8>, Vec<u8>)]) -> Vec<Vec<u64>> {
    let mut fs: Vec<&(Vec<u8>, Vec<u8>, Vec<u8>)> = files.iter().collect();
    fs.sort_by(|a, b| a.0.cmp(&b.0));
    let mut rows = vec![vec![0u64]];
    for (n, c, h) in fs {
        rows.push(std::iter::once(5u64).chain(n.iter().map(|b| *b as u64)).collect());
        rows.push(std::iter::once(6u64).chain(c.iter().map(|b| *b as u64)).collect());
        rows.push(std::iter::once(7u64).chain(h.iter().map(|b| *b as u64)).collect());
    }
    rows
}

/// What mla::ArchiveReader yields for an archive: (name, content, hash) of every listed file.
fn library_read(bytes: &[u8], privs: &[x25519_dalek::StaticSecret]) -> Result<Vec<(Vec<u8>, Vec<u8>, Vec<u8>)>, String> {
    use std::io::Read;
    let r = catch(|| -> Result<Vec<(Vec<u8>, Vec<u8>, Vec<u8>)>, String> {
        let mut rd = archive::open_reader(bytes, privs)?;
        let names: Vec<String> = rd.list_files().map_err(|e| format!("list_files: {e:?}"))?.cloned().collect();
        let mut out = Vec::new();
        for n in names {
            let h = rd.get_hash(&n).map_err(|e| format!("get_hash: {e:?}"))?.ok_or("get_hash: None")?;
            let mut f = rd.get_file(n.clone()).map_err(|e| format!("get_file: {e:?}"))?.ok_or("get_file: None")?;
            let mut c = Vec::new();
            f.data.read_to_end(&mut c).map_err(|e| format!("read: {e:?}"))?;
            if f.size != c.len() as u64 {
                return Err(format!("ArchiveFile.size {} but {} bytes read", f.size, c.len()));
            }
            out.push((n.into_bytes(), c, h.to_vec()));
        }
        Ok(out)
    });
    match r {
        Ok(x) => x,
        Err(p) => Err(format!("panic: {p}")),
    }
}

fn same_files(got: &[(Vec<u8>, Vec<u8>, Vec<u8>)], names: &[Vec<u8>], contents: &[Vec<u8>]) -> Result<(), String> {
    let mut exp: Vec<(Vec<u8>, Vec<u8>, Vec<u8>)> =
        names.iter().zip(contents).map(|(n, c)| (n.clone(), c.clone(), archive::sha256(c))).collect();
    exp.sort();
    let mut g = got.to_vec();
    g.sort();
    if g.len() != exp.len() {
        return Err(format!("{} files, expected {}", g.len(), exp.len()));
    }
    for (a, b) in g.iter().zip(&exp) {
        if a.0 != b.0 {
            return Err(format!("name {:?}, expected {:?}", String::from_utf8_lossy(&a.0), String::from_utf8_lossy(&b.0)));
        }
        if a.1 != b.1 {
            return Err(format!("content of {:?}: {} bytes, expected {} (or bytes differ)", String::from_utf8_lossy(&a.0), a.1.len(), b.1.len()));
        }
        if a.2 != b.2 {
            return Err(format!("hash of {:?} is not the SHA-256 of what was written", String::from_utf8_lossy(&a.0)));
        }
    }
    Ok(())
}

fn contents_of(plan_names: &[Vec<u8>], pieces: &[(usize, Vec<u8>)]) -> Vec<Vec<u8>> {
    let mut c = vec![Vec::new(); plan_names.len()];
    for (f, p) in pieces {
        c[*f].extend_from_slice(p);
    }
    c
}

fn table_json(t: &[(Vec<u8>, Vec<u8>)]) -> Value {
    Value::Array(t.iter().map(|(c, p)| json!([jbytes(c), jbytes(p)])).collect())
}

fn size_class(total: usize, layers: u8, dir: &str) -> String {
    format!("{dir} layers={layers} chunks={} blocks={}", (total / indep::CHUNK).min(9), (total / indep::BLOCK).min(3))
}

/// Which model entry point (if any) a case goes through: small scaled archives; X25519 in Coq for
/// every `full_every`-th encrypted one, the shared secret as an oracle input otherwise.
fn model_args(bytes: &[u8], layers: u8, privkey: &[u8; 32], dec: Option<&indep::Decoded>, table: &[(Vec<u8>, Vec<u8>)], full: bool)
    -> (&'static str, Vec<Value>, &'static str) {
    if !cfg!(feature = "scaled") || bytes.len() > 2600 {
        return ("", vec![], "oracle-only");
    }
    if layers & L_ENC == 0 {
        return ("c06_decode", vec![jbytes(bytes), jbytes(privkey), table_json(table)], "model");
    }
    if full {
        return ("c06_decode", vec![jbytes(bytes), jbytes(privkey), table_json(table)], "model X25519-in-Coq");
    }
    match dec.and_then(|d| d.dh) {
        Some(dh) => ("c06_decode_dh", vec![jbytes(bytes), jbytes(&dh), table_json(table)], "model X25519-oracle"),
        None => ("", vec![], "oracle-only"),
    }
}

// ---------------------------------------------------------------- (a) library -> independent decoder

fn case_a(rng: &mut Rng, out: &mut Out, id: &str, plan: &Plan, to_model: bool, full_x: bool) {
    let built = match archive::build(rng, plan) {
        Ok(b) => b,
        Err(e) => {
            out.case(&Case { id: id.into(), model_fn: "", args: vec![], imp: json!([]), oracle_ok: false,
                             oracle_msg: format!("valid writer calls failed: {e}"), class: "build-failed".into(), nontrivial: true,
                             meta: json!({"layers": plan.layers}) });
            return;
        }
    };
    let rk = plan.reader_key.min(built.privs.len() - 1);
    let privkey = built.privs[rk].to_bytes();
    let dec = indep::decode(&built.bytes, &[privkey]);
    let total: usize = built.contents.iter().map(|c| c.len()).sum();
    let oracle: Result<(), String> = match &dec {
        Err(e) => Err(format!("the independent decoder of FORMAT.md rejects an archive the writer produced: {e}")),
        Ok(d) => {
            let got: Vec<(Vec<u8>, Vec<u8>, Vec<u8>)> = d.files.iter().map(|f| (f.name.clone(), f.content.clone(), f.hash.clone())).collect();
            same_files(&got, &plan.names, &built.contents).map_err(|e| format!("independent decoder: {e}"))
                .and_then(|_| if d.layers != plan.layers { Err("layers byte differs from the configuration".into()) } else { Ok(()) })
                .and_then(|_| if plan.layers & L_ENC != 0 && d.recipients != plan.recipients.max(1) { Err(format!("{} wrapped keys for {} recipients", d.recipients, plan.recipients)) } else { Ok(()) })
                .and_then(|_| if plan.layers & L_ENC != 0 && (d.kd != Some(built.key) || d.nonce != Some(built.nonce)) { Err("unwrapped key / nonce differ from the writer's".into()) } else { Ok(()) })
        }
    };
    // the library's own reading: what the model's decoder is compared with
    let lib = library_read(&built.bytes, &[built.privs[rk].clone()]);
    let (imp, oracle) = match (&lib, oracle) {
        (Ok(fs), o) => (json!(rows_of_files(fs)), o),
        (Err(e), Ok(())) => (json!([[1]]), Err(format!("the library does not read its own archive: {e}"))),
        (Err(_), o) => (json!([[1]]), o),
    };
    let table: Vec<(Vec<u8>, Vec<u8>)> = dec.as_ref().map(|d| d.brotli.clone()).unwrap_or_default();
    let (model_fn, args, mode) = if to_model { model_args(&built.bytes, plan.layers, &privkey, dec.as_ref().ok(), &table, full_x) } else { ("", vec![], "oracle-only") };
    out.case(&Case {
        id: id.into(), model_fn, args, imp, oracle_ok: oracle.is_ok(), oracle_msg: oracle.err().unwrap_or_default(),
        class: format!("{} {}", size_class(total, plan.layers, "lib->indep"), mode), nontrivial: total > 0,
        meta: json!({"layers": plan.layers, "level": plan.level, "recipients": plan.recipients, "files": plan.names.len(), "total": total,
                     "archive_len": built.bytes.len(), "pieces": plan.pieces.iter().map(|p| (p.0, p.1.len())).collect::<Vec<_>>()}),
    });
}

fn big_plan(rng: &mut Rng, layers: u8, sizes: &[usize]) -> Plan {
    let names: Vec<Vec<u8>> = (0..sizes.len()).map(|i| format!("big/{i}").into_bytes()).collect();
    let mut pieces = Vec::new();
    for (i, s) in sizes.iter().enumerate() {
        // compressible but not constant: a pseudo-random 61-byte period with a counter
        let pat = rng.bytes(61);
        let data: Vec<u8> = (0..*s).map(|j| pat[j % 61] ^ ((j >> 12) as u8)).collect();
        pieces.push((i, data));
    }
    Plan { names, pieces, layers, level: *rng.pick(&[0u32, 1, 5]), recipients: rng.range(1, 3) as usize, reader_key: rng.below(3) as usize }
}

// ---------------------------------------------------------------- (b) independent encoder -> library

fn case_b(rng: &mut Rng, out: &mut Out, id: &str, plan: &Plan, keep_empty: bool, to_model: bool, full_x: bool) {
    use x25519_dalek::{PublicKey, StaticSecret};
    let nrec = plan.recipients.max(1);
    let privs: Vec<StaticSecret> = (0..nrec).map(|_| { let mut b = [0u8; 32]; b.copy_from_slice(&rng.bytes(32)); StaticSecret::from(b) }).collect();
    let pubs: Vec<[u8; 32]> = privs.iter().map(|s| *PublicKey::from(s).as_bytes()).collect();
    let mut p = indep::EncParams { layers: plan.layers, recipients: pubs, ephemeral: [0; 32], key: [0; 32], nonce: [0; 8], quality: plan.level,
                                   keep_empty_pieces: keep_empty, footer_rot: rng.below(4) as usize };
    p.ephemeral.copy_from_slice(&rng.bytes(32));
    p.key.copy_from_slice(&rng.bytes(32));
    p.nonce.copy_from_slice(&rng.bytes(8));
    let bytes = indep::encode(&plan.names, &plan.pieces, &p);
    let contents = contents_of(&plan.names, &plan.pieces);
    let total: usize = contents.iter().map(|c| c.len()).sum();
    let rk = plan.reader_key.min(nrec - 1);
    let lib = library_read(&bytes, &[privs[rk].clone()]);
    let oracle: Result<(), String> = match &lib {
        Err(e) => Err(format!("the library rejects an archive written from FORMAT.md: {e}")),
        Ok(fs) => same_files(fs, &plan.names, &contents).map_err(|e| format!("library reading of an archive written from FORMAT.md: {e}")),
    };
    let imp = match &lib { Ok(fs) => json!(rows_of_files(fs)), Err(_) => json!([[1]]) };
    // self-check of the independent codec (not part of the property, guards the harness itself)
    let privkey = privs[rk].to_bytes();
    let dec = indep::decode(&bytes, &[privkey]);
    let zero_blocks = keep_empty && plan.pieces.iter().enumerate().any(|(k, (f, q))| q.is_empty() && plan.pieces[k + 1..].iter().any(|(g, r)| g == f && !r.is_empty()));
    let table: Vec<(Vec<u8>, Vec<u8>)> = dec.as_ref().map(|d| d.brotli.clone()).unwrap_or_default();
    let (model_fn, args, mode) = if to_model { model_args(&bytes, plan.layers, &privkey, dec.as_ref().ok(), &table, full_x) } else { ("", vec![], "oracle-only") };
    // C06-ZLB (an empty block read as end of file) is repaired: a failure here is a violation like any other
    out.case(&Case {
        id: id.into(), model_fn, args, imp, oracle_ok: oracle.is_ok(), oracle_msg: oracle.err().unwrap_or_default(),
        class: format!("{}{} {}", size_class(total, plan.layers, "indep->lib"), if keep_empty { " zero-length-content-blocks" } else { "" }, mode), nontrivial: total > 0,
        meta: json!({"layers": plan.layers, "quality": plan.level, "recipients": nrec, "files": plan.names.len(), "total": total, "archive_len": bytes.len(),
                     "indep_selfcheck": dec.as_ref().map(|_| "ok".to_string()).unwrap_or_else(|e| e.clone()), "zero_block_before_data": zero_blocks,
                     "pieces": plan.pieces.iter().map(|p| (p.0, p.1.len())).collect::<Vec<_>>()}),
    });
}

// ---------------------------------------------------------------- (b'') empty content blocks: whole reading histories, through the model

/// Length of the header of a layer-less archive: "MLA", version (u32), layers byte, `None` of the encryption parameters.
const PLAIN_HEADER: usize = 9;

/// A layer-less archive written from FORMAT.md by the independent encoder in which EVERY piece,
/// empty ones included, is a FileContent block (`[u8; length]` with length 0 is allowed).
fn zlb_archive(names: &[Vec<u8>], pieces: &[(usize, Vec<u8>)], footer_rot: usize) -> Vec<u8> {
    let p = indep::EncParams { layers: 0, recipients: vec![], ephemeral: [0; 32], key: [0; 32], nonce: [0; 8], quality: 0, keep_empty_pieces: true, footer_rot };
    indep::encode(names, pieces, &p)
}

/// Block-length patterns (file index, piece length) with empty blocks first, last, in a row, alone in a run
/// (between blocks of other files), in files that have nothing else, and many in a row.
fn zlb_patterns(rng: &mut Rng, n_random: usize) -> Vec<(usize, Vec<(usize, usize)>)> {
    let mut v: Vec<(usize, Vec<(usize, usize)>)> = vec![
        (1, vec![(0, 0), (0, 3), (0, 0), (0, 2)]),
        (1, vec![(0, 0), (0, 0), (0, 0), (0, 5)]),
        (1, vec![(0, 4), (0, 0)]),
        (1, vec![(0, 0)]),
        (2, vec![(0, 2), (1, 1), (0, 0), (1, 1), (0, 3)]),
        (2, vec![(0, 0), (1, 0), (0, 1), (1, 2), (0, 0), (1, 0)]),
        (3, vec![(0, 1), (1, 0), (2, 0), (1, 5), (2, 0), (0, 0), (2, 7), (0, 2)]),
        (2, vec![(0, 64), (0, 0), (0, 64), (1, 0), (0, 0), (0, 1)]),
        (2, vec![(1, 0), (0, 0), (1, 0), (0, 0), (1, 3), (0, 3)]),
        (1, vec![(0, 100), (0, 0), (0, 0), (0, 100)]),
    ];
    let mut many: Vec<(usize, usize)> = vec![(0, 0); 40];
    many.push((0, 70));
    many.extend(vec![(0, 0); 25]);
    v.push((1, many));
    for _ in 0..n_random {
        let nf = rng.range(1, 3) as usize;
        let np = rng.range(3, 12) as usize;
        let ps = (0..np).map(|_| (rng.below(nf as u64) as usize, if rng.below(2) == 0 { 0 } else { *rng.pick(&[1usize, 2, 5, 63, 64, 65, 130]) })).collect();
        v.push((nf, ps));
    }
    v
}

fn case_z(rng: &mut Rng, out: &mut Out, id: &str, nfiles: usize, lens: &[(usize, usize)]) {
    let names: Vec<Vec<u8>> = (0..nfiles).map(|i| format!("z/{i}").into_bytes()).collect();
    let pieces: Vec<(usize, Vec<u8>)> = lens.iter().map(|(f, n)| (*f, rng.bytes(*n))).collect();
    let bytes = zlb_archive(&names, &pieces, rng.below(4) as usize);
    let contents = contents_of(&names, &pieces);
    let total: usize = contents.iter().map(|c| c.len()).sum();
    // history: list; per file hash, read to the end, a few single reads; linear extraction of all and of each
    let mut ops: Vec<Vec<u64>> = vec![vec![0]];
    for i in 0..nfiles as u64 {
        ops.push(vec![1, i]);
        ops.push(vec![3, i, *rng.pick(&[1u64, 2, 7, 64, 100, 4099])]);
        ops.push(vec![2, i, 1, 2, 3, 64, 1]);
    }
    let mut all = vec![4u64];
    all.extend(0..nfiles as u64);
    ops.push(all);
    for i in 0..nfiles as u64 {
        ops.push(vec![4, i]);
    }
    let rows = archive::run_history(&bytes, &[], &names, &ops, true);
    let plan = Plan { names: names.clone(), pieces: pieces.clone(), layers: 0, level: 0, recipients: 0, reader_key: 0 };
    let built = archive::Built { bytes: bytes.clone(), header_len: PLAIN_HEADER, key: [0; 32], nonce: [0; 8], privs: vec![], contents };
    let oracle = archive::oracle_read(&plan, &built, &ops, &rows)
        .map_err(|e| format!("library reading of an archive written from FORMAT.md with zero-length FileContent blocks: {e}"));
    let nzero = lens.iter().filter(|p| p.1 == 0).count();
    out.case(&Case {
        id: id.into(), model_fn: "hist_plain", args: vec![jbytes(&bytes[PLAIN_HEADER..]), json!(names), json!(ops)], imp: json!(rows),
        oracle_ok: oracle.is_ok(), oracle_msg: oracle.err().unwrap_or_default(),
        class: format!("indep->lib layers=0 zero-length-content-blocks history files={nfiles} zero={} model", nzero.min(9)), nontrivial: total > 0,
        meta: json!({"layers": 0, "files": nfiles, "total": total, "archive_len": bytes.len(), "pieces": lens}),
    });
}

/// C06-ZLB: a file whose content blocks are [0 bytes][3 bytes][0 bytes][2 bytes] (alone, and with a
/// second file in between) is read completely by get_file + read_to_end, by linear_extract and by repair.
pub fn witness_zlb() -> Result<(), String> {
    let a = b"abc".to_vec();
    let b = b"de".to_vec();
    let shapes: Vec<(usize, Vec<(usize, Vec<u8>)>)> = vec![
        (1, vec![(0, vec![]), (0, a.clone()), (0, vec![]), (0, b.clone())]),
        (2, vec![(0, vec![]), (0, a.clone()), (1, b"x".to_vec()), (0, vec![]), (1, vec![]), (0, b.clone()), (1, b"y".to_vec())]),
    ];
    for (k, (nf, pieces)) in shapes.iter().enumerate() {
        let names: Vec<Vec<u8>> = (0..*nf).map(|i| format!("w{i}").into_bytes()).collect();
        let bytes = zlb_archive(&names, pieces, 0);
        let contents = contents_of(&names, pieces);
        let want = b"abcde".to_vec();
        if contents[0] != want {
            return Err("C06-ZLB: witness construction".into());
        }
        // get_file + read_to_end (and size, hash)
        let fs = library_read(&bytes, &[]).map_err(|e| format!("C06-ZLB shape {k}: {e}"))?;
        same_files(&fs, &names, &contents).map_err(|e| format!("C06-ZLB shape {k}: get_file + read_to_end: {e}"))?;
        // linear_extract
        let mut op = vec![4u64];
        op.extend(0..*nf as u64);
        let rows = archive::run_history(&bytes, &[], &names, &[op], true);
        for (i, c) in contents.iter().enumerate() {
            let exp: Vec<u64> = std::iter::once(6u64).chain(c.iter().map(|x| *x as u64)).collect();
            if rows.get(2 + i) != Some(&exp) {
                return Err(format!("C06-ZLB shape {k}: linear_extract of file {i} returns {:?}", rows.get(2 + i)));
            }
        }
        // repair
        let r = crate::repair::repair_bytes(&bytes, &[], true);
        if r.status != Some(12) || !r.unfinished.is_empty() || !r.reread_ok {
            return Err(format!("C06-ZLB shape {k}: repair status {:?}, {} unfinished, crashed {:?}", r.status, r.unfinished.len(), r.crashed));
        }
        for (i, c) in contents.iter().enumerate() {
            if r.files.iter().find(|f| f.0 == names[i]).map(|f| &f.1) != Some(c) {
                return Err(format!("C06-ZLB shape {k}: repair does not recover file {i} completely"));
            }
        }
    }
    Ok(())
}

pub fn witnesses() -> Vec<(&'static str, &'static str, fn() -> Result<(), String>)> {
    vec![("C06-ZLB", "C06", witness_zlb)]
}

// ---------------------------------------------------------------- (c) the committed sample

fn case_c(out: &mut Out) {
    let bytes = std::fs::read("/repo/samples/archive_v1.mla");
    let pem = std::fs::read("/repo/samples/test_x25519_archive_v1.pem");
    let (bytes, pem) = match (bytes, pem) {
        (Ok(a), Ok(b)) => (a, b),
        _ => {
            out.case(&Case { id: "c06-sample".into(), model_fn: "", args: vec![], imp: json!([]), oracle_ok: false, oracle_msg: "samples/archive_v1.mla or its key cannot be read".into(),
                             class: "sample".into(), nontrivial: true, meta: json!({}) });
            return;
        }
    };
    // the private key file: PEM of a 48-byte DER whose last 32 bytes are the X25519 scalar (README / RFC 8410)
    let b64: String = String::from_utf8_lossy(&pem).lines().filter(|l| !l.starts_with("-----")).collect();
    let der = b64_decode(&b64);
    let mut sk = [0u8; 32];
    let ok_der = der.len() == 48;
    if ok_der {
        sk.copy_from_slice(&der[16..]);
    }
    let dec = indep::decode(&bytes, &[sk]);
    let lib = library_read(&bytes, &[x25519_dalek::StaticSecret::from(sk)]);
    let oracle: Result<(), String> = match (&dec, &lib) {
        (_, Err(e)) => Err(format!("the library does not read the committed sample: {e}")),
        (Err(e), _) => Err(format!("the independent decoder of FORMAT.md rejects samples/archive_v1.mla: {e}")),
        (Ok(d), Ok(fs)) => {
            let names: Vec<Vec<u8>> = d.files.iter().map(|f| f.name.clone()).collect();
            let contents: Vec<Vec<u8>> = d.files.iter().map(|f| f.content.clone()).collect();
            same_files(fs, &names, &contents).and_then(|_| {
                // the worked example of FORMAT.md
                let simple = d.files.iter().find(|f| f.name == b"simple").ok_or("no file named simple")?;
                let want: Vec<u8> = (0..=255u8).collect();
                if simple.content != want { return Err("file simple is not 00..ff".to_string()); }
                if d.layers != 3 || d.recipients != 1 || d.brotli.len() != 3 || d.brotli[2].1.len() != 3209399 {
                    return Err(format!("sample structure differs from FORMAT.md's example: layers {} recipients {} blocks {}", d.layers, d.recipients, d.brotli.len()));
                }
                if hex::encode(d.kd.unwrap()) != "b7fc48ecc390123aa71bc69d107436debf27aa680e6cc810cb9ca1ce6ebad222" {
                    return Err("kd differs from FORMAT.md's example".into());
                }
                Ok(())
            })
        }
    };
    let nfiles = dec.as_ref().map(|d| d.files.len()).unwrap_or(0);
    out.case(&Case { id: "c06-sample".into(), model_fn: "", args: vec![], imp: json!([]), oracle_ok: oracle.is_ok(), oracle_msg: oracle.err().unwrap_or_default(),
                     class: "sample archive_v1.mla".into(), nontrivial: true, meta: json!({"files": nfiles, "archive_len": bytes.len(), "der_ok": ok_der}) });
}

fn b64_decode(s: &str) -> Vec<u8> {
    let mut out = Vec::new();
    let (mut acc, mut bits) = (0u32, 0u32);
    for ch in s.bytes() {
        let v = match ch {
            b'A'..=b'Z' => ch - b'A',
            b'a'..=b'z' => ch - b'a' + 26,
            b'0'..=b'9' => ch - b'0' + 52,
            b'+' => 62,
            b'/' => 63,
            _ => continue,
        } as u32;
        acc = (acc << 6) | v;
        bits += 6;
        if bits >= 8 {
            bits -= 8;
            out.push((acc >> bits) as u8);
            acc &= (1 << bits) - 1;
        }
    }
    out
}

// ---------------------------------------------------------------- (d) the cipher core, three ways

fn gcm_case(out: &mut Out, id: &str, key: &[u8; 32], nonce: &[u8; 12], aad: &[u8], msg: &[u8], sizes: &[usize], to_model: bool, class: &str) {
    use aes_gcm::aead::{Aead, KeyInit, Payload};
    // the implementation: mla's incremental AES-GCM, one encrypt call per piece
    let imp = catch(|| {
        let mut c = mla::crypto::aesgcm::AesGcm256::new(key, nonce, aad).expect("new");
        let mut ct = Vec::new();
        let mut p = 0usize;
        for s in sizes {
            let e = (p + s).min(msg.len());
            let mut buf = msg[p..e].to_vec();
            c.encrypt(&mut buf);
            ct.extend_from_slice(&buf);
            p = e;
        }
        let tag = c.into_tag().to_vec();
        // and back: decrypt gives the message and the same tag
        let mut d = mla::crypto::aesgcm::AesGcm256::new(key, nonce, aad).expect("new");
        let mut back = ct.clone();
        let dtag = d.decrypt(&mut back).to_vec();
        // decrypt_unauthenticated fed the ciphertext in the same pieces gives the message too
        let mut u = mla::crypto::aesgcm::AesGcm256::new(key, nonce, aad).expect("new");
        let mut uback = Vec::new();
        let mut q = 0usize;
        for s in sizes {
            let e = (q + s).min(ct.len());
            let mut buf = ct[q..e].to_vec();
            u.decrypt_unauthenticated(&mut buf);
            uback.extend_from_slice(&buf);
            q = e;
        }
        if uback != msg {
            back = vec![0xEE; msg.len() + 1]; // reported below as a decrypt failure
        }
        (ct, tag, back, dtag, p)
    });
    // the oracle: RustCrypto aes-gcm, one shot
    let std = aes_gcm::Aes256Gcm::new(key.into()).encrypt(nonce.into(), Payload { msg, aad }).expect("aes-gcm");
    let (sct, stag) = std.split_at(msg.len());
    let (rows, oracle): (Value, Result<(), String>) = match imp {
        Err(p) => (json!([[2]]), Err(format!("panic: {p}"))),
        Ok((ct, tag, back, dtag, fed)) => {
            let o = if fed != msg.len() { Err("harness: split does not cover the message".to_string()) }
                    else if ct != sct { Err("ciphertext differs from the standard AES-256-GCM ciphertext".into()) }
                    else if tag != stag { Err("tag differs from the standard AES-256-GCM tag".into()) }
                    else if back != msg || dtag != stag { Err("decrypt (one call) / decrypt_unauthenticated (same pieces) does not return the message and the standard tag".into()) }
                    else { Ok(()) };
            (json!([ct.iter().map(|b| *b as u64).collect::<Vec<_>>(), tag.iter().map(|b| *b as u64).collect::<Vec<_>>()]), o)
        }
    };
    let (model_fn, args) = if to_model {
        ("c06_gcm", vec![jbytes(key), jbytes(nonce), jbytes(aad), jbytes(msg), json!(sizes)])
    } else { ("", vec![]) };
    out.case(&Case { id: id.into(), model_fn, args, imp: rows, oracle_ok: oracle.is_ok(), oracle_msg: oracle.err().unwrap_or_default(),
                     class: class.into(), nontrivial: true,
                     meta: json!({"len": msg.len(), "aad": aad.len(), "sizes": sizes, "key0": key[0], "nonce0": nonce[0]}) });
}

fn gcm_cases(rng: &mut Rng, tier: &str, out: &mut Out) {
    let thorough = tier == "thorough";
    let mut k = 0usize;
    let fresh = |rng: &mut Rng, len: usize| -> ([u8; 32], [u8; 12], Vec<u8>, Vec<u8>) {
        let mut key = [0u8; 32];
        key.copy_from_slice(&rng.bytes(32));
        let mut nonce = [0u8; 12];
        nonce.copy_from_slice(&rng.bytes(12));
        let aadl = *rng.pick(&[0usize, 0, 1, 15, 16, 17, 20, 33]);
        (key, nonce, rng.bytes(aadl), rng.bytes(len))
    };
    // every split of every length 0..=40 into two pieces
    for len in 0..=40usize {
        let (key, nonce, aad, msg) = fresh(rng, len);
        for i in 0..=len {
            // quick: every split to the oracle for every third length and the block edges; model: a sample
            let keep = thorough || len % 3 == 0 || [15, 16, 17, 31, 32, 33].contains(&len);
            if !keep {
                continue;
            }
            let to_model = if thorough { i % 4 == 0 } else { (i + len) % 11 == 0 };
            gcm_case(out, &format!("c06-gcm2-{len}-{i}"), &key, &nonce, &aad, &msg, &[i, len - i], to_model, "gcm two-piece split");
            k += 1;
        }
    }
    // random multi-piece splits with empty pieces, also longer messages
    let n = if thorough { 600 } else { 90 };
    for j in 0..n {
        let len = if j % 5 == 0 { rng.range(41, 200) as usize } else { rng.range(0, 40) as usize };
        let (key, nonce, aad, msg) = fresh(rng, len);
        let mut sizes = Vec::new();
        let mut left = len;
        while left > 0 {
            let s = match rng.below(5) { 0 => 0, 1 => 1, 2 => 16, _ => rng.range(0, 23) as usize }.min(left);
            sizes.push(s);
            left -= s;
        }
        if rng.below(2) == 0 {
            sizes.push(0);
        }
        if rng.below(3) == 0 {
            sizes.insert(0, 0);
        }
        let to_model = j % (if thorough { 3 } else { 4 }) == 0 && len <= 64;
        gcm_case(out, &format!("c06-gcmN-{j}"), &key, &nonce, &aad, &msg, &sizes, to_model, "gcm multi-piece split with empty pieces");
        k += 1;
    }
    let _ = k;
}

// ---------------------------------------------------------------- entry point

pub fn c06_cases(rng: &mut Rng, tier: &str, out: &mut Out) {
    let thorough = tier == "thorough";
    let scaled = cfg!(feature = "scaled");
    // (a) generated plans, all four layer combinations
    let na = if thorough { if scaled { 400 } else { 120 } } else if scaled { 64 } else { 24 };
    let mut nmodel_enc = 0usize;
    for k in 0..na {
        let layers = (k % 4) as u8;
        let plan = archive::gen_plan(rng, layers);
        // model comparison: small scaled archives of every layer combination; the first encrypted ones with X25519 in Coq
        let full_x = layers & L_ENC != 0 && nmodel_enc < 4;
        if layers & L_ENC != 0 {
            nmodel_enc += 1;
        }
        case_a(rng, out, &format!("c06-a-{k}"), &plan, scaled && (thorough || k < 40), full_x);
    }
    // (a'') key wrapping for LARGE recipient sets (the header grows by 48 bytes per recipient; 85 recipients pass 4 KiB):
    // library -> independent decoder, and independent encoder -> library
    for (i, nrec) in [(0usize, 84usize), (1, 85), (2, 100), (3, 300)] {
        if !thorough && i % 2 == 1 {
            continue;
        }
        let mut plan = archive::gen_plan(rng, if i % 2 == 0 { L_ENC } else { L_ENC | L_COMP });
        plan.recipients = nrec;
        plan.reader_key = nrec - 1 - i;
        case_a(rng, out, &format!("c06-a-rec{nrec}"), &plan, false, false);
        case_b(rng, out, &format!("c06-b-rec{nrec}"), &plan, false, false, false);
    }
    // (a3) production constants: the encryption layer's plaintext takes every length around a chunk boundary
    // (independent encoder -> library, and library -> independent decoder): one message per 128 KiB chunk, whatever the
    // length of the last one
    if !scaled {
        let probe = Plan { names: vec![b"f".to_vec()], pieces: vec![(0, vec![1u8; 100])], layers: L_ENC, level: 0, recipients: 1, reader_key: 0 };
        let p0 = indep::EncParams { layers: L_ENC, recipients: vec![[9u8; 32]], ephemeral: [1; 32], key: [2; 32], nonce: [3; 8], quality: 0, keep_empty_pieces: false, footer_rot: 0 };
        let a0 = indep::encode(&probe.names, &probe.pieces, &p0);
        let hl = 3 + 4 + 1 + 1 + 32 + 8 + 48 + 8;
        let body = a0.len() - hl;
        let overhead = body - 16 * ((body + 131072 + 15) / (131072 + 16)) - 100;
        for k in if thorough { vec![1usize, 2] } else { vec![1usize] } {
            for d in 0..10usize {
                let size = k * 131072 - 3 + d - overhead;
                let plan = Plan { names: vec![b"f".to_vec()], pieces: vec![(0, rng.bytes(size))], layers: L_ENC, level: 0, recipients: 1, reader_key: 0 };
                case_b(rng, out, &format!("c06-b-edge{k}-{d}"), &plan, false, false, false);
                if d % 3 == 0 {
                    case_a(rng, out, &format!("c06-a-edge{k}-{d}"), &plan, false, false);
                }
            }
        }
    }
    // (a') every interleaving of up to 4 (quick) / 5 (thorough) pieces of sizes {0, 3} over two files
    // started up front (empty pieces given to the file that is / is not being written): the index
    // the writer leaves must be the one FORMAT.md describes (offsets of blocks of the SAME file)
    if scaled {
        let maxlen = if thorough { 5 } else { 4 };
        let names = vec![b"a".to_vec(), b"b".to_vec()];
        for len in 1..=maxlen {
            for code in 0..(4usize.pow(len as u32)) {
                let mut c = code;
                let mut pieces = vec![(0usize, Vec::new()), (1usize, Vec::new())];
                for j in 0..len {
                    let f = c & 1;
                    let sz = if c & 2 != 0 { 3 } else { 0 };
                    c >>= 2;
                    pieces.push((f, (0..sz).map(|i| (16 * j + i + 1) as u8).collect::<Vec<u8>>()));
                }
                let plan = archive::Plan { names: names.clone(), pieces, layers: 0, level: 5, recipients: 1, reader_key: 0 };
                case_a(rng, out, &format!("c06-a-x{len}-{code}"), &plan, false, false);
            }
        }
    }
    if !scaled {
        // production constants: sizes crossing the 128 KiB chunk edges and one 4 MiB block edge
        let ch = indep::CHUNK;
        let bl = indep::BLOCK;
        let mut bigs: Vec<(u8, Vec<usize>)> = vec![
            (L_ENC, vec![ch - 60, 100]),                 // content crosses the first chunk edge
            (L_ENC, vec![2 * ch - 41 - 20]),             // exactly fills two chunks (with the blocks' framing) or nearly
            (L_ENC | L_COMP, vec![bl + 5]),              // crosses the 4 MiB block edge, encrypted
            (L_COMP, vec![bl - 100, 300]),               // crosses the block edge with two files
            (L_ENC, vec![3 * ch + 1]),
            (0, vec![ch + 1, ch - 1]),
        ];
        if thorough {
            bigs.push((L_ENC | L_COMP, vec![2 * bl + 17]));
            bigs.push((L_ENC, vec![bl + ch]));
            for d in 0..24usize {
                // sweep the exact alignment of the last chunk: plaintext length around a multiple of CHUNK
                bigs.push((L_ENC, vec![2 * ch - 120 + d * 5]));
            }
        }
        for (i, (layers, sizes)) in bigs.iter().enumerate() {
            let plan = big_plan(rng, *layers, sizes);
            case_a(rng, out, &format!("c06-a-big-{i}"), &plan, false, false);
        }
    }
    // (b) archives written by the independent encoder
    let nb = if thorough { if scaled { 400 } else { 120 } } else if scaled { 64 } else { 24 };
    let mut nmodel_enc = 0usize;
    for k in 0..nb {
        let layers = (k % 4) as u8;
        let plan = archive::gen_plan(rng, layers);
        let full_x = layers & L_ENC != 0 && nmodel_enc < 2;
        if layers & L_ENC != 0 {
            nmodel_enc += 1;
        }
        case_b(rng, out, &format!("c06-b-{k}"), &plan, false, scaled && (thorough || k < 24), full_x);
    }
    if !scaled {
        let ch = indep::CHUNK;
        let bl = indep::BLOCK;
        let mut bigs: Vec<(u8, Vec<usize>)> = vec![(L_ENC, vec![ch - 60, 100]), (L_ENC | L_COMP, vec![bl + 5]), (L_ENC, vec![2 * ch + 7])];
        if thorough {
            bigs.push((L_COMP, vec![2 * bl + 1]));
            bigs.push((L_ENC | L_COMP, vec![bl - 50, 120]));
        }
        for (i, (layers, sizes)) in bigs.iter().enumerate() {
            let plan = big_plan(rng, *layers, sizes);
            case_b(rng, out, &format!("c06-b-big-{i}"), &plan, false, false, false);
        }
    }
    // (b') FileContent blocks of length 0, which FORMAT.md allows
    for k in 0..(if thorough { 40 } else { 8 }) {
        let layers = (k % 4) as u8;
        let mut plan = archive::gen_plan(rng, layers);
        // make sure an empty piece is followed by data of the same file
        plan.pieces.insert(0, (0, Vec::new()));
        plan.pieces.push((0, b"after the empty block".to_vec()));
        case_b(rng, out, &format!("c06-b0-{k}"), &plan, true, scaled, false);
    }
    // (b'') the same on crafted layer-less archives, whole histories (single reads, read to end, linear extraction) compared with the model
    for (k, (nf, lens)) in zlb_patterns(rng, if thorough { 30 } else { 7 }).iter().enumerate() {
        case_z(rng, out, &format!("c06-z-{k}"), *nf, lens);
    }
    // (c) the committed sample (production constants only: the sample was written with them)
    if !scaled {
        case_c(out);
    }
    // (d) cipher core: identical in both flavours, run once (with the production build)
    if !scaled {
        gcm_cases(rng, tier, out);
    }
}
