//! C15 through the C interface and for the `mlar` scenarios that need a crafted archive.
//!
//! `c15-capi`: linear extraction through `mla_roarchive_extract` of the real `libmla.so` (dlopen,
//! VERIF_BINDIR) in a CHILD process whose callbacks read the archive from a FILE and count what
//! the writers receive (nothing is kept): the child's peak resident set (VmHWM of
//! /proc/self/status, read by the child when the call has returned) must not grow with the size of
//! the archive, whatever status the call returns — with a seek callback, and with a NULL seek
//! callback (refused today; a convenience that buffers a non-seekable source would make memory
//! proportional to the archive).
//!
//! `c15-mk <path> <nblocks> <blocksize> <namelen>`: writes a layer-less archive holding one member
//! of `nblocks` content blocks of `blocksize` bytes under a name of `namelen` bytes, for the
//! command-line job tools/cli/c15_extract_job.py.
#![allow(dead_code)]
use crate::capi::{load_api, FileCb, FileWriter, Handle, ReadCb, SeekCb};
use crate::util::*;
use mla::config::ArchiveWriterConfig;
use mla::{ArchiveWriter, Layers};
use serde_json::json;
use std::ffi::c_void;
use std::fs::File;
use std::io::{Read, Seek, SeekFrom, Write};

struct Ctx {
    f: File,
    received: u64,
    queries: u64,
}
extern "C" fn f_read(buf: *mut u8, len: u32, ctx: *mut c_void, nread: *mut u32) -> i32 {
    let x = unsafe { &mut *(ctx as *mut Ctx) };
    let s = unsafe { std::slice::from_raw_parts_mut(buf, len as usize) };
    match x.f.read(s) {
        Ok(k) => {
            unsafe { *nread = k as u32 };
            0
        }
        Err(_) => 5,
    }
}
extern "C" fn f_seek(offset: i64, whence: i32, ctx: *mut c_void, newpos: *mut u64) -> i32 {
    let x = unsafe { &mut *(ctx as *mut Ctx) };
    let w = match whence {
        0 => SeekFrom::Start(offset as u64),
        1 => SeekFrom::Current(offset),
        2 => SeekFrom::End(offset),
        _ => return 22,
    };
    match x.f.seek(w) {
        Ok(p) => {
            unsafe { *newpos = p };
            0
        }
        Err(_) => 22,
    }
}
extern "C" fn w_count(_buf: *const u8, len: u32, ctx: *mut c_void, written: *mut u32) -> i32 {
    let x = unsafe { &mut *(ctx as *mut Ctx) };
    x.received += len as u64;
    unsafe { *written = len };
    0
}
extern "C" fn w_flush(_ctx: *mut c_void) -> i32 {
    0
}
extern "C" fn f_file(ctx: *mut c_void, _name: *const u8, _name_len: usize, fw: *mut FileWriter) -> i32 {
    let x = unsafe { &mut *(ctx as *mut Ctx) };
    x.queries += 1;
    unsafe {
        (*fw).write_callback = Some(w_count);
        (*fw).flush_callback = Some(w_flush);
        (*fw).context = ctx;
    }
    0
}

fn vm_hwm_kib() -> u64 {
    let s = std::fs::read_to_string("/proc/self/status").unwrap_or_default();
    s.lines().find(|l| l.starts_with("VmHWM:")).and_then(|l| l.split_whitespace().nth(1)).and_then(|v| v.parse().ok()).unwrap_or(0)
}

/// child: `c15-capi-child <archive file> <seek: 1 | 0>` prints {"status", "received", "hwm_kib", "base_kib"}
pub fn child_main(args: &[String]) {
    let path = args.get(2).expect("archive path");
    let with_seek = args.get(3).map(|s| s == "1").unwrap_or(true);
    let api = match load_api() {
        Ok(a) => a,
        Err(e) => {
            println!("{}", json!({"error": e}));
            return;
        }
    };
    let mut x = Ctx { f: File::open(path).expect("open archive"), received: 0, queries: 0 };
    let mut h: Handle = std::ptr::null_mut();
    let st0 = (api.reader_config_new)(&mut h);
    let base = vm_hwm_kib();
    let (r, sk, fc): (ReadCb, SeekCb, FileCb) = (Some(f_read), if with_seek { Some(f_seek) } else { None }, Some(f_file));
    let st = (api.roarchive_extract)(&mut h, r, sk, fc, &mut x as *mut Ctx as *mut c_void);
    let hwm = vm_hwm_kib();
    println!("{}", json!({"setup": st0, "status": st, "received": x.received, "queries": x.queries, "hwm_kib": hwm, "base_kib": base}));
}

/// one member of `nblocks` content blocks of `blocksize` pseudo-random bytes (incompressible), written straight to a file
fn make_archive(path: &std::path::Path, layers: Layers, name: &str, nblocks: usize, blocksize: usize, seed: u64) -> u64 {
    let f = std::io::BufWriter::new(File::create(path).expect("create archive"));
    let mut cfg = ArchiveWriterConfig::new();
    cfg.set_layers(layers);
    let mut w = ArchiveWriter::from_config(f, cfg).expect("writer");
    let id = w.start_file(name).expect("start_file");
    let mut rng = Rng::new(seed);
    let mut block = vec![0u8; blocksize];
    for _ in 0..nblocks {
        // refresh a part of the block only: cheap, and still incompressible enough across blocks
        for b in block.iter_mut().step_by(7) {
            *b = rng.next() as u8;
        }
        w.append_file_content(id, block.len() as u64, block.as_slice()).expect("append");
    }
    w.end_file(id).expect("end_file");
    w.finalize().expect("finalize");
    let mut f = w.into_raw();
    f.flush().expect("flush");
    std::fs::metadata(path).map(|m| m.len()).unwrap_or(0)
}

/// `c15-mk <path> <nblocks> <blocksize> <namelen>`
pub fn mk_main(args: &[String]) {
    let path = std::path::PathBuf::from(args.get(2).expect("path"));
    let n: usize = args.get(3).and_then(|s| s.parse().ok()).expect("nblocks");
    let bs: usize = args.get(4).and_then(|s| s.parse().ok()).expect("blocksize");
    let nl: usize = args.get(5).and_then(|s| s.parse().ok()).unwrap_or(8);
    // a name of `nl` bytes made of components of at most 200 bytes
    let mut name = String::new();
    while name.len() < nl {
        if !name.is_empty() {
            name.push('/');
        }
        let k = (nl - name.len()).min(200);
        name.push_str(&"n".repeat(k.max(1)));
    }
    let len = make_archive(&path, Layers::EMPTY, &name, n, bs, 15);
    println!("{}", json!({"path": path, "bytes": len, "name_len": name.len()}));
}

pub fn c15_capi_cases(_rng: &mut Rng, tier: &str, out: &mut Out) {
    let (small, big) = if tier == "thorough" { (4usize, 160usize) } else { (4usize, 48usize) };
    let work = std::env::current_dir().unwrap().join("c15capi");
    let _ = std::fs::remove_dir_all(&work);
    std::fs::create_dir_all(&work).unwrap();
    let exe = std::env::current_exe().unwrap();
    for (lname, layers) in [("none", Layers::EMPTY), ("compress", Layers::COMPRESS)] {
        let mut paths = Vec::new();
        for mib in [small, big] {
            let p = work.join(format!("a_{lname}_{mib}.mla"));
            // blocks of 1 MiB
            make_archive(&p, layers, "member.bin", mib, 1 << 20, 7 + mib as u64);
            paths.push((mib, p));
        }
        for seek in [1u64, 0] {
            let mut obs: Vec<(usize, u64, u64, u64)> = Vec::new();
            let mut err: Option<String> = None;
            for (mib, p) in &paths {
                let o = std::process::Command::new(&exe).arg("c15-capi-child").arg(p).arg(seek.to_string()).output().expect("spawn child");
                let v: serde_json::Value = serde_json::from_slice(&o.stdout).unwrap_or(json!({"error": format!("child died: {:?}", o.status)}));
                if let Some(e) = v.get("error") {
                    err = Some(format!("{e}"));
                    break;
                }
                obs.push((*mib, v["status"].as_u64().unwrap_or(u64::MAX), v["received"].as_u64().unwrap_or(0), v["hwm_kib"].as_u64().unwrap_or(0)));
            }
            let oracle = match (&err, obs.as_slice()) {
                (Some(e), _) => Err(format!("C extraction child: {e}")),
                (None, [s, b]) => {
                    // with a seek callback the extraction must succeed and deliver the member (otherwise nothing was measured)
                    if seek == 1 && (s.1 != 0 || b.1 != 0 || s.2 != (s.0 as u64) << 20 || b.2 != (b.0 as u64) << 20) {
                        Err(format!("C extraction with read+seek callbacks over a file: status {:#x}/{:#x}, {} / {} bytes delivered", s.1, b.1, s.2, b.2))
                    } else if b.3 > s.3 + 8 * 1024 {
                        Err(format!(
                            "linear extraction through the C interface ({} seek callback, layers {lname}): peak resident memory {} KiB for a {} MiB archive, {} KiB for a {} MiB archive (status {:#x}): memory grows with the bytes streamed",
                            if seek == 1 { "with a" } else { "NULL" }, s.3, s.0, b.3, b.0, b.1
                        ))
                    } else {
                        Ok(())
                    }
                }
                _ => Err("missing observation".into()),
            };
            let (ok, msg) = match oracle {
                Ok(()) => (true, String::new()),
                Err(e) => (false, e),
            };
            let case = Case {
                id: format!("c15-capi-{lname}-seek{seek}"),
                model_fn: "",
                args: vec![],
                imp: json!([]),
                oracle_ok: ok,
                oracle_msg: msg,
                class: format!("capi-extract layers={lname} seek={}", if seek == 1 { "callback" } else { "NULL" }),
                nontrivial: true,
                meta: json!({"obs": obs.iter().map(|o| json!({"mib": o.0, "status": o.1, "received": o.2, "hwm_kib": o.3})).collect::<Vec<_>>()}),
            }
            .to_json();
            out.raw(&case);
            out.n += 1;
        }
    }
    let _ = std::fs::remove_dir_all(&work);
}
