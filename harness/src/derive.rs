//! C19 oracle: an independent implementation of the README's `keygen --seed` / `keyderive`
//! algorithms with sha2, hkdf, rand_chacha and x25519-dalek used directly (nothing from mlar
//! or curve25519-parser).  stdin lines -> stdout lines:
//!   keygen <seed hex|->                     -> keygen <clamped private> <public> <generator octets>
//!   derive <stored 32 hex> <n> <path hex|-> -> derive <README private (clamped)> <README public>
//!                                                     <private with UNCLAMPED HKDF input (raw)> <its public>
//!   pub <private 32 hex>                    -> pub <X25519(clamp private, 9)>
use hkdf::Hkdf;
use rand::{RngCore, SeedableRng};
use rand_chacha::ChaCha20Rng;
use sha2::{Digest, Sha512};
use std::io::{self, BufRead, Write};
use x25519_dalek::{x25519, X25519_BASEPOINT_BYTES};

fn unhex(s: &str) -> Vec<u8> {
    if s == "-" {
        Vec::new()
    } else {
        hex::decode(s).expect("hex")
    }
}

/// RFC 7748 decodeScalar25519
fn clamp(mut k: [u8; 32]) -> [u8; 32] {
    k[0] &= 248;
    k[31] &= 127;
    k[31] |= 64;
    k
}

/// "ChaCha-20rounds(seed)": the first 32 octets of the generator
fn chacha32(seed: [u8; 32]) -> [u8; 32] {
    let mut rng = ChaCha20Rng::from_seed(seed);
    let mut out = [0u8; 32];
    rng.fill_bytes(&mut out);
    out
}

/// README step 2.1-2.3 for one path; `ikm` as given
fn step(ikm: &[u8; 32], path: &[u8]) -> [u8; 32] {
    let hk = Hkdf::<Sha512>::new(Some(b"PATH DERIVATION"), ikm);
    // the README does not fix the output length: ask for a whole SHA-512 block, use the first 32
    let mut okm = [0u8; 64];
    hk.expand(path, &mut okm).expect("hkdf");
    let mut seed = [0u8; 32];
    seed.copy_from_slice(&okm[..32]);
    chacha32(seed)
}

pub fn tester() {
    let stdin = io::stdin();
    let stdout = io::stdout();
    let mut out = stdout.lock();
    for line in stdin.lock().lines() {
        let line = line.unwrap();
        let f: Vec<&str> = line.split_whitespace().collect();
        if f.is_empty() {
            continue;
        }
        match f[0] {
            "keygen" => {
                let seed = unhex(f[1]);
                let mut prng_seed = [0u8; 32];
                prng_seed.copy_from_slice(&Sha512::digest(&seed)[0..32]);
                let raw = chacha32(prng_seed);
                let key = clamp(raw);
                let public = x25519(key, X25519_BASEPOINT_BYTES);
                writeln!(out, "keygen {} {} {}", hex::encode(key), hex::encode(public), hex::encode(raw)).unwrap();
            }
            "derive" => {
                let stored: [u8; 32] = unhex(f[1]).try_into().expect("32 octets");
                let n: usize = f[2].parse().unwrap();
                let paths: Vec<Vec<u8>> = (0..n).map(|i| unhex(f[3 + i])).collect();
                // README: secret = the clamped private key; every new key is clamped
                let mut key = clamp(stored);
                // what one gets when the HKDF input is NOT clamped (diagnosis only)
                let mut raw = stored;
                for p in &paths {
                    key = clamp(step(&key, p));
                    raw = step(&raw, p);
                }
                writeln!(
                    out,
                    "derive {} {} {} {}",
                    hex::encode(key),
                    hex::encode(x25519(key, X25519_BASEPOINT_BYTES)),
                    hex::encode(raw),
                    hex::encode(x25519(raw, X25519_BASEPOINT_BYTES))
                )
                .unwrap();
            }
            "pub" => {
                let k: [u8; 32] = unhex(f[1]).try_into().expect("32 octets");
                writeln!(out, "pub {}", hex::encode(x25519(k, X25519_BASEPOINT_BYTES))).unwrap();
            }
            other => panic!("unknown request {other}"),
        }
    }
}
