//! C01, the archive HEADER (work package "header"): what `ArchiveWriter::from_config` writes
//! before the layers, and what `ArchiveReader::from_config` recovers from it.
//!
//! For generated configurations (4 layer combinations, 1-3 recipients) a real archive is built
//! with `ArchiveWriter`; its header bytes are parsed here from the documented layout ("MLA",
//! u32 LE version, u8 layers, u8 Option tag, 32-byte ephemeral public key, u64 LE count,
//! count x (32-byte wrapped key || 16-byte tag), 8-byte nonce), without `mla`.
//!
//! Correspondence rows (model = coq/theories/RunC01.v):
//!  * `c01_header`: the model's `dump_header (to_persistent cfg)` in ORACLE MODE for the random
//!    ephemeral scalar (inputs: the ephemeral PUBLIC key read from the header and, per recipient,
//!    the X25519 shared secret computed with x25519-dalek; the model computes HKDF, the AES-GCM
//!    wrap and tag) must reproduce the header byte for byte, wrapped keys in recipient order;
//!  * `c01_load`: the model's `read_header` + `load_config` on the real header with a candidate
//!    list (a decoy first, then one recipient / only decoys / empty) must give the library's
//!    outcome: layers, session key, nonce, header length — or the refusal.
//!
//! Oracle (independent of the model, crates `x25519-dalek`, `hkdf`, `aes-gcm` directly): the
//! layers byte is the configured one, there is one wrapped key per recipient, EVERY recipient's
//! private key unwraps (tag verified) some entry to the same 32 bytes, and those are
//! `encryption_key()`; the nonce is `encryption_nonce()`.
use crate::archive::{build, Plan, L_COMP, L_ENC};
use crate::util::*;
use aes_gcm::aead::{Aead, KeyInit, Payload};
use aes_gcm::{Aes256Gcm, Nonce};
use hkdf::Hkdf;
use mla::config::ArchiveReaderConfig;
use mla::ArchiveReader;
use serde_json::{json, Value};
use sha2::Sha256;
use std::io::Cursor;
use x25519_dalek::{PublicKey, StaticSecret};

pub struct Parsed {
    pub layers: u8,
    pub epub: Option<[u8; 32]>,
    pub entries: Vec<([u8; 32], [u8; 16])>,
    pub nonce: Option<[u8; 8]>,
    pub len: usize,
}

/// The header layout, from the format description alone.
pub fn parse_header(b: &[u8]) -> Result<Parsed, String> {
    let need = |n: usize| if b.len() < n { Err(format!("header shorter than {n} bytes")) } else { Ok(()) };
    need(9)?;
    if &b[0..3] != b"MLA" {
        return Err("magic".into());
    }
    if u32::from_le_bytes([b[3], b[4], b[5], b[6]]) != 1 {
        return Err("version".into());
    }
    let layers = b[7];
    match b[8] {
        0 => Ok(Parsed { layers, epub: None, entries: vec![], nonce: None, len: 9 }),
        1 => {
            need(9 + 32 + 8)?;
            let mut epub = [0u8; 32];
            epub.copy_from_slice(&b[9..41]);
            let mut c = [0u8; 8];
            c.copy_from_slice(&b[41..49]);
            let count = u64::from_le_bytes(c) as usize;
            if count > 1 << 20 {
                return Err("absurd key count".into());
            }
            need(49 + 48 * count + 8)?;
            let mut entries = Vec::new();
            for i in 0..count {
                let o = 49 + 48 * i;
                let mut k = [0u8; 32];
                k.copy_from_slice(&b[o..o + 32]);
                let mut t = [0u8; 16];
                t.copy_from_slice(&b[o + 32..o + 48]);
                entries.push((k, t));
            }
            let o = 49 + 48 * count;
            let mut nonce = [0u8; 8];
            nonce.copy_from_slice(&b[o..o + 8]);
            Ok(Parsed { layers, epub: Some(epub), entries, nonce: Some(nonce), len: o + 8 })
        }
        t => Err(format!("Option tag {t}")),
    }
}

/// X25519 with the recipient's private key, then HKDF-SHA256(no salt, "KEY DERIVATION", 32).
fn shared_secret(private: &StaticSecret, epub: &[u8; 32]) -> [u8; 32] {
    *private.diffie_hellman(&PublicKey::from(*epub)).as_bytes()
}
fn wrapping_key(shared: &[u8; 32]) -> [u8; 32] {
    let hk: Hkdf<Sha256> = Hkdf::new(None, shared);
    let mut out = [0u8; 32];
    hk.expand(b"KEY DERIVATION", &mut out).expect("hkdf");
    out
}
/// AES-256-GCM("ECIES NONCE0", no AAD) decryption of one wrapped key, tag verified.
fn unwrap_entry(wk: &[u8; 32], entry: &([u8; 32], [u8; 16])) -> Option<Vec<u8>> {
    let cipher = Aes256Gcm::new_from_slice(wk).ok()?;
    let mut ct = entry.0.to_vec();
    ct.extend_from_slice(&entry.1);
    cipher.decrypt(Nonce::from_slice(b"ECIES NONCE0"), Payload { msg: &ct, aad: b"" }).ok()
}

fn oracle(plan: &Plan, bytes: &[u8], header_len: usize, key: &[u8; 32], nonce: &[u8; 8], privs: &[StaticSecret]) -> Result<(), String> {
    let p = parse_header(bytes)?;
    if p.layers != plan.layers {
        return Err(format!("layers byte {} for configured layers {}", p.layers, plan.layers));
    }
    if p.len != header_len {
        return Err(format!("the header is {} bytes by its layout, the library stops reading it after {}", p.len, header_len));
    }
    if plan.layers & L_ENC == 0 {
        return if p.epub.is_none() { Ok(()) } else { Err("encryption parameters in the header of an archive without encryption".into()) };
    }
    let epub = p.epub.ok_or("no encryption parameters in the header of an encrypted archive")?;
    if p.entries.len() != plan.recipients.max(1) {
        return Err(format!("{} wrapped keys for {} recipients", p.entries.len(), plan.recipients.max(1)));
    }
    if p.nonce != Some(*nonce) {
        return Err("the nonce in the header is not encryption_nonce()".into());
    }
    for (i, s) in privs.iter().enumerate() {
        let wk = wrapping_key(&shared_secret(s, &epub));
        let got = p.entries.iter().find_map(|e| unwrap_entry(&wk, e));
        match got {
            None => return Err(format!("the private key of recipient {i} unwraps no entry of the header")),
            Some(k) if k != key.to_vec() => return Err(format!("recipient {i} unwraps a key that is not encryption_key()")),
            _ => {}
        }
    }
    Ok(())
}

/// What the library's reader configuration holds after opening with these candidate keys.
fn lib_load(bytes: &[u8], cands: &[StaticSecret], header_len: usize) -> Vec<Vec<u64>> {
    let r = catch(|| {
        let mut cfg = ArchiveReaderConfig::new();
        cfg.add_private_keys(cands);
        ArchiveReader::from_config(Cursor::new(bytes), cfg).map(|rd| {
            let params = rd.config.get_encrypt_parameters();
            let l = rd.config.layers_enabled;
            (l.contains(mla::Layers::ENCRYPT), l.contains(mla::Layers::COMPRESS), params)
        })
    });
    match r {
        Ok(Ok((e, c, params))) => {
            // the model keeps no key material for an archive without encryption
            let (k, n) = match (e, params) {
                (true, Some((k, n))) => (k.to_vec(), n.to_vec()),
                _ => (vec![], vec![]),
            };
            vec![vec![0], vec![e as u64, c as u64], k.iter().map(|x| *x as u64).collect(), n.iter().map(|x| *x as u64).collect(), vec![header_len as u64]]
        }
        Ok(Err(_)) => vec![vec![1, 1]],
        Err(_) => vec![vec![2, 1]],
    }
}

fn small_plan(rng: &mut Rng, layers: u8, recipients: usize) -> Plan {
    let n = rng.range(1, 2) as usize;
    let names: Vec<Vec<u8>> = (0..n).map(|i| format!("h{i}").into_bytes()).collect();
    let mut pieces = Vec::new();
    for i in 0..n {
        let l = rng.range(0, 40) as usize;
        pieces.push((i, rng.bytes(l)));
    }
    Plan { names, pieces, layers, level: *rng.pick(&[0u32, 5]), recipients, reader_key: rng.below(recipients as u64) as usize }
}

pub fn c01_header_cases(rng: &mut Rng, tier: &str, out: &mut Out) {
    let reps = if tier == "thorough" { 6 } else { 2 };
    for rep in 0..reps {
        for layers in 0u8..4 {
            for recipients in 1usize..=3 {
                if layers & L_ENC == 0 && recipients > 1 {
                    continue; // the recipients do not reach the header without encryption
                }
                let id = format!("c01h-{rep}-l{layers}-r{recipients}");
                let plan = small_plan(rng, layers, recipients);
                let built = match build(rng, &plan) {
                    Ok(b) => b,
                    Err(e) => {
                        out.case(&Case { id, model_fn: "", args: vec![], imp: json!([]), oracle_ok: false, oracle_msg: format!("valid writer calls failed: {e}"),
                                         class: "build-failed".into(), nontrivial: true, meta: json!({"layers": layers}) });
                        continue;
                    }
                };
                let orc = oracle(&plan, &built.bytes, built.header_len, &built.key, &built.nonce, &built.privs[..recipients]);
                let hdr = &built.bytes[..built.header_len.min(built.bytes.len())];
                let parsed = parse_header(&built.bytes).ok();
                let enc = (layers & L_ENC != 0) as u64;
                let comp = (layers & L_COMP != 0) as u64;
                let lname = ["no layer", "encryption", "compression", "compression+encryption"][layers as usize];
                let meta = json!({"layers": layers, "recipients": recipients, "header_len": built.header_len, "archive_len": built.bytes.len()});
                // ---- writer side
                let epub = parsed.as_ref().and_then(|p| p.epub).unwrap_or([0; 32]);
                let shared: Vec<[u8; 32]> = if enc == 1 { built.privs[..recipients].iter().map(|s| shared_secret(s, &epub)).collect() } else { vec![] };
                let args: Vec<Value> = vec![json!(enc), json!(comp), jbytes(&epub), Value::Array(shared.iter().map(|s| jbytes(s)).collect()),
                                            jbytes(&built.key), jbytes(&built.nonce)];
                out.case(&Case {
                    id: format!("{id}-w"), model_fn: "c01_header", args, imp: json!([[0], hdr]), oracle_ok: orc.is_ok(), oracle_msg: orc.clone().err().unwrap_or_default(),
                    class: format!("header written: {lname}, {} wrapped key(s)", if enc == 1 { recipients } else { 0 }), nontrivial: enc == 1, meta: meta.clone(),
                });
                // ---- reader side: decoy first, then the chosen recipient
                let mut db = [0u8; 32];
                db.copy_from_slice(&rng.bytes(32));
                let decoy = StaticSecret::from(db);
                let rk = plan.reader_key.min(recipients - 1);
                let kinds: &[&str] = if enc == 1 { &["decoy+recipient", "recipient", "decoys only", "no key"] } else { &["no key", "decoy+recipient"] };
                for kind in kinds {
                    let cands: Vec<StaticSecret> = match *kind {
                        "decoy+recipient" => vec![decoy.clone(), built.privs[rk].clone()],
                        "recipient" => vec![built.privs[rk].clone()],
                        "decoys only" => vec![decoy.clone()],
                        _ => vec![],
                    };
                    let rows = lib_load(&built.bytes, &cands, built.header_len);
                    let cshared: Vec<Value> = cands.iter().map(|s| jbytes(&shared_secret(s, &epub))).collect();
                    // property C01 speaks of a reader holding a recipient key (or of an archive without encryption)
                    let must_open = enc == 0 || kind.contains("recipient");
                    let o = if must_open && rows.first() != Some(&vec![0]) {
                        Err(format!("a reader holding a recipient key ({kind}) does not open the archive: {:?}", rows.first()))
                    } else if must_open && enc == 1 && (rows.get(2) != Some(&built.key.iter().map(|x| *x as u64).collect::<Vec<u64>>())) {
                        Err("the reader's session key is not encryption_key()".to_string())
                    } else {
                        Ok(())
                    };
                    out.case(&Case {
                        id: format!("{id}-r-{}", kind.replace(' ', "_").replace('+', "_")), model_fn: "c01_load",
                        args: vec![jbytes(&built.bytes), Value::Array(cshared)], imp: json!(rows), oracle_ok: o.is_ok(), oracle_msg: o.err().unwrap_or_default(),
                        class: format!("header read: {lname}, candidates = {kind}"), nontrivial: enc == 1, meta: meta.clone(),
                    });
                }
            }
        }
    }
}
