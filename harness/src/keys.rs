//! curve25519-parser differential tester (C18): stdin lines -> outcomes of the three parse
//! functions / generate_keypair with a fixed RNG.
#![allow(dead_code)]
use curve25519_parser::{
    generate_keypair, parse_openssl_25519_privkey, parse_openssl_25519_pubkey,
    parse_openssl_25519_pubkeys_pem_many,
};
use rand::{CryptoRng, RngCore};
use std::io::{self, BufRead, Write};
use std::panic::{catch_unwind, AssertUnwindSafe};

struct FixedRng {
    data: Vec<u8>,
    pos: usize,
}
impl RngCore for FixedRng {
    fn next_u32(&mut self) -> u32 {
        let mut b = [0u8; 4];
        self.fill_bytes(&mut b);
        u32::from_le_bytes(b)
    }
    fn next_u64(&mut self) -> u64 {
        let mut b = [0u8; 8];
        self.fill_bytes(&mut b);
        u64::from_le_bytes(b)
    }
    fn fill_bytes(&mut self, dst: &mut [u8]) {
        for d in dst.iter_mut() {
            *d = self.data[self.pos % self.data.len()];
            self.pos += 1;
        }
    }
}
impl CryptoRng for FixedRng {}

pub fn tester() {
    // silence the default panic message; panics are reported in-band
    std::panic::set_hook(Box::new(|_| {}));
    let stdin = io::stdin();
    let stdout = io::stdout();
    let mut out = stdout.lock();
    for line in stdin.lock().lines() {
        let line = line.unwrap();
        let line = line.trim();
        if let Some(rest) = line.strip_prefix("gen ") {
            let seed = hex::decode(rest.trim()).unwrap();
            let mut rng = FixedRng { data: seed, pos: 0 };
            let kp = generate_keypair(&mut rng).unwrap();
            writeln!(
                out,
                "gen {} {} {} {}",
                hex::encode(kp.private_der),
                hex::encode(kp.public_der),
                hex::encode(kp.private_as_pem()),
                hex::encode(kp.public_as_pem())
            )
            .unwrap();
            continue;
        }
        let data = hex::decode(line).unwrap();
        let p = match catch_unwind(AssertUnwindSafe(|| parse_openssl_25519_privkey(&data))) {
            Ok(Ok(k)) => format!("ok:{}", hex::encode(k.to_bytes())),
            Ok(Err(_)) => "err".to_string(),
            Err(_) => "panic".to_string(),
        };
        let u = match catch_unwind(AssertUnwindSafe(|| parse_openssl_25519_pubkey(&data))) {
            Ok(Ok(k)) => format!("ok:{}", hex::encode(k.as_bytes())),
            Ok(Err(_)) => "err".to_string(),
            Err(_) => "panic".to_string(),
        };
        let m = match catch_unwind(AssertUnwindSafe(|| parse_openssl_25519_pubkeys_pem_many(&data)))
        {
            Ok(Ok(v)) => format!(
                "ok:{}:{}",
                v.len(),
                v.iter()
                    .map(|k| hex::encode(k.as_bytes()))
                    .collect::<Vec<_>>()
                    .join(",")
            ),
            Ok(Err(_)) => "err".to_string(),
            Err(_) => "panic".to_string(),
        };
        writeln!(out, "P:{} U:{} M:{}", p, u, m).unwrap();
    }
}
