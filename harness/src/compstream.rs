//! Job c08-stack, model-compared: compression over encryption over raw where some chunks of
//! the encrypted wire do not verify.  The model is the STREAMING compression reader
//! (theories/CompLayerS.v, entry point RunC08Stack.c08_stack): brotli::Decompressor<Take<R>>
//! as written in brotli-decompressor (input buffer of min(csize, BLOCK) bytes, refilled by ONE
//! inner read only when the decoder asks for input without having produced output), around
//! the decoder tabulated per case from the real `brotli` crate (fscomp::tables: for every
//! prefix of every compressed block the number of plaintext bytes produced).
//!
//! Besides the rows of every operation (Ok/Err class, value, stream_position, bytes after
//! read-until-n-or-end) the case carries the READ-AHEAD LOG: an instrumented LayerReader
//! (`LogLayer`, harness side only, /repo untouched) sits between the real
//! CompressionLayerReader and the real EncryptionLayerReader and records every read (bytes
//! asked, bytes delivered) and seek (target, result) the compression layer issues; the model
//! prints the same from its `Logged` inner stream.  So the refill sizes of brotli's input
//! buffer are compared exactly, not inferred.
//!
//! Oracle (unchanged): no panic; every successful read returns the bytes written before the
//! position the reader reports.
#![allow(dead_code)]
#[allow(unused_imports)]
use crate::util::*;
#[allow(unused_imports)]
use serde_json::{json, Value};

#[cfg(not(feature = "scaled"))]
pub fn c08_stack_cases(_rng: &mut Rng, _tier: &str, _out: &mut Out) {}

#[cfg(feature = "scaled")]
pub use scaled::*;

#[cfg(feature = "scaled")]
mod scaled {
    use super::*;
    use crate::comp::{block, comp_layer_bytes, gen_plain};
    use crate::enc::{gen_ops, op_to_seek, KEY, NONCE};
    use crate::fscomp::{tables, Tables};
    use mla::layers::compress::{CompressionConfig, CompressionLayerReader, CompressionLayerWriter};
    use mla::layers::encrypt::{EncryptionConfig, EncryptionLayerReader, EncryptionLayerWriter, EncryptionReaderConfig};
    use mla::layers::raw::{RawLayerReader, RawLayerWriter};
    use mla::layers::traits::{InnerReaderTrait, LayerReader, LayerWriter};
    use std::io::{Cursor, Read, Seek, SeekFrom, Write};
    use std::sync::{Arc, Mutex};

    pub type Log = Arc<Mutex<Vec<[u64; 3]>>>;

    /// Transparent layer that records what the layer above asks of the layer below.
    pub struct LogLayer<'a, R: InnerReaderTrait> {
        inner: Box<dyn 'a + LayerReader<'a, R>>,
        log: Log,
    }
    impl<'a, R: InnerReaderTrait> Read for LogLayer<'a, R> {
        fn read(&mut self, buf: &mut [u8]) -> std::io::Result<usize> {
            let r = self.inner.read(buf);
            self.log.lock().unwrap().push(match &r {
                Ok(k) => [0, buf.len() as u64, *k as u64],
                Err(_) => [2, buf.len() as u64, 0],
            });
            r
        }
    }
    impl<'a, R: InnerReaderTrait> Seek for LogLayer<'a, R> {
        fn seek(&mut self, pos: SeekFrom) -> std::io::Result<u64> {
            let t = match pos {
                SeekFrom::Start(p) => p,
                SeekFrom::Current(d) | SeekFrom::End(d) => d.unsigned_abs(),
            };
            let r = self.inner.seek(pos);
            self.log.lock().unwrap().push(match &r {
                Ok(p) => [1, t, *p],
                Err(_) => [3, t, 0],
            });
            r
        }
    }
    impl<'a, R: 'a + InnerReaderTrait> LayerReader<'a, R> for LogLayer<'a, R> {
        fn into_inner(self) -> Option<Box<dyn 'a + LayerReader<'a, R>>> {
            Some(self.inner)
        }
        fn into_raw(self: Box<Self>) -> R {
            self.inner.into_raw()
        }
        fn initialize(&mut self) -> Result<(), mla::errors::Error> {
            self.inner.initialize()
        }
    }

    fn write_pieces<W: Write>(w: &mut W, plain: &[u8], piece: usize) {
        if piece == 0 {
            w.write_all(plain).unwrap();
        } else {
            for c in plain.chunks(piece) {
                w.write_all(c).unwrap();
            }
        }
    }

    /// The extra law the refinement theorem assumes of the decoder (CompLayerSRefine.NoNmiAtEnd),
    /// observed on the real one: once a complete stream has been offered, no call returns
    /// NeedsMoreInput — whatever the slicing of the input and the output room (0 included).
    pub fn check_no_nmi_at_end(rng: &mut Rng, t: &Tables) -> Result<u64, String> {
        use brotli::writer::StandardAlloc;
        use brotli::{BrotliDecompressStream, BrotliResult, BrotliState};
        let mut calls = 0u64;
        for (c, p, _) in &t.blocks {
            for _rep in 0..3 {
                let mut st = BrotliState::new(StandardAlloc::default(), StandardAlloc::default(), StandardAlloc::default());
                let (mut cin, mut offered, mut cout) = (0usize, 0usize, 0usize);
                loop {
                    calls += 1;
                    if calls > 2_000_000 {
                        return Err("law check does not terminate".into());
                    }
                    let more = match rng.below(4) {
                        0 => 0,
                        1 => 1,
                        2 => rng.range(1, 40) as usize,
                        _ => c.len(),
                    };
                    offered = (offered.max(cin) + more).min(c.len());
                    let inp = &c[cin..offered];
                    let room = match rng.below(4) {
                        0 => 0,
                        1 => 1,
                        2 => rng.range(1, 16) as usize,
                        _ => rng.range(1, 600) as usize,
                    };
                    let mut avail_in = inp.len();
                    let mut in_off = 0usize;
                    let mut out = vec![0u8; room];
                    let mut avail_out = room;
                    let mut out_off = 0usize;
                    let mut total = 0usize;
                    let r = BrotliDecompressStream(&mut avail_in, &mut in_off, inp, &mut avail_out, &mut out_off, &mut out, &mut total, &mut st);
                    cin += in_off;
                    cout += out_off;
                    match r {
                        BrotliResult::ResultSuccess => {
                            if cin != c.len() || cout != p.len() {
                                return Err("ResultSuccess before the end of the block".into());
                            }
                            break;
                        }
                        BrotliResult::NeedsMoreInput => {
                            if offered == c.len() {
                                return Err(format!("NeedsMoreInput although the complete stream ({} bytes) was on offer (room {room})", c.len()));
                            }
                        }
                        BrotliResult::NeedsMoreOutput => {}
                        BrotliResult::ResultFailure => return Err("ResultFailure on a valid block".into()),
                    }
                }
            }
        }
        Ok(calls)
    }

    pub fn jtables(t: &Tables) -> (Value, Value) {
        let tab = Value::Array(t.blocks.iter().map(|(c, p, cnt)| json!([jbytes(c), jbytes(p), cnt])).collect());
        let tail = json!([jbytes(&t.tail), [t.fail_at]]);
        (tab, tail)
    }

    /// One history on the real stack; rows as comp::run_ops plus, after every operation that
    /// returned Ok, the row [77, log entries...] of what the compression layer asked of the
    /// layer below during that operation (the log of a failed operation is dropped: the
    /// model's reader has dropped its inner layer, log included).
    fn run_ops_logged<R: Read + Seek>(r: &mut R, log: &Log, ops: &[Vec<u64>]) -> Vec<Vec<u64>> {
        let mut rows = Vec::new();
        for op in ops {
            log.lock().unwrap().clear();
            let row = catch(|| {
                let (st, val, bytes) = if op[0] == 0 {
                    let n = op[1] as usize;
                    let mut buf = vec![0u8; n];
                    let mut got = 0usize;
                    let mut err = false;
                    while got < n {
                        match r.read(&mut buf[got..]) {
                            Ok(0) => break,
                            Ok(k) => got += k,
                            Err(_) => {
                                err = true;
                                break;
                            }
                        }
                    }
                    if err {
                        (1u64, 0u64, vec![])
                    } else {
                        (0, got as u64, buf[..got].to_vec())
                    }
                } else {
                    match r.seek(op_to_seek(op).unwrap()) {
                        Ok(p) => (0, p, vec![]),
                        Err(_) => (1, 0, vec![]),
                    }
                };
                let entries: Vec<[u64; 3]> = log.lock().unwrap().clone();
                let pc = match r.stream_position() {
                    Ok(p) => p + 1,
                    Err(_) => 0,
                };
                let mut row = vec![st, val, pc];
                row.extend(bytes.iter().map(|b| *b as u64));
                (row, entries)
            });
            match row {
                Ok((row, entries)) => {
                    let ok = row[0] == 0;
                    rows.push(row);
                    if ok {
                        let mut l = vec![77u64];
                        for e in entries {
                            l.extend_from_slice(&e);
                        }
                        rows.push(l);
                    }
                }
                Err(_) => {
                    rows.push(vec![2]);
                    break;
                }
            }
        }
        rows
    }

    pub fn c08_stack_cases(rng: &mut Rng, tier: &str, out: &mut Out) {
        let bl = block();
        let (ch, tg) = (crate::enc::chunk() as usize, crate::enc::tag() as usize);
        let n = if tier == "thorough" { 900 } else { 220 };
        for i in 0..n {
            let hl = *rng.pick(&[0usize, 5]);
            let len = match rng.below(4) {
                0 | 1 => rng.range(1, 3) * bl,
                2 => (rng.below(4) * bl) as u64 + rng.below(5),
                _ => rng.below(3 * bl + 20),
            };
            // half of the streams incompressible (several encryption chunks per compressed block)
            let class = match rng.below(6) {
                0 => 0usize,
                1 | 2 => 1,
                _ => 2,
            };
            let plain = gen_plain(rng, class, len as usize);
            let piece = *rng.pick(&[0usize, 7, 100, 256, 300]);
            let level = *rng.pick(&[1u32, 5]);
            let header = rng.bytes(hl);
            let mut w = Box::new(CompressionLayerWriter::new(
                Box::new(
                    EncryptionLayerWriter::new(Box::new(RawLayerWriter::new(header.clone())), &EncryptionConfig::verif_new(KEY, NONCE)).unwrap(),
                ),
                &CompressionConfig::verif_new(level),
            ));
            write_pieces(&mut w, &plain, piece);
            w.finalize().unwrap();
            let mut arch = w.into_raw();
            // brotli is deterministic: the same pieces give the same compression-layer bytes
            let compwire = comp_layer_bytes(&plain, piece, level);
            // alter the last tag byte of 1-2 chunks; six times out of seven only chunks that lie
            // entirely before the compression footer (so that the stack still opens and the error
            // is met by a read or a seek of the history), otherwise any chunk (the footer's
            // included: both sides then say that the stack does not open)
            let nch = (compwire.len() + ch - 1) / ch;
            let footer_start = crate::comp::parse_footer(&compwire).map(|f| f.2).unwrap_or(0);
            let before_footer = footer_start / ch;
            let mut offs: Vec<u64> = Vec::new();
            let spare_footer = before_footer > 0 && rng.below(7) != 0;
            for _ in 0..rng.range(1, 2) {
                let j = if spare_footer { rng.below(before_footer as u64) as usize } else { rng.below(nch.max(1) as u64) as usize };
                let clen = (compwire.len() - j * ch).min(ch);
                let o = j * (ch + tg) + clen + tg - 1;
                if o < arch.len() - hl && !offs.contains(&(o as u64)) {
                    offs.push(o as u64);
                    arch[hl + o] ^= 1;
                }
            }
            let mut ops = gen_ops(rng, len, bl, 20, 3 * bl);
            // explicit seeks to exactly the end, in both spellings, after something else has run
            let at = rng.range(1, ops.len() as u64) as usize;
            ops.insert(at, if rng.below(2) == 0 { vec![1, len, 0] } else { vec![3, 0, 0] });
            ops.push(vec![1, len, 0]);
            ops.push(vec![0, 7, 0]);
            let log: Log = Arc::new(Mutex::new(Vec::new()));
            let open = || -> Result<CompressionLayerReader<'static, Cursor<Vec<u8>>>, String> {
                let mut raw = RawLayerReader::new(Cursor::new(arch.clone()));
                let mut hb = vec![0u8; hl];
                raw.read_exact(&mut hb).map_err(|e| e.to_string())?;
                raw.reset_position().map_err(|e| e.to_string())?;
                let enc = EncryptionLayerReader::new(Box::new(raw), &EncryptionReaderConfig::verif_new(KEY, NONCE, false))
                    .map_err(|e| format!("{e:?}"))?;
                let logged = LogLayer { inner: Box::new(enc), log: log.clone() };
                let mut r = CompressionLayerReader::new(Box::new(logged)).map_err(|e| format!("{e:?}"))?;
                r.initialize().map_err(|e| format!("{e:?}"))?;
                Ok(r)
            };
            let opened = crate::util::catch(open);
            let (rows, note) = match opened {
                Err(p) => (vec![vec![2u64]], Some(format!("opening panicked: {p}"))),
                Ok(Err(_)) => (vec![vec![1u64]], None),
                Ok(Ok(mut r)) => {
                    let mut rows = vec![{
                        let mut v = vec![0u64];
                        v.extend(r.sizes_info.as_ref().map(|s| s.compressed_sizes.clone()).unwrap_or_default().iter().map(|x| *x as u64));
                        v
                    }];
                    rows.extend(run_ops_logged(&mut r, &log, &ops));
                    let oprows: Vec<&Vec<u64>> = rows.iter().skip(1).filter(|r| r.first() != Some(&77)).collect();
                    let mut note = if rows.iter().any(|r| r == &vec![2u64]) {
                        Some(format!("a call on the compression reader over an encrypted stream with an unverifiable chunk panicked (operation {} of the history)", oprows.len()))
                    } else {
                        None
                    };
                    for (op, row) in ops.iter().zip(oprows.iter()) {
                        if op[0] == 0 && row.len() >= 3 && row[0] == 0 && row[2] > 0 {
                            let end = (row[2] - 1) as usize;
                            let got: Vec<u8> = row[3..].iter().map(|x| *x as u8).collect();
                            // (a read that returns no byte claims nothing: after a seek beyond the end the position may exceed the length)
                            if !got.is_empty() && (end > plain.len() || got.len() > end || plain[end - got.len()..end] != got[..]) {
                                note = Some(format!("a read that succeeded returned {} bytes that are not the bytes written before position {end}", got.len()));
                            }
                        }
                    }
                    (rows, note)
                }
            };
            let errs = rows.iter().filter(|r| r.first() == Some(&1)).count();
            // the decoder tables of this stream (real brotli, driven directly)
            let mut note = note;
            let (model_fn, args) = match tables(&compwire) {
                Ok(t) => {
                    if let Err(e) = check_no_nmi_at_end(rng, &t) {
                        note = Some(format!("decoder law NoNmiAtEnd not observed on the real decoder: {e}"));
                    }
                    let (jtab, jtail) = jtables(&t);
                    ("c08_stack", vec![jbytes(&header), jbytes(&compwire), json!(offs), jtab, jtail, json!(ops)])
                }
                Err(_) => ("", vec![]),
            };
            let refills: usize = rows.iter().filter(|r| r.first() == Some(&77)).map(|r| (r.len() - 1) / 3).sum();
            out.case(&Case {
                id: format!("c08-stack-{i}"),
                model_fn,
                args,
                imp: json!(rows),
                oracle_ok: note.is_none(),
                oracle_msg: note.unwrap_or_default(),
                class: format!("stack-bad len%block={} blocks={} errors={}", if len % bl == 0 { "0" } else { "mid" }, len / bl, errs.min(3)),
                nontrivial: errs > 0,
                meta: json!({"len": len, "arch_len": arch.len(), "offs": offs, "header": hl, "inner_calls_logged": refills}),
            });
        }
    }
}
