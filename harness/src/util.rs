//! Shared helpers: deterministic PRNG, panic capture, throttled I/O, JSON case output.
#![allow(dead_code)]
use serde_json::{json, Value};
use std::io::{self, Read, Seek, SeekFrom, Write};
use std::panic::{self, AssertUnwindSafe};

/// All random choices of a run derive from one SplitMix64 state (VERIF_SEED).
#[derive(Clone)]
pub struct Rng(pub u64);
impl Rng {
    pub fn new(seed: u64) -> Self {
        Rng(seed ^ 0x9E37_79B9_7F4A_7C15)
    }
    pub fn next(&mut self) -> u64 {
        self.0 = self.0.wrapping_add(0x9E37_79B9_7F4A_7C15);
        let mut z = self.0;
        z = (z ^ (z >> 30)).wrapping_mul(0xBF58_476D_1CE4_E5B9);
        z = (z ^ (z >> 27)).wrapping_mul(0x94D0_49BB_1331_11EB);
        z ^ (z >> 31)
    }
    pub fn below(&mut self, n: u64) -> u64 {
        if n == 0 {
            0
        } else {
            self.next() % n
        }
    }
    pub fn range(&mut self, lo: u64, hi: u64) -> u64 {
        lo + self.below(hi - lo + 1)
    }
    pub fn pick<'a, T>(&mut self, xs: &'a [T]) -> &'a T {
        &xs[self.below(xs.len() as u64) as usize]
    }
    pub fn bytes(&mut self, n: usize) -> Vec<u8> {
        (0..n).map(|_| self.next() as u8).collect()
    }
    pub fn fork(&mut self) -> Rng {
        Rng(self.next())
    }
}

pub fn silence_panics() {
    panic::set_hook(Box::new(|_| {}));
}

/// Run f; a panic becomes Err(message).
pub fn catch<T>(f: impl FnOnce() -> T) -> Result<T, String> {
    match panic::catch_unwind(AssertUnwindSafe(f)) {
        Ok(v) => Ok(v),
        Err(e) => {
            let msg = if let Some(s) = e.downcast_ref::<&str>() {
                (*s).to_string()
            } else if let Some(s) = e.downcast_ref::<String>() {
                s.clone()
            } else {
                "panic".to_string()
            };
            Err(msg)
        }
    }
}

pub fn jbytes(b: &[u8]) -> Value {
    Value::Array(b.iter().map(|x| json!(*x)).collect())
}

/// A source returning at most `sched[i]` bytes at the i-th read (last entry repeats).
pub struct ThrottledReader<R> {
    pub inner: R,
    pub sched: Vec<usize>,
    pub i: usize,
}
impl<R> ThrottledReader<R> {
    pub fn new(inner: R, sched: Vec<usize>) -> Self {
        Self { inner, sched, i: 0 }
    }
    fn quota(&mut self) -> usize {
        if self.sched.is_empty() {
            return usize::MAX;
        }
        let k = self.sched[self.i.min(self.sched.len() - 1)];
        if self.i < self.sched.len() - 1 {
            self.i += 1;
        }
        k.max(1)
    }
}
impl<R: Read> Read for ThrottledReader<R> {
    fn read(&mut self, buf: &mut [u8]) -> io::Result<usize> {
        let k = self.quota().min(buf.len());
        self.inner.read(&mut buf[..k])
    }
}
impl<R: Seek> Seek for ThrottledReader<R> {
    fn seek(&mut self, pos: SeekFrom) -> io::Result<u64> {
        self.inner.seek(pos)
    }
}

/// A sink accepting at most `sched[i]` bytes at the i-th write, optionally reporting
/// `Interrupted` every `intr`-th call.
pub struct ThrottledWriter {
    pub data: Vec<u8>,
    pub sched: Vec<usize>,
    pub i: usize,
    pub intr: usize,
    pub calls: usize,
    pub flushes: Vec<usize>,
}
impl ThrottledWriter {
    pub fn new(sched: Vec<usize>, intr: usize) -> Self {
        Self { data: Vec::new(), sched, i: 0, intr, calls: 0, flushes: Vec::new() }
    }
}
impl Write for ThrottledWriter {
    fn write(&mut self, buf: &[u8]) -> io::Result<usize> {
        self.calls += 1;
        if self.intr > 0 && self.calls % self.intr == 0 {
            return Err(io::Error::new(io::ErrorKind::Interrupted, "interrupted"));
        }
        let k = if self.sched.is_empty() {
            buf.len()
        } else {
            let k = self.sched[self.i.min(self.sched.len() - 1)].max(1);
            if self.i < self.sched.len() - 1 {
                self.i += 1;
            }
            k.min(buf.len())
        };
        self.data.extend_from_slice(&buf[..k]);
        Ok(k)
    }
    fn flush(&mut self) -> io::Result<()> {
        self.flushes.push(self.data.len());
        Ok(())
    }
}

/// One correspondence case: the model entry point and its arguments (nested arrays of
/// non-negative integers), what the implementation did (same canonical encoding the model
/// prints), and the verdict of the property's own oracle on the implementation.
pub struct Case {
    pub id: String,
    pub model_fn: &'static str,
    pub args: Vec<Value>,
    pub imp: Value,
    pub oracle_ok: bool,
    pub oracle_msg: String,
    pub class: String,
    pub nontrivial: bool,
    pub meta: Value,
}
impl Case {
    pub fn to_json(&self) -> Value {
        json!({
            "id": self.id, "fn": self.model_fn, "args": self.args, "impl": self.imp,
            "oracle_ok": self.oracle_ok, "oracle_msg": self.oracle_msg, "class": self.class,
            "nontrivial": self.nontrivial, "meta": self.meta,
        })
    }
}

pub struct Out {
    w: Box<dyn Write>,
    pub n: usize,
}
impl Out {
    pub fn new(path: Option<&str>) -> Self {
        let w: Box<dyn Write> = match path {
            Some(p) => Box::new(io::BufWriter::new(std::fs::File::create(p).expect("create out"))),
            None => Box::new(io::BufWriter::new(io::stdout())),
        };
        Out { w, n: 0 }
    }
    pub fn case(&mut self, c: &Case) {
        writeln!(self.w, "{}", c.to_json()).unwrap();
        self.n += 1;
    }
    pub fn raw(&mut self, v: &Value) {
        writeln!(self.w, "{}", v).unwrap();
    }
    pub fn finish(mut self) {
        self.w.flush().unwrap();
    }
}
