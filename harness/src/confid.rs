//! C07 (confidentiality): fresh secrets per archive, no plaintext after the header,
//! recipients only. Oracle-only cases (the logic is proved in Ecies.v / EncWriterProofs.v).
#![allow(dead_code)]
use crate::archive::*;
use crate::util::*;
use mla::config::{ArchiveReaderConfig, ArchiveWriterConfig};
use mla::{ArchiveHeader, ArchiveReader, ArchiveWriter};
use serde_json::json;
use std::io::Cursor;
use x25519_dalek::{PublicKey, StaticSecret};

pub struct Secrets {
    pub key: Vec<u8>,
    pub nonce_cfg: Vec<u8>,
    pub eph: Vec<u8>,
    pub nonce_hdr: Vec<u8>,
    pub wrapped: Vec<Vec<u8>>,
    pub bytes: Vec<u8>,
    pub header_len: usize,
}

static BUILD_VARIANT: std::sync::atomic::AtomicUsize = std::sync::atomic::AtomicUsize::new(0);

fn fixed_secret(i: u64) -> StaticSecret {
    let mut r = Rng::new(0xC07 + i);
    let mut b = [0u8; 32];
    b.copy_from_slice(&r.bytes(32));
    StaticSecret::from(b)
}

/// One archive with fixed inputs (same files, same recipients every time).
pub fn build_fixed(layers: u8, recipients: &[PublicKey], files: &[(Vec<u8>, Vec<u8>)]) -> Result<Secrets, String> {
    build_fixed_calls(layers, recipients, files, 1)
}

/// The same with the recipients handed to the configuration in `calls` successive
/// `add_public_keys` calls (one per key file, as a caller loading several files does).
pub fn build_fixed_calls(layers: u8, recipients: &[PublicKey], files: &[(Vec<u8>, Vec<u8>)], calls: usize) -> Result<Secrets, String> {
    // the configuration is reached through the different builder paths a caller may take (they
    // must all give a fresh key and nonce), and the writer is flushed between files in every other archive
    let variant = BUILD_VARIANT.fetch_add(1, std::sync::atomic::Ordering::Relaxed) % 4;
    let mut cfg = match variant {
        0 => {
            let mut c = ArchiveWriterConfig::new();
            c.set_layers(layers_of(layers));
            c
        }
        1 => {
            // start from the default (both layers), switch everything off, switch on what is wanted
            let mut c = ArchiveWriterConfig::default();
            c.disable_layer(mla::Layers::ENCRYPT);
            c.disable_layer(mla::Layers::COMPRESS);
            c.enable_layer(layers_of(layers));
            c
        }
        2 => {
            let mut c = ArchiveWriterConfig::new();
            c.enable_layer(layers_of(layers));
            c
        }
        _ => {
            let mut c = ArchiveWriterConfig::default();
            c.set_layers(layers_of(layers));
            c
        }
    };
    let per = (recipients.len() + calls.max(1) - 1) / calls.max(1);
    for part in recipients.chunks(per.max(1)) {
        cfg.add_public_keys(part);
    }
    let key = cfg.encryption_key().to_vec();
    let nonce_cfg = cfg.encryption_nonce().to_vec();
    let mut w = ArchiveWriter::from_config(Vec::new(), cfg).map_err(|e| format!("{e:?}"))?;
    for (n, c) in files {
        let name = String::from_utf8(n.clone()).map_err(|_| "utf8")?;
        w.add_file(&name, c.len() as u64, c.as_slice()).map_err(|e| format!("{e:?}"))?;
        if variant % 2 == 1 {
            w.flush().map_err(|e| format!("flush: {e:?}"))?;
        }
    }
    w.finalize().map_err(|e| format!("{e:?}"))?;
    let bytes = w.into_raw();
    // whatever the builder path, the key and nonce in use are not a constant
    if key.iter().all(|b| *b == 0) || nonce_cfg.iter().all(|b| *b == 0) {
        return Err(format!("the configuration (builder path {variant}) holds an all-zero key or nonce"));
    }
    let mut c = Cursor::new(bytes.as_slice());
    ArchiveHeader::from(&mut c).map_err(|e| format!("{e:?}"))?;
    let header_len = c.position() as usize;
    // header: "MLA" | u32 version | u8 layers | u8 option tag | [32] ephemeral public | u64 n | n * ([32] wrapped, [16] tag) | [8] nonce
    if header_len < 9 + 32 + 8 + 8 {
        return Err("header too short for an encrypted archive".into());
    }
    let eph = bytes[9..41].to_vec();
    let n = u64::from_le_bytes(bytes[41..49].try_into().unwrap()) as usize;
    let mut wrapped = Vec::new();
    for i in 0..n {
        wrapped.push(bytes[49 + 48 * i..49 + 48 * (i + 1)].to_vec());
    }
    let nonce_hdr = bytes[header_len - 8..header_len].to_vec();
    Ok(Secrets { key, nonce_cfg, eph, nonce_hdr, wrapped, bytes, header_len })
}

/// child process: print the secrets of one archive built from the fixed inputs
pub fn child() {
    let r0 = PublicKey::from(&fixed_secret(0));
    let files = vec![(b"same".to_vec(), vec![7u8; 100])];
    match build_fixed(L_ENC, &[r0], &files) {
        Ok(s) => println!("{} {} {}", hex::encode(&s.key), hex::encode(&s.nonce_hdr), hex::encode(&s.eph)),
        Err(e) => println!("ERR {e}"),
    }
}

fn find_sub(hay: &[u8], needle: &[u8]) -> Option<usize> {
    if needle.is_empty() || hay.len() < needle.len() {
        return None;
    }
    hay.windows(needle.len()).position(|w| w == needle)
}

pub fn c07_cases(rng: &mut Rng, tier: &str, out: &mut Out) {
    let thorough = tier == "thorough";
    // ---- (1) freshness: identical inputs, in one process and across processes
    let groups = if thorough { 40 } else { 6 };
    for g in 0..groups {
        let layers = if g % 2 == 0 { L_ENC } else { L_ENC | L_COMP };
        let nrec = 1 + g % 3;
        let recs: Vec<PublicKey> = (0..nrec as u64).map(|i| PublicKey::from(&fixed_secret(i))).collect();
        let files = vec![(b"same".to_vec(), vec![7u8; 100])];
        let mut keys: Vec<(Vec<u8>, Vec<u8>, Vec<u8>)> = Vec::new();
        let mut msg: Option<String> = None;
        for _ in 0..4 {
            match build_fixed(layers, &recs, &files) {
                Ok(s) => {
                    if s.nonce_cfg != s.nonce_hdr {
                        msg = Some("the nonce stored in the header is not the nonce of the configuration".into());
                    }
                    if s.wrapped.len() != nrec {
                        msg = Some(format!("{} wrapped keys for {nrec} recipients", s.wrapped.len()));
                    }
                    // the session key must not appear in clear in the header
                    if find_sub(&s.bytes[..s.header_len], &s.key).is_some() {
                        msg = Some("the symmetric key appears in clear in the header".into());
                    }
                    keys.push((s.key, s.nonce_hdr, s.eph));
                }
                Err(e) => msg = Some(format!("building an archive failed: {e}")),
            }
        }
        if g < 3 || thorough {
            // two more from fresh processes
            if let Ok(exe) = std::env::current_exe() {
                for _ in 0..2 {
                    if let Ok(o) = std::process::Command::new(&exe).arg("c07-child").output() {
                        let t = String::from_utf8_lossy(&o.stdout).to_string();
                        let p: Vec<&str> = t.split_whitespace().collect();
                        if p.len() == 3 {
                            keys.push((hex::decode(p[0]).unwrap_or_default(), hex::decode(p[1]).unwrap_or_default(), hex::decode(p[2]).unwrap_or_default()));
                        } else {
                            msg = Some(format!("child process: {t}"));
                        }
                    }
                }
            }
        }
        for i in 0..keys.len() {
            for j in 0..i {
                if keys[i].0 == keys[j].0 {
                    msg = Some(format!("two archives created from identical inputs share the symmetric key (archives #{j} and #{i})"));
                }
                if keys[i].1 == keys[j].1 {
                    msg = Some(format!("two archives created from identical inputs share the archive nonce (archives #{j} and #{i})"));
                }
                if keys[i].2 == keys[j].2 {
                    msg = Some(format!("two archives created from identical inputs share the ephemeral public key (archives #{j} and #{i})"));
                }
            }
        }
        out.case(&Case {
            id: format!("c07-fresh-{g}"),
            model_fn: "",
            args: vec![],
            imp: json!([]),
            oracle_ok: msg.is_none(),
            oracle_msg: msg.unwrap_or_default(),
            class: format!("freshness layers={layers} recipients={nrec} archives={}", keys.len()),
            nontrivial: true,
            meta: json!({"layers": layers, "recipients": nrec, "archives": keys.len()}),
        });
    }
    // ---- (2) no file content and no file name in clear after the header
    let n2 = if thorough { 120 } else { 24 };
    for k in 0..n2 {
        let layers = if k % 2 == 0 { L_ENC } else { L_ENC | L_COMP };
        let nfiles = rng.range(1, 3) as usize;
        let mut files = Vec::new();
        let mut markers: Vec<Vec<u8>> = Vec::new();
        for f in 0..nfiles {
            let m = rng.bytes(24);
            let name = format!("N{}-{f}", hex::encode(&rng.bytes(10))).into_bytes();
            let mut content = Vec::new();
            let reps = *rng.pick(&[1usize, 3, 10, 40]);
            let gap = rng.range(0, 40) as usize;
            for _ in 0..reps {
                content.extend_from_slice(&m);
                content.extend(std::iter::repeat(b'.').take(gap));
            }
            markers.push(m);
            markers.push(name.clone());
            files.push((name, content));
        }
        let recs = vec![PublicKey::from(&fixed_secret(1))];
        let mut msg = None;
        match build_fixed(layers, &recs, &files) {
            Ok(s) => {
                let after = &s.bytes[s.header_len..];
                for m in &markers {
                    // any 10-byte window of a marker
                    for w in m.windows(10.min(m.len())) {
                        if let Some(p) = find_sub(after, w) {
                            msg = Some(format!("{} bytes of a file content / name appear in clear at offset {} after the header", w.len(), p));
                        }
                    }
                }
            }
            Err(e) => msg = Some(format!("building an archive failed: {e}")),
        }
        out.case(&Case {
            id: format!("c07-clear-{k}"),
            model_fn: "",
            args: vec![],
            imp: json!([]),
            oracle_ok: msg.is_none(),
            oracle_msg: msg.unwrap_or_default(),
            class: format!("no-plaintext layers={layers} files={nfiles}"),
            nontrivial: true,
            meta: json!({"layers": layers, "files": files.iter().map(|f| f.1.len()).collect::<Vec<_>>()}),
        });
    }
    // ---- (3) any one recipient, at any position among other candidate keys; no other key
    let n3 = if thorough { 200 } else { 30 };
    for k in 0..n3 {
        let layers = if k % 2 == 0 { L_ENC } else { L_ENC | L_COMP };
        // mostly small sets; every tenth a large one (the header grows by 48 bytes per recipient)
        let nrec = if k % 10 == 9 { *rng.pick(&[84u64, 85, 86, 100, 300]) } else { rng.range(1, 6) };
        let calls = if nrec >= 2 { rng.range(1, 3.min(nrec)) as usize } else { 1 };
        let rec_secrets: Vec<StaticSecret> = (0..nrec).map(|i| fixed_secret(100 + k as u64 * 1000 + i)).collect();
        let recs: Vec<PublicKey> = rec_secrets.iter().map(PublicKey::from).collect();
        let files = vec![(b"f".to_vec(), rng.bytes(150)), (b"g".to_vec(), vec![1u8; 70])];
        let mut msg: Option<String> = None;
        let built = build_fixed_calls(layers, &recs, &files, calls);
        let s = match built {
            Ok(s) => s,
            Err(e) => {
                out.case(&Case {
                    id: format!("c07-rec-{k}"), model_fn: "", args: vec![], imp: json!([]), oracle_ok: false,
                    oracle_msg: format!("an archive for {nrec} recipients (given in {calls} calls) cannot be created / its header cannot be parsed: {e}"),
                    class: format!("recipients layers={layers} n={} calls={calls}", if nrec > 6 { "many".to_string() } else { nrec.to_string() }), nontrivial: true, meta: json!({"layers": layers, "recipients": nrec}),
                });
                continue;
            }
        };
        let decoy = |i: u64| fixed_secret(900_000 + k as u64 * 10 + i);
        let read_all = |keys: &[StaticSecret]| -> Result<Vec<(Vec<u8>, Vec<u8>)>, String> {
            let mut cfg = ArchiveReaderConfig::new();
            cfg.add_private_keys(keys);
            let mut rd = ArchiveReader::from_config(Cursor::new(s.bytes.as_slice()), cfg).map_err(|e| format!("{e:?}"))?;
            let mut names: Vec<String> = rd.list_files().map_err(|e| format!("{e:?}"))?.cloned().collect();
            names.sort();
            let mut v = Vec::new();
            for n in names {
                let mut f = rd.get_file(n.clone()).map_err(|e| format!("{e:?}"))?.ok_or("missing")?;
                let mut d = Vec::new();
                std::io::Read::read_to_end(&mut f.data, &mut d).map_err(|e| format!("{e:?}"))?;
                v.push((n.into_bytes(), d));
            }
            Ok(v)
        };
        let mut expected = files.clone();
        expected.sort();
        // every recipient, at several positions
        for (ri, rs) in rec_secrets.iter().enumerate() {
            // large sets: first, last, the ones around a call boundary and a few others
            if nrec > 8 && !(ri == 0 || ri + 1 == nrec as usize || ri % 37 == 0 || ri == (nrec as usize + calls - 1) / calls || ri + 1 == (nrec as usize + calls - 1) / calls) {
                continue;
            }
            let before = rng.range(0, 3);
            let after = rng.range(0, 2);
            let mut keys: Vec<StaticSecret> = (0..before).map(decoy).collect();
            keys.push(rs.clone());
            keys.extend((0..after).map(|i| decoy(5 + i)));
            match catch(|| read_all(&keys)) {
                Ok(Ok(v)) if v == expected => {}
                Ok(Ok(_)) => msg = Some(format!("recipient {ri} of {nrec} (after {before} other keys): files differ from what was written")),
                Ok(Err(e)) => msg = Some(format!("recipient {ri} of {nrec} (after {before} other candidate keys, before {after}) cannot open the archive: {e}")),
                Err(p) => msg = Some(format!("opening panicked: {p}")),
            }
        }
        // no recipient key: must fail
        let only_decoys: Vec<StaticSecret> = (0..rng.range(1, 4)).map(decoy).collect();
        match catch(|| read_all(&only_decoys)) {
            Ok(Ok(_)) => msg = Some("the archive opens with keys that belong to no recipient".into()),
            Ok(Err(_)) => {}
            Err(p) => msg = Some(format!("opening with a wrong key panicked: {p}")),
        }
        match catch(|| read_all(&[])) {
            Ok(Ok(_)) => msg = Some("the archive opens without any key".into()),
            Ok(Err(_)) => {}
            Err(p) => msg = Some(format!("opening without key panicked: {p}")),
        }
        out.case(&Case {
            id: format!("c07-rec-{k}"),
            model_fn: "",
            args: vec![],
            imp: json!([]),
            oracle_ok: msg.is_none(),
            oracle_msg: msg.unwrap_or_default(),
            class: format!("recipients layers={layers} n={} calls={calls}", if nrec > 6 { "many".to_string() } else { nrec.to_string() }),
            nontrivial: true,
            meta: json!({"layers": layers, "recipients": nrec, "add_public_keys_calls": calls}),
        });
    }
}

/// One key ring, several archives: a reader configuration that has loaded the header of one encrypted
/// archive and then loads the header of another one (probing a set of archives with the same candidate
/// keys) must end up with the key and nonce of the archive it loaded LAST, and reading that archive with
/// a configuration that went through this must succeed.
pub fn c07_keyring_cases(rng: &mut Rng, tier: &str, out: &mut Out) {
    let n = if tier == "thorough" { 40 } else { 8 };
    for k in 0..n {
        let sk_a = fixed_secret(7_000 + k as u64);
        let sk_b = fixed_secret(8_000 + k as u64);
        let both = vec![PublicKey::from(&sk_a), PublicKey::from(&sk_b)];
        let f1 = vec![(b"one".to_vec(), rng.bytes(90))];
        let f2 = vec![(b"two".to_vec(), rng.bytes(200))];
        let layers = if k % 2 == 0 { L_ENC } else { L_ENC | L_COMP };
        let mut msg: Option<String> = None;
        match (build_fixed(layers, &both[..1 + k % 2], &f1), build_fixed(layers, &both, &f2)) {
            (Ok(a1), Ok(a2)) => {
                let r = catch(|| -> Result<(), String> {
                    let mut cfg = ArchiveReaderConfig::new();
                    cfg.add_private_keys(&[sk_a.clone()]);
                    let h1 = ArchiveHeader::from(&mut Cursor::new(a1.bytes.as_slice())).map_err(|e| format!("{e:?}"))?;
                    cfg.load_persistent(h1.config).map_err(|e| format!("first header: {e:?}"))?;
                    let p1 = cfg.get_encrypt_parameters().ok_or("no parameters after the first header")?;
                    if p1.0.to_vec() != a1.key || p1.1.to_vec() != a1.nonce_cfg {
                        return Err("after loading the first header the configuration does not hold that archive's key and nonce".into());
                    }
                    let h2 = ArchiveHeader::from(&mut Cursor::new(a2.bytes.as_slice())).map_err(|e| format!("{e:?}"))?;
                    cfg.load_persistent(h2.config).map_err(|e| format!("second header: {e:?}"))?;
                    let p2 = cfg.get_encrypt_parameters().ok_or("no parameters after the second header")?;
                    if p2.0.to_vec() != a2.key || p2.1.to_vec() != a2.nonce_cfg {
                        return Err("a configuration that loaded two headers in turn holds the key / nonce of the FIRST archive, not of the one loaded last".into());
                    }
                    // and the second archive reads with it
                    let mut rd = ArchiveReader::from_config(Cursor::new(a2.bytes.as_slice()), cfg).map_err(|e| format!("second archive with the re-used configuration: {e:?}"))?;
                    let mut f = rd.get_file("two".to_string()).map_err(|e| format!("{e:?}"))?.ok_or("file missing")?;
                    let mut d = Vec::new();
                    std::io::Read::read_to_end(&mut f.data, &mut d).map_err(|e| format!("{e:?}"))?;
                    if d != f2[0].1 {
                        return Err("bytes differ".into());
                    }
                    Ok(())
                });
                match r {
                    Ok(Ok(())) => {}
                    Ok(Err(e)) => msg = Some(e),
                    Err(p) => msg = Some(format!("panicked: {p}")),
                }
            }
            (Err(e), _) | (_, Err(e)) => msg = Some(format!("building an archive failed: {e}")),
        }
        out.case(&Case {
            id: format!("c07-keyring-{k}"),
            model_fn: "",
            args: vec![],
            imp: json!([]),
            oracle_ok: msg.is_none(),
            oracle_msg: msg.unwrap_or_default(),
            class: format!("one-key-ring-two-archives layers={layers}"),
            nontrivial: true,
            meta: json!({"layers": layers}),
        });
    }
}

// ====================================================================================== c07-model
// Work package c07rng: model-compared rows (coq/theories/RunC07.v), scaled build.

fn jrows(rows: &[Vec<u8>]) -> serde_json::Value {
    serde_json::Value::Array(rows.iter().map(|r| jbytes(r)).collect())
}

/// the names of the footer of a block stream, in stored (HashMap iteration) order
fn footer_names_c07(inner: &[u8]) -> Option<Vec<Vec<u8>>> {
    if inner.len() < 4 {
        return None;
    }
    let fl = u32::from_le_bytes(inner[inner.len() - 4..].try_into().ok()?) as usize;
    if fl + 4 > inner.len() {
        return None;
    }
    let f = &inner[inner.len() - 4 - fl..inner.len() - 4];
    let mut p = 0usize;
    let u64at = |p: &mut usize| -> Option<u64> {
        let v = u64::from_le_bytes(f.get(*p..*p + 8)?.try_into().ok()?);
        *p += 8;
        Some(v)
    };
    let n = u64at(&mut p)?;
    let mut names = Vec::new();
    for _ in 0..n {
        let nl = u64at(&mut p)? as usize;
        names.push(f.get(p..p + nl)?.to_vec());
        p += nl;
        let no = u64at(&mut p)? as usize;
        p += 8 * no + 16;
    }
    if p != fl { None } else { Some(names) }
}

/// remove the encryption layer with `aes-gcm` alone (scaled: CHUNK = 64, TAG = 16)
fn open_body_c07(key: &[u8], nonce: &[u8], body: &[u8]) -> Result<Vec<u8>, String> {
    use aes_gcm::aead::{Aead, KeyInit, Payload};
    let c = aes_gcm::Aes256Gcm::new_from_slice(key).map_err(|_| "key length")?;
    let mut plain = Vec::new();
    let mut p = 0usize;
    let mut i = 0u32;
    while p < body.len() {
        let l = (body.len() - p).min(64 + 16);
        if l < 16 {
            return Err(format!("{} stray bytes at the end of the body", l));
        }
        let mut n = [0u8; 12];
        n[..8].copy_from_slice(nonce);
        n[8..].copy_from_slice(&i.to_be_bytes());
        let m = c.decrypt((&n).into(), Payload { msg: &body[p..p + l], aad: b"" })
            .map_err(|_| format!("chunk {i} at body offset {p} does not authenticate under the configuration's key and nonce ++ BE32({i}): bytes that did not go through the cipher?"))?;
        plain.extend_from_slice(&m);
        p += l;
        i += 1;
    }
    Ok(plain)
}

#[cfg(feature = "scaled")]
pub fn c07_model_cases(rng: &mut Rng, tier: &str, out: &mut Out) {
    use rand::{Rng as _, RngCore, SeedableRng};
    let thorough = tier == "thorough";
    // ---- (a) body of ENCRYPT-only archives, flushes at random positions == enc_format (concrete AES-GCM)
    let na = if thorough { 80 } else { 16 };
    for k in 0..na {
        let nfiles = rng.range(1, 3) as usize;
        let names: Vec<Vec<u8>> = (0..nfiles).map(|f| format!("n{k}-{f}-{}", hex::encode(rng.bytes(3))).into_bytes()).collect();
        let recs = vec![PublicKey::from(&fixed_secret(1))];
        let mut cfg = ArchiveWriterConfig::new();
        cfg.set_layers(layers_of(L_ENC));
        cfg.add_public_keys(&recs);
        let key = cfg.encryption_key().to_vec();
        let nonce = cfg.encryption_nonce().to_vec();
        let mut calls: Vec<Vec<u64>> = Vec::new();
        let mut contents: Vec<Vec<u8>> = vec![Vec::new(); nfiles];
        let mut flushes = 0usize;
        let mut pieces: Vec<Vec<u8>> = Vec::new();
        let res: Result<Vec<u8>, String> = (|| {
            let mut w = ArchiveWriter::from_config(Vec::new(), cfg).map_err(|e| format!("{e:?}"))?;
            let mut maybe_flush = |w: &mut ArchiveWriter<Vec<u8>>, calls: &mut Vec<Vec<u64>>, rng: &mut Rng| -> Result<(), String> {
                let n = *rng.pick(&[0usize, 0, 1, 1, 2]);
                for _ in 0..n {
                    w.flush().map_err(|e| format!("flush: {e:?}"))?;
                    calls.push(vec![4]);
                    flushes += 1;
                }
                Ok(())
            };
            let mut ids = Vec::new();
            for n in &names {
                maybe_flush(&mut w, &mut calls, rng)?;
                let id = w.start_file(std::str::from_utf8(n).unwrap()).map_err(|e| format!("{e:?}"))?;
                let mut c = vec![0u64];
                c.extend(n.iter().map(|b| *b as u64));
                calls.push(c);
                ids.push(id);
            }
            let npieces = rng.range(1, 5);
            for _ in 0..npieces {
                let f = rng.below(nfiles as u64) as usize;
                let l = *rng.pick(&[0usize, 1, 23, 24, 25, 40, 63, 64, 65, 100, 130]);
                let data = rng.bytes(l);
                maybe_flush(&mut w, &mut calls, rng)?;
                w.append_file_content(ids[f], data.len() as u64, data.as_slice()).map_err(|e| format!("{e:?}"))?;
                let mut c = vec![1u64, ids[f]];
                c.extend(data.iter().map(|b| *b as u64));
                calls.push(c);
                contents[f].extend_from_slice(&data);
                pieces.push(data);
            }
            for id in &ids {
                maybe_flush(&mut w, &mut calls, rng)?;
                w.end_file(*id).map_err(|e| format!("{e:?}"))?;
                calls.push(vec![2, *id]);
            }
            maybe_flush(&mut w, &mut calls, rng)?;
            w.finalize().map_err(|e| format!("{e:?}"))?;
            Ok(w.into_raw())
        })();
        let id = format!("c07-body-{k}");
        let bytes = match res {
            Ok(b) => b,
            Err(e) => {
                out.case(&Case { id, model_fn: "", args: vec![], imp: json!([]), oracle_ok: false, oracle_msg: format!("valid writer calls failed: {e}"),
                                 class: "body build-failed".into(), nontrivial: true, meta: json!({}) });
                continue;
            }
        };
        let mut c = Cursor::new(bytes.as_slice());
        let hl = match ArchiveHeader::from(&mut c) { Ok(_) => c.position() as usize, Err(_) => 0 };
        let body = &bytes[hl..];
        // oracle (aes-gcm only): every byte after the header belongs to a chunk that authenticates under the
        // configuration's key / nonce, and the decrypted stream holds the names and contents written
        let mut msg: Option<String> = None;
        let mut names_order: Vec<Vec<u8>> = Vec::new();
        match open_body_c07(&key, &nonce, body) {
            Ok(plain) => {
                for (n, ct) in names.iter().zip(contents.iter()) {
                    if find_sub(&plain, n).is_none() { msg = Some("a file name is missing from the decrypted body".into()); }
                    let _ = ct;
                    for w in n.windows(8.min(n.len())) {
                        if find_sub(body, w).is_some() { msg = Some("8 bytes of a file name appear in clear in the body".into()); }
                    }
                }
                for pc in &pieces {
                    if !pc.is_empty() && find_sub(&plain, pc).is_none() { msg = Some("a piece of content is missing from the decrypted body".into()); }
                    if pc.len() >= 8 && find_sub(body, &pc[..8]).is_some() { msg = Some("8 bytes of a file content appear in clear in the body".into()); }
                }
                match footer_names_c07(&plain) { Some(v) => names_order = v, None => msg = Some("the decrypted body has no parsable footer".into()) }
            }
            Err(e) => msg = Some(e),
        }
        let ntab = body.len() / 80 + 2;
        let rows = vec![vec![0u64], body.iter().map(|b| *b as u64).collect::<Vec<u64>>()];
        out.case(&Case {
            id, model_fn: if msg.is_none() { "c07_body" } else { "" },
            args: vec![jbytes(&key), jbytes(&nonce), json!(ntab), jrows(&names_order), json!(calls)],
            imp: json!(rows), oracle_ok: msg.is_none(), oracle_msg: msg.unwrap_or_default(),
            class: format!("body files={nfiles} flushes={} chunks={}", match flushes { 0 => "0", 1..=2 => "1-2", _ => "3+" }, match body.len() / 80 { 0 => "1", 1..=2 => "2-3", _ => "4+" }),
            nontrivial: contents.iter().any(|c| !c.is_empty()) || flushes > 0,
            meta: json!({"flushes": flushes, "body_len": body.len()}),
        });
    }
    // ---- (b) the generator machine: ChaChaRng::from_seed(seed) == Fresh.key_of / nonce_of / eph_of (concrete ChaCha20)
    let nb = if thorough { 40 } else { 10 };
    for k in 0..nb {
        let mut seed = [0u8; 32];
        if k > 0 { seed.copy_from_slice(&rng.bytes(32)); }
        let mut g = rand_chacha::ChaChaRng::from_seed(seed);
        let key = g.random::<[u8; 32]>();
        let nonce = g.random::<[u8; 8]>();
        let mut g2 = rand_chacha::ChaChaRng::from_seed(seed);
        let mut eph = [0u8; 32];
        g2.fill_bytes(&mut eph);
        // oracle (restated independently): the raw stream once, every fourth byte of it
        let mut g3 = rand_chacha::ChaChaRng::from_seed(seed);
        let mut raw = [0u8; 160];
        g3.fill_bytes(&mut raw);
        let every4: Vec<u8> = raw.iter().step_by(4).cloned().collect();
        let ok = every4[..32] == key[..] && every4[32..40] == nonce[..] && raw[..32] == eph[..];
        out.case(&Case {
            id: format!("c07-draw-{k}"), model_fn: "c07_draw", args: vec![jbytes(&seed)],
            imp: jrows(&[key.to_vec(), nonce.to_vec(), eph.to_vec()]), oracle_ok: ok,
            oracle_msg: if ok { String::new() } else { "key / nonce are not the low bytes of the first 32 / next 8 output words, or fill_bytes(32) is not output bytes 0..31".into() },
            class: "draw".into(), nontrivial: true, meta: json!({}),
        });
    }
    // ---- (c) builder-path matrix
    let fixed: Vec<Vec<Vec<u64>>> = vec![
        vec![], vec![vec![0, 1]], vec![vec![0, 1], vec![0, 2]], vec![vec![1, 1]], vec![vec![1, 1], vec![1, 2], vec![0, 1]],
        vec![vec![2, 1]], vec![vec![2, 3], vec![1, 2]], vec![vec![3, 1]], vec![vec![3, 0], vec![3, 2], vec![3, 1]],
        vec![vec![0, 1], vec![3, 1], vec![1, 1], vec![0, 1]], vec![vec![4, 0]], vec![vec![4, 12], vec![4, 11], vec![0, 2]],
        vec![vec![2, 0], vec![3, 1], vec![2, 1]], vec![vec![1, 3], vec![0, 3], vec![3, 2], vec![4, 9], vec![1, 2]],
    ];
    let nrand = if thorough { 40 } else { 6 };
    let mut seqs = fixed;
    for _ in 0..nrand {
        let n = rng.range(1, 7);
        seqs.push((0..n).map(|_| { let op = rng.below(5); vec![op, match op { 3 => rng.below(3), 4 => rng.below(14), _ => rng.range(0, 3) }] }).collect());
    }
    let mut seen: Vec<(Vec<u8>, Vec<u8>)> = Vec::new();
    for (k, seq) in seqs.iter().enumerate() {
        for start in 0..2u64 {
            let mut cfg = if start == 0 { ArchiveWriterConfig::new() } else { ArchiveWriterConfig::default() };
            let key0 = cfg.encryption_key().to_vec();
            let nonce0 = cfg.encryption_nonce().to_vec();
            for op in seq {
                match op[0] {
                    0 => { cfg.enable_layer(mla::Layers::from_bits_retain(op[1] as u8)); }
                    1 => { cfg.disable_layer(mla::Layers::from_bits_retain(op[1] as u8)); }
                    2 => { cfg.set_layers(mla::Layers::from_bits_retain(op[1] as u8)); }
                    3 => { let ks: Vec<PublicKey> = (0..op[1]).map(|i| PublicKey::from(&fixed_secret(i))).collect(); cfg.add_public_keys(&ks); }
                    _ => { let _ = cfg.with_compression_level(op[1] as u32); }
                }
            }
            let key1 = cfg.encryption_key().to_vec();
            let nonce1 = cfg.encryption_nonce().to_vec();
            let enc = cfg.is_layers_enabled(mla::Layers::ENCRYPT) as u8;
            let comp = cfg.is_layers_enabled(mla::Layers::COMPRESS) as u8;
            let chk = if cfg.check().is_ok() { 0u8 } else { 1 };
            let mut msg = None;
            if key0 != key1 || nonce0 != nonce1 { msg = Some("a builder changed the key or the nonce of the configuration".to_string()); }
            if key1.iter().all(|b| *b == 0) || nonce1.iter().all(|b| *b == 0) { msg = Some("all-zero key or nonce after the builders".into()); }
            if seen.iter().any(|(a, b)| *a == key1 || *b == nonce1) { msg = Some("two configurations share the key or the nonce".into()); }
            seen.push((key1.clone(), nonce1.clone()));
            out.case(&Case {
                id: format!("c07-builders-{k}-{start}"), model_fn: "c07_builders",
                args: vec![json!(start), jbytes(&key0), jbytes(&nonce0), json!(seq)],
                imp: jrows(&[vec![enc, comp], key1, nonce1, vec![chk]]), oracle_ok: msg.is_none(), oracle_msg: msg.unwrap_or_default(),
                class: format!("builders start={} len={}", if start == 0 { "new" } else { "default" }, match seq.len() { 0 => "0", 1 => "1", 2..=3 => "2-3", _ => "4+" }),
                nontrivial: !seq.is_empty(), meta: json!({"seq": seq}),
            });
        }
    }
}
