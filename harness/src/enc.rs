//! Encryption layer: builders (scaled flavour uses the mla_verif constructors), op runner,
//! C11 case generation.
#![allow(dead_code)]
use crate::util::*;
use serde_json::{json, Value};
use std::io::{Cursor, Read, Seek, SeekFrom, Write};

#[cfg(feature = "scaled")]
pub use scaled::*;

pub const KEY: [u8; 32] = [7u8; 32];
pub const NONCE: [u8; 8] = [9u8; 8];

/// ops: [kind, a, b]; kind 0 read(a) | 1 seek Start(a) | 2 seek Current(sign a, magnitude b) | 3 seek End(sign a, magnitude b)
pub fn op_to_seek(op: &[u64]) -> Option<SeekFrom> {
    // magnitude 2^63 with sign 1 is i64::MIN (wrapping_neg keeps it; every other value as before)
    let signed = |s: u64, m: u64| if s == 1 { (m as i64).wrapping_neg() } else { m as i64 };
    match op[0] {
        1 => Some(SeekFrom::Start(op[1])),
        2 => Some(SeekFrom::Current(signed(op[1], op[2]))),
        3 => Some(SeekFrom::End(signed(op[1], op[2]))),
        _ => None,
    }
}

/// Random in-range history over a stream of length `len`, biased to the edges of `unit`.
pub fn gen_ops(rng: &mut Rng, len: u64, unit: u64, n: usize, max_read: u64) -> Vec<Vec<u64>> {
    let mut ops = Vec::new();
    let mut pos: u64 = 0; // the oracle position, to keep Current targets in range
    let interesting = |rng: &mut Rng| -> u64 {
        let mut c: Vec<u64> = vec![0, len, len.saturating_sub(1), len.saturating_sub(16), len / 2];
        let k = rng.below(len / unit + 2);
        for d in [0i64, -1, 1, -16, 16, -17] {
            let v = (k * unit) as i64 + d;
            if v >= 0 {
                c.push(v as u64);
            }
        }
        c.push(rng.below(len + 1));
        let v = *rng.pick(&c);
        v.min(len)
    };
    for _ in 0..n {
        match rng.below(10) {
            0..=3 => {
                let sizes = [0, 1, 2, 7, 13, unit - 1, unit, unit + 1, 2 * unit + 3, max_read];
                let nrd = (*rng.pick(&sizes)).min(max_read);
                ops.push(vec![0, nrd, 0]);
                // the position after a read is tracked by the caller's oracle; approximate here
                pos = (pos + nrd).min(len);
            }
            4..=6 => {
                let t = interesting(rng);
                ops.push(vec![1, t, 0]);
                pos = t;
            }
            7..=8 => {
                let t = interesting(rng);
                // relative to the approximate position; corrected at run time by run_ops
                if t >= pos {
                    ops.push(vec![2, 0, t - pos]);
                } else {
                    ops.push(vec![2, 1, pos - t]);
                }
                pos = t;
            }
            _ => {
                let t = interesting(rng);
                ops.push(vec![3, if t == len { 0 } else { 1 }, len - t]);
                pos = t;
            }
        }
    }
    ops
}

/// Make every `Current` op of a history in-range w.r.t. the exact cursor positions
/// (reads are single `read` calls whose length the oracle decides).
pub fn fix_ops_for_oracle(ops: &mut Vec<Vec<u64>>, plain_len: u64, single_read_limit: impl Fn(u64, u64) -> u64) {
    let mut pos = 0u64;
    for op in ops.iter_mut() {
        match op[0] {
            0 => {
                let k = single_read_limit(pos, op[1]).min(plain_len - pos);
                pos += k;
            }
            1 => pos = op[1],
            2 => {
                let d = if op[1] == 1 { -(op[2] as i64) } else { op[2] as i64 };
                let mut t = pos as i64 + d;
                if t < 0 {
                    t = 0;
                }
                if t as u64 > plain_len {
                    t = plain_len as i64;
                }
                let t = t as u64;
                if t >= pos {
                    op[1] = 0;
                    op[2] = t - pos;
                } else {
                    op[1] = 1;
                    op[2] = pos - t;
                }
                pos = t;
            }
            _ => pos = plain_len - op[2],
        }
    }
}

#[cfg(feature = "scaled")]
mod scaled {
    use super::*;
    use mla::layers::encrypt::{
        EncryptionConfig, EncryptionLayerFailSafeReader, EncryptionLayerReader, EncryptionLayerWriter,
        EncryptionReaderConfig, VERIF_CONSTANTS,
    };
    use mla::layers::raw::{RawLayerFailSafeReader, RawLayerReader, RawLayerWriter};
    use mla::layers::traits::{LayerReader, LayerWriter};

    pub fn chunk() -> u64 {
        VERIF_CONSTANTS.0
    }
    pub fn cipherbuf() -> u64 {
        VERIF_CONSTANTS.1
    }
    pub fn tag() -> u64 {
        VERIF_CONSTANTS.2
    }

    /// The encryption layer's wire bytes for `plain`, written in the given pieces.
    pub fn enc_layer_bytes(plain: &[u8], piece: usize) -> Vec<u8> {
        let mut w = Box::new(
            EncryptionLayerWriter::new(
                Box::new(RawLayerWriter::new(Vec::new())),
                &EncryptionConfig::verif_new(KEY, NONCE),
            )
            .unwrap(),
        );
        if piece == 0 {
            w.write_all(plain).unwrap();
        } else {
            for c in plain.chunks(piece) {
                w.write_all(c).unwrap();
            }
        }
        w.finalize().unwrap();
        w.into_raw()
    }

    pub type EncR = EncryptionLayerReader<'static, Cursor<Vec<u8>>>;

    pub fn enc_reader(wire: Vec<u8>) -> Result<EncR, String> {
        let mut r = EncryptionLayerReader::new(
            Box::new(RawLayerReader::new(Cursor::new(wire))),
            &EncryptionReaderConfig::verif_new(KEY, NONCE, false),
        )
        .map_err(|e| format!("{e:?}"))?;
        r.initialize().map_err(|e| format!("{e:?}"))?;
        Ok(r)
    }

    pub fn enc_failsafe_read_all(wire: &[u8], unauth: bool, bufsize: usize) -> Result<(Vec<u8>, Option<String>), String> {
        catch(|| {
            let mut r = match EncryptionLayerFailSafeReader::new(
                Box::new(RawLayerFailSafeReader::new(wire)),
                &EncryptionReaderConfig::verif_new(KEY, NONCE, unauth),
            ) {
                Ok(r) => r,
                Err(e) => return (Vec::new(), Some(format!("new: {e:?}"))),
            };
            let mut out = Vec::new();
            let mut buf = vec![0u8; bufsize.max(1)];
            let mut zeros = 0;
            loop {
                match r.read(&mut buf) {
                    Ok(0) => {
                        zeros += 1;
                        // keep reading a few times after the first 0: nothing may follow
                        if zeros >= 3 {
                            return (out, None);
                        }
                    }
                    Ok(n) => {
                        if zeros > 0 {
                            return (out, Some(format!("data after end of stream: {n} bytes")));
                        }
                        out.extend_from_slice(&buf[..n]);
                    }
                    Err(e) => return (out, Some(format!("{:?}", e.kind()))),
                }
            }
        })
    }

    /// Run a history on the real reader; one observation row per op:
    /// [status, value, inner_pos, chunk_no, cache_pos, cache_len, bytes...]
    pub fn run_ops_enc<R: std::io::Read + std::io::Seek + 'static>(r: &mut EncryptionLayerReader<'static, R>, ops: &[Vec<u64>]) -> Vec<Vec<u64>> {
        let mut rows = Vec::new();
        for op in ops {
            let row = catch(|| {
                let (st, val, bytes) = if op[0] == 0 {
                    let mut buf = vec![0u8; op[1] as usize];
                    match r.read(&mut buf) {
                        Ok(n) => (0u64, n as u64, buf[..n].to_vec()),
                        Err(_) => (1, 0, vec![]),
                    }
                } else {
                    match r.seek(op_to_seek(op).unwrap()) {
                        Ok(p) => (0, p, vec![]),
                        Err(_) => (1, 0, vec![]),
                    }
                };
                let mut row = vec![st, val];
                if st == 0 {
                    let (ip, cn, cp, cl) = r.verif_state().unwrap();
                    row.extend_from_slice(&[ip, cn as u64, cp, cl as u64]);
                    row.extend(bytes.iter().map(|b| *b as u64));
                }
                row
            });
            match row {
                Ok(row) => rows.push(row),
                Err(_) => {
                    rows.push(vec![2]);
                    break;
                }
            }
        }
        rows
    }

    /// The property's own oracle: std::io::Cursor over the plaintext. Reads are compared as
    /// "k bytes, k = 0 only at the end or for n = 0, all bytes equal" (short reads allowed).
    pub fn oracle_cursor(plain: &[u8], ops: &[Vec<u64>], rows: &[Vec<u64>]) -> Result<(), String> {
        let mut c = Cursor::new(plain.to_vec());
        if rows.len() != ops.len() {
            return Err(format!("crash at op {}", rows.len().saturating_sub(1)));
        }
        for (i, (op, row)) in ops.iter().zip(rows).enumerate() {
            if row[0] != 0 {
                return Err(format!("op {i} {op:?}: status {}", row[0]));
            }
            if op[0] == 0 {
                let k = row[1] as usize;
                let got: Vec<u8> = row[6..].iter().map(|x| *x as u8).collect();
                let mut exp = vec![0u8; k];
                let pos = c.position() as usize;
                let avail = plain.len().saturating_sub(pos);
                if k > op[1] as usize || k > avail {
                    return Err(format!("op {i} {op:?}: returned {k} bytes, {avail} available"));
                }
                if k == 0 && op[1] > 0 && avail > 0 {
                    return Err(format!("op {i} {op:?}: premature end of stream at {pos}"));
                }
                c.read_exact(&mut exp).unwrap();
                if got != exp {
                    return Err(format!("op {i} {op:?}: bytes differ at {pos}"));
                }
            } else {
                let p = c.seek(op_to_seek(op).unwrap()).map_err(|e| format!("oracle seek: {e}"))?;
                if p != row[1] {
                    return Err(format!("op {i} {op:?}: position {} expected {p}", row[1]));
                }
            }
        }
        Ok(())
    }

    pub fn c11_enc_cases(rng: &mut Rng, tier: &str, out: &mut Out) {
        let ch = chunk();
        let maxlen = if tier == "thorough" { 4 * ch + 20 } else { 2 * ch + 20 };
        let reps = if tier == "thorough" { 4 } else { 1 };
        for len in 0..=maxlen {
            for rep in 0..reps {
                let plain = rng.bytes(len as usize);
                let piece = *rng.pick(&[0usize, 1, 5, 23, 24, 25, 63, 64, 65]);
                let wire = enc_layer_bytes(&plain, piece);
                let mut ops = gen_ops(rng, len, ch, 30, 3 * ch);
                fix_ops_for_oracle(&mut ops, len, |pos, n| n.min(ch - pos % ch));
                let (rows, open_err) = match enc_reader(wire.clone()) {
                    Ok(mut r) => (run_ops_enc(&mut r, &ops), None),
                    Err(e) => (vec![], Some(e)),
                };
                let oracle = match &open_err {
                    Some(e) => Err(format!("open failed: {e}")),
                    None => oracle_cursor(&plain, &ops, &rows),
                };
                let class = format!(
                    "len%chunk={} chunks={}",
                    match len % ch { 0 => "0".to_string(), r if r < 16 => "<tag".to_string(), r if r == ch - 1 => "chunk-1".into(), _ => "mid".into() },
                    len / ch
                );
                // the same history over a source that returns fewer bytes than asked on every read (any conforming
                // reader may): same rows, state columns included (a chunk is loaded whole whatever the source's cuts)
                if rep == 0 && len % 3 == 1 {
                    let sched: Vec<usize> = (0..5).map(|_| *rng.pick(&[1usize, 2, 7, 13, 23, 24, 25, 64, 87])).collect();
                    let thr = (|| -> Result<Vec<Vec<u64>>, String> {
                        let src = crate::util::ThrottledReader::new(Cursor::new(wire.clone()), sched.clone());
                        let mut r = EncryptionLayerReader::new(Box::new(RawLayerReader::new(src)), &EncryptionReaderConfig::verif_new(KEY, NONCE, false)).map_err(|e| format!("{e:?}"))?;
                        r.initialize().map_err(|e| format!("{e:?}"))?;
                        Ok(run_ops_enc(&mut r, &ops))
                    })();
                    let (trows, toracle) = match thr {
                        Ok(rows) => {
                            let o = oracle_cursor(&plain, &ops, &rows);
                            (rows, o)
                        }
                        Err(e) => (vec![], Err(format!("open over a short-read source failed: {e}"))),
                    };
                    out.case(&Case {
                        id: format!("c11-enc-thr-L{len}"),
                        model_fn: "c11_enc",
                        args: vec![jbytes(&plain), json!(ops)],
                        imp: json!(trows),
                        oracle_ok: toracle.is_ok(),
                        oracle_msg: toracle.err().unwrap_or_default(),
                        class: format!("short-read source; {class}"),
                        nontrivial: len > 0,
                        meta: json!({"len": len, "sched": sched}),
                    });
                }
                out.case(&Case {
                    id: format!("c11-enc-L{len}-r{rep}"),
                    model_fn: "c11_enc",
                    args: vec![jbytes(&plain), json!(ops)],
                    imp: json!(rows),
                    oracle_ok: oracle.is_ok(),
                    oracle_msg: oracle.err().unwrap_or_default(),
                    class,
                    nontrivial: len > 0,
                    meta: json!({"len": len, "wire_len": wire.len(), "piece": piece}),
                });
            }
        }
        c11_enc_oor_cases(rng, tier, out);
    }

    /// Out-of-range seeks on the REAL reader against the model (work package fixenc): the D20 guard of the Start
    /// arm (`no_tag_position_to_tag_position(pos)` would overflow u64 -> InvalidInput, nothing touched), the
    /// "chunk number out of range" exit after the inner layer was moved, and the i64 range tests of the Current /
    /// End arms.  Each history: a short in-range prefix, the out-of-range seek, then TWO reads (the state after the
    /// error: a reader whose inner layer was moved delivers the cached chunk, then a false end of stream), an
    /// in-range seek and a last read.  Status class, returned position and every state column of the rows must
    /// equal the model's (`c11_enc` of Run.v evaluates EncLayer.eseek / eread).  Outside the property's text (a
    /// cursor's seeks to [0, len]): no oracle.  `Current(i64::MAX)` is issued at position 0 only: from a position
    /// p > 0 the source's plain `i64 + i64` overflows (debug build: panic; release: wraps) — left out.
    pub fn c11_enc_oor_cases(rng: &mut Rng, tier: &str, out: &mut Out) {
        let ch = chunk();
        let cts = ch + tag();
        let t = u64::MAX / cts - 1; // the guard: pos / CHUNK > t is refused
        let last_ok = t * ch + (ch - 1);
        let first_bad = (t + 1) * ch;
        let i64max = i64::MAX as u64;
        // (name, op, must be issued at position 0)
        let mut seeks: Vec<(String, Vec<u64>, bool)> = vec![
            ("start-u64max".into(), vec![1, u64::MAX, 0], false),
            ("start-u64max-1".into(), vec![1, u64::MAX - 1, 0], false),
            ("start-u64max-chunk".into(), vec![1, u64::MAX - ch, 0], false),
            ("start-guard-first-refused".into(), vec![1, first_bad, 0], false),
            ("start-guard-last-accepted".into(), vec![1, last_ok, 0], false),
            ("start-2^63-1".into(), vec![1, (1u64 << 63) - 1, 0], false),
            ("start-2^63".into(), vec![1, 1u64 << 63, 0], false),
            ("start-2^63+1".into(), vec![1, (1u64 << 63) + 1, 0], false),
            ("start-2^32-chunks".into(), vec![1, (1u64 << 32) * ch, 0], false),
            ("start-2^32-chunks-1".into(), vec![1, (1u64 << 32) * ch - 1, 0], false),
            ("current-i64max-at-0".into(), vec![2, 0, i64max], true),
            ("current-i64min".into(), vec![2, 1, 1u64 << 63], false),
            ("end-1".into(), vec![3, 0, 1], false),
            ("end-i64max".into(), vec![3, 0, i64max], false),
            ("end-i64min".into(), vec![3, 1, 1u64 << 63], false),
            ("end-i64min+1".into(), vec![3, 1, i64max], false),
        ];
        let k = 1 + rng.below(ch);
        seeks.push((format!("start-u64max-k"), vec![1, u64::MAX - k, 0], false));
        let lens: Vec<u64> = if tier == "thorough" {
            vec![0, 1, 15, 16, ch - 1, ch, ch + 1, ch + 5, 2 * ch, 2 * ch + 20, 3 * ch + 7]
        } else {
            vec![0, 1, ch - 1, ch, ch + 5, 2 * ch, 2 * ch + 20]
        };
        for len in lens {
            let plain = rng.bytes(len as usize);
            let wire = enc_layer_bytes(&plain, 0);
            for (name, sk, at0) in &seeks {
                let mut ops: Vec<Vec<u64>> = Vec::new();
                if !*at0 {
                    // in-range prefix: a read, a seek into the stream (also across a chunk edge), a read
                    let p = rng.below(len + 1);
                    ops.push(vec![0, 1 + rng.below(ch), 0]);
                    ops.push(vec![1, p, 0]);
                    ops.push(vec![0, rng.below(9), 0]);
                    // below-zero targets relative to the position / the end
                    if name == "current-i64min" && rng.below(2) == 0 {
                        ops.push(vec![2, 1, len + 1 + rng.below(ch)]);
                        ops.push(vec![0, 3, 0]);
                    }
                    if name == "end-i64min" && rng.below(2) == 0 {
                        ops.push(vec![3, 1, len + 1 + rng.below(ch)]);
                        ops.push(vec![0, 3, 0]);
                    }
                } else if rng.below(2) == 0 {
                    ops.push(vec![1, 0, 0]); // still position 0
                }
                ops.push(sk.clone());
                ops.push(vec![0, 1 + rng.below(ch), 0]);
                ops.push(vec![0, 2 * ch, 0]);
                ops.push(vec![0, 5, 0]);
                ops.push(vec![1, rng.below(len + 1), 0]);
                ops.push(vec![0, ch + 3, 0]);
                ops.push(vec![2, 0, 0]);
                let (rows, open_err) = match enc_reader(wire.clone()) {
                    Ok(mut r) => (run_ops_enc(&mut r, &ops), None),
                    Err(e) => (vec![], Some(e)),
                };
                let oracle: Result<(), String> = match &open_err {
                    Some(e) => Err(format!("open failed: {e}")),
                    None => Ok(()),
                };
                out.case(&Case {
                    id: format!("c11-enc-oor-L{len}-{name}"),
                    model_fn: "c11_enc",
                    args: vec![jbytes(&plain), json!(ops)],
                    imp: json!(rows),
                    oracle_ok: oracle.is_ok(),
                    oracle_msg: oracle.err().unwrap_or_default(),
                    class: format!("out-of-range {name}"),
                    nontrivial: len > 0,
                    meta: json!({"len": len, "wire_len": wire.len(), "seek": sk}),
                });
            }
        }
    }

    // ---------------- witnesses of repaired defects (regression corpus) ----------------

    /// D9: SeekFrom::End on a plaintext whose length is a multiple of CHUNK.
    pub fn witness_d9() -> Result<(), String> {
        let ch = chunk() as usize;
        for len in [ch, 2 * ch, 3 * ch] {
            let plain: Vec<u8> = (0..len).map(|i| i as u8).collect();
            let mut r = enc_reader(enc_layer_bytes(&plain, 0))?;
            let p = catch(|| r.seek(SeekFrom::End(0))).map_err(|e| format!("panic: {e}"))?.map_err(|e| e.to_string())?;
            if p != len as u64 {
                return Err(format!("D9: seek(End(0)) on a {len}-byte stream returned {p}"));
            }
        }
        Ok(())
    }

    /// D10: stream_position inside a short last chunk (index >= 1).
    pub fn witness_d10() -> Result<(), String> {
        let ch = chunk();
        let len = 2 * ch + 10;
        let plain: Vec<u8> = (0..len).map(|i| i as u8).collect();
        let mut r = enc_reader(enc_layer_bytes(&plain, 0))?;
        let t = 2 * ch + 4;
        r.seek(SeekFrom::Start(t)).map_err(|e| e.to_string())?;
        let p = catch(|| r.stream_position()).map_err(|e| format!("panic: {e}"))?.map_err(|e| e.to_string())?;
        if p != t {
            return Err(format!("D10: stream_position after seek(Start({t})) is {p}"));
        }
        let p = r.seek(SeekFrom::Current(-3)).map_err(|e| e.to_string())?;
        if p != t - 3 {
            return Err(format!("D10: seek(Current(-3)) from {t} returned {p}"));
        }
        Ok(())
    }

    /// D1: final chunk of 1..15 bytes (truncated archive) must not panic.
    pub fn witness_d1() -> Result<(), String> {
        let ch = chunk() as usize;
        let plain: Vec<u8> = (0..2 * ch).map(|i| i as u8).collect();
        let wire = enc_layer_bytes(&plain, 0);
        for cut in 1..16usize {
            let w = &wire[..ch + 16 + cut];
            for unauth in [false, true] {
                let (out, _e) = enc_failsafe_read_all(w, unauth, 100).map_err(|e| format!("D1: fail-safe reader panicked at cut +{cut} ({e})"))?;
                if !plain.starts_with(&out[..out.len().min(plain.len())]) && !unauth {
                    return Err("D1: wrong bytes".into());
                }
            }
            // normal reader: seek into the truncated chunk
            let r = catch(|| {
                let mut r = match enc_reader(w.to_vec()) {
                    Ok(r) => r,
                    Err(_) => return,
                };
                let _ = r.seek(SeekFrom::Start(ch as u64));
                let mut b = [0u8; 8];
                let _ = r.read(&mut b);
            });
            if let Err(e) = r {
                return Err(format!("D1: normal reader panicked at cut +{cut} ({e})"));
            }
        }
        Ok(())
    }

    /// D3: in authenticated mode nothing may follow a chunk whose tag failed.
    pub fn witness_d3() -> Result<(), String> {
        let ch = chunk() as usize;
        let plain: Vec<u8> = (0..4 * ch).map(|i| (i * 3) as u8).collect();
        let mut wire = enc_layer_bytes(&plain, 0);
        wire[(ch + 16) + 5] ^= 1; // corrupt chunk 1
        let (out, err) = enc_failsafe_read_all(&wire, false, 50).map_err(|e| format!("panic {e}"))?;
        if let Some(e) = err {
            if e.starts_with("data after") {
                return Err(format!("D3: {e}"));
            }
        }
        if out.len() > ch {
            return Err(format!("D3: {} bytes returned, only chunk 0 ({} bytes) is before the failed chunk", out.len(), ch));
        }
        Ok(())
    }
}

pub fn witnesses() -> Vec<(&'static str, &'static str, fn() -> Result<(), String>)> {
    #[allow(unused_mut)]
    let mut v: Vec<(&'static str, &'static str, fn() -> Result<(), String>)> = Vec::new();
    #[cfg(feature = "scaled")]
    {
        v.push(("D9", "C11", witness_d9));
        v.push(("D10", "C11", witness_d10));
        v.push(("D1", "C02", witness_d1));
        v.push(("D3", "C04", witness_d3));
    }
    v
}

pub fn _unused(_: Value) {}
