//! C15: streaming keeps memory bounded independently of the amount of data. Peak live heap of
//! writing, repairing and linearly extracting archives of two sizes (same number of files and
//! of non-contiguous runs), measured by the counting global allocator of fuzz.rs.
#![allow(dead_code)]
use crate::archive::*;
use crate::fuzz::measure;
use crate::util::*;
use mla::config::{ArchiveReaderConfig, ArchiveWriterConfig};
use mla::helpers::linear_extract;
use mla::{ArchiveFailSafeReader, ArchiveReader, ArchiveWriter};
use serde_json::json;
use std::collections::HashMap;
use std::fs::File;
use std::io::{self, BufReader, Read, Write};
use x25519_dalek::{PublicKey, StaticSecret};

/// Deterministic data generator (text-like: compressible, not constant).
pub struct GenReader {
    pub left: u64,
    pub x: u64,
}
impl Read for GenReader {
    fn read(&mut self, buf: &mut [u8]) -> io::Result<usize> {
        let mut n = (buf.len() as u64).min(self.left) as usize;
        if self.x % 2 == 1 && n > 1 {
            // every other run comes from a pipe-like source: reads end anywhere (never on a "nice" size)
            n = n.min(1 + (self.left % 8191) as usize).min(7777);
        }
        for b in buf[..n].iter_mut() {
            self.x = self.x.wrapping_mul(6364136223846793005).wrapping_add(1442695040888963407);
            let r = (self.x >> 33) as u32;
            *b = if r % 5 == 0 { (r >> 8) as u8 } else { b"etaoin shrdlu\n"[(r % 14) as usize] };
        }
        self.left -= n as u64;
        Ok(n)
    }
}

/// A sink that only counts.
pub struct CountSink(pub u64);
impl Write for CountSink {
    fn write(&mut self, buf: &[u8]) -> io::Result<usize> {
        self.0 += buf.len() as u64;
        Ok(buf.len())
    }
    fn flush(&mut self) -> io::Result<()> {
        Ok(())
    }
}

const NAMES: [&str; 3] = ["big/a.bin", "big/b.bin", "c"];

/// Write three interleaved files of `total` bytes altogether in exactly 12 runs, whatever the size.
/// `single`: three runs only, each handed over in ONE append call (one content block per file, a
/// third of the data each — what `mlar create` / `add_file` produce), instead of 12 runs appended
/// in 1 MiB calls.
fn write_archive<W: Write>(dest: W, layers: u8, total: u64, recipient: &PublicKey, single: bool) -> Result<W, String> {
    let mut cfg = ArchiveWriterConfig::new();
    cfg.set_layers(layers_of(layers));
    if layers & L_ENC != 0 {
        cfg.add_public_keys(std::slice::from_ref(recipient));
    }
    let mut w = ArchiveWriter::from_config(dest, cfg).map_err(|e| format!("{e:?}"))?;
    let ids: Vec<u64> = NAMES.iter().map(|n| w.start_file(n).unwrap()).collect();
    let runs = if single { 3u64 } else { 12 };
    let run = total / 12 * 12 / runs;
    for r in 0..runs {
        let f = (r % 3) as usize;
        // each run is appended in 1 MiB calls, as a streaming producer does (or in one call)
        let mut left = run;
        let mut g = GenReader { left: run, x: 77 + r };
        while left > 0 {
            let n = if single { left } else { left.min(1 << 20) };
            w.append_file_content(ids[f], n, (&mut g).take(n)).map_err(|e| format!("{e:?}"))?;
            left -= n;
        }
    }
    for id in ids {
        w.end_file(id).map_err(|e| format!("{e:?}"))?;
    }
    w.finalize().map_err(|e| format!("{e:?}"))?;
    Ok(w.into_raw())
}

fn one(op: &str, layers: u8, total: u64, dir: &std::path::Path, sk: &StaticSecret, single: bool) -> Result<(usize, u64), String> {
    let pk = PublicKey::from(sk);
    let path = dir.join(format!("c15_{layers}_{total}_{}.mla", u8::from(single)));
    match op {
        "write" => {
            let (r, peak) = measure(|| write_archive(CountSink(0), layers, total, &pk, single));
            Ok((peak, r?.0))
        }
        _ => {
            if !path.exists() {
                let f = io::BufWriter::new(File::create(&path).map_err(|e| e.to_string())?);
                write_archive(f, layers, total, &pk, single)?.flush().map_err(|e| e.to_string())?;
            }
            let mut rc = ArchiveReaderConfig::new();
            rc.add_private_keys(std::slice::from_ref(sk));
            if op == "repair" {
                let (r, peak) = measure(|| -> Result<u64, String> {
                    let src = BufReader::new(File::open(&path).map_err(|e| e.to_string())?);
                    let mut fsr = ArchiveFailSafeReader::from_config(src, rc).map_err(|e| format!("{e:?}"))?;
                    let mut wc = ArchiveWriterConfig::new();
                    wc.set_layers(layers_of(0));
                    let mut w = ArchiveWriter::from_config(CountSink(0), wc).map_err(|e| format!("{e:?}"))?;
                    fsr.convert_to_archive(&mut w).map_err(|e| format!("{e:?}"))?;
                    Ok(w.into_raw().0)
                });
                Ok((peak, r?))
            } else {
                let (r, peak) = measure(|| -> Result<u64, String> {
                    let src = File::open(&path).map_err(|e| e.to_string())?;
                    let mut rd = ArchiveReader::from_config(src, rc).map_err(|e| format!("{e:?}"))?;
                    let names: Vec<String> = NAMES.iter().map(|s| s.to_string()).collect();
                    let mut export: HashMap<&String, CountSink> = names.iter().map(|n| (n, CountSink(0))).collect();
                    linear_extract(&mut rd, &mut export).map_err(|e| format!("{e:?}"))?;
                    Ok(export.values().map(|s| s.0).sum())
                });
                Ok((peak, r?))
            }
        }
    }
}

pub fn c15_cases(_rng: &mut Rng, tier: &str, out: &mut Out) {
    let (small, big): (u64, u64) = if tier == "thorough" { (24 << 20, 384 << 20) } else { (24 << 20, 96 << 20) };
    let dir = std::env::current_dir().unwrap();
    let sk = {
        let mut r = Rng::new(0xC15);
        let mut b = [0u8; 32];
        b.copy_from_slice(&r.bytes(32));
        StaticSecret::from(b)
    };
    let block: u64 = 4 << 20;
    for (layers, single) in (0..4u8).map(|l| (l, false)).chain((0..4u8).filter(|l| tier == "thorough" || *l == 0 || *l == 3).map(|l| (l, true))) {
        for op in ["write", "repair", "linear"] {
            let a = one(op, layers, small, &dir, &sk, single);
            let b = one(op, layers, big, &dir, &sk, single);
            let mut msg = None;
            let mut meta = json!({"op": op, "layers": layers, "small": small, "big": big, "one_block_per_file": single});
            match (a, b) {
                (Ok((pa, na)), Ok((pb, nb))) => {
                    meta["peak_small"] = json!(pa);
                    meta["peak_big"] = json!(pb);
                    meta["bytes_small"] = json!(na);
                    meta["bytes_big"] = json!(nb);
                    // the only table that grows with the data is the 4-byte-per-block size table of
                    // the compression layer (a Vec: allow its capacity doubling) plus allocator noise
                    let slack = (1usize << 20) + 16 * (big / block) as usize;
                    if pb > pa + slack {
                        msg = Some(format!("{op} (layers {layers}{}): peak live heap {pb} bytes for {big} bytes of data, {pa} for {small}: memory grows with the amount of data streamed", if single { ", one block per file" } else { "" }));
                    }
                    let ceiling = 80usize << 20;
                    if pb > ceiling {
                        msg = Some(format!("{op} (layers {layers}): peak live heap {pb} bytes exceeds {ceiling}"));
                    }
                    if op != "write" && (na != small / 12 * 12 && op == "linear" || nb == 0) {
                        msg = Some(format!("{op} (layers {layers}): {na} / {nb} bytes delivered"));
                    }
                }
                (Err(e), _) | (_, Err(e)) => msg = Some(format!("{op} (layers {layers}) failed: {e}")),
            }
            out.case(&Case {
                id: format!("c15-{op}-l{layers}{}", if single { "-oneblock" } else { "" }),
                model_fn: "",
                args: vec![],
                imp: json!([]),
                oracle_ok: msg.is_none(),
                oracle_msg: msg.unwrap_or_default(),
                class: format!("op={op} layers={layers} blocks={}", if single { "one-per-file" } else { "1MiB" }),
                nontrivial: true,
                meta,
            });
        }
        for t in [small, big] {
            let _ = std::fs::remove_file(dir.join(format!("c15_{layers}_{t}_{}.mla", u8::from(single))));
        }
    }
    // ONE file streamed as very many small CONTIGUOUS appends (a producer handing over 16 bytes at a time):
    // the writer keeps an offset per non-contiguous RUN, not per block - 100 000 and 1 000 000 appends use the same memory
    {
        let run = |nblocks: usize| -> Result<usize, String> {
            let (r, peak) = measure(|| -> Result<(), String> {
                let mut cfg = ArchiveWriterConfig::new();
                cfg.set_layers(layers_of(0));
                let mut w = ArchiveWriter::from_config(CountSink(0), cfg).map_err(|e| format!("{e:?}"))?;
                let id = w.start_file("stream").map_err(|e| format!("{e:?}"))?;
                let piece = [0x5Au8; 16];
                for _ in 0..nblocks {
                    w.append_file_content(id, 16, &piece[..]).map_err(|e| format!("{e:?}"))?;
                }
                w.end_file(id).map_err(|e| format!("{e:?}"))?;
                w.finalize().map_err(|e| format!("{e:?}"))?;
                Ok(())
            });
            r.map(|_| peak)
        };
        let (small_n, big_n) = if tier == "thorough" { (100_000, 3_000_000) } else { (100_000, 1_000_000) };
        let mut msg = None;
        let mut meta = json!({"small_blocks": small_n, "big_blocks": big_n});
        match (run(small_n), run(big_n)) {
            (Ok(a), Ok(b)) => {
                meta["peak_small"] = json!(a);
                meta["peak_big"] = json!(b);
                if b > a + (1 << 20) {
                    msg = Some(format!("one file written as {big_n} contiguous appends of 16 bytes: peak live heap {b} bytes, {a} for {small_n} appends: memory grows with the number of BLOCKS, not of runs"));
                }
            }
            (Err(e), _) | (_, Err(e)) => msg = Some(format!("writing failed: {e}")),
        }
        out.case(&Case {
            id: "c15-manyblocks".into(),
            model_fn: "",
            args: vec![],
            imp: json!([]),
            oracle_ok: msg.is_none(),
            oracle_msg: msg.unwrap_or_default(),
            class: "one file, many contiguous blocks".into(),
            nontrivial: true,
            meta,
        });
    }
    // file ids are opaque u64 in the format: an archive whose only file carries a LARGE id (6 000 000, 2^40) is
    // linearly extracted and repaired within the same memory as with id 0 (the tables are per file, not per id)
    for (which, id) in [(0usize, 0u64), (1, 6_000_000), (2, 1 << 40)] {
        let mut cfg = ArchiveWriterConfig::new();
        cfg.set_layers(layers_of(0));
        let mut w = ArchiveWriter::from_config(Vec::new(), cfg).unwrap();
        w.add_file("only", 4096, vec![7u8; 4096].as_slice()).unwrap();
        w.finalize().unwrap();
        let bytes = crate::repair::remap_ids(&w.into_raw(), 9, |_| id).unwrap();
        let mut msg = None;
        let mut meta = json!({"id": id});
        for op in ["linear", "repair"] {
            let b2 = bytes.clone();
            let (r, peak) = measure(move || -> Result<u64, String> {
                if op == "linear" {
                    let mut rd = ArchiveReader::from_config(io::Cursor::new(b2.as_slice()), ArchiveReaderConfig::new()).map_err(|e| format!("{e:?}"))?;
                    let name = "only".to_string();
                    let mut export: HashMap<&String, CountSink> = HashMap::new();
                    export.insert(&name, CountSink(0));
                    linear_extract(&mut rd, &mut export).map_err(|e| format!("{e:?}"))?;
                    Ok(export.values().map(|s| s.0).sum())
                } else {
                    let mut fsr = ArchiveFailSafeReader::from_config(io::Cursor::new(b2.as_slice()), ArchiveReaderConfig::new()).map_err(|e| format!("{e:?}"))?;
                    let mut wc = ArchiveWriterConfig::new();
                    wc.set_layers(layers_of(0));
                    let mut w = ArchiveWriter::from_config(CountSink(0), wc).map_err(|e| format!("{e:?}"))?;
                    fsr.convert_to_archive(&mut w).map_err(|e| format!("{e:?}"))?;
                    Ok(4096)
                }
            });
            meta[format!("peak_{op}")] = json!(peak);
            match r {
                Ok(n) if n == 4096 => {
                    // repair holds its 8 MiB copy buffer; linear extraction a few KiB
                    let ceiling = if op == "repair" { 12usize << 20 } else { 1 << 20 };
                    if peak > ceiling {
                        msg = Some(format!("{op} of an archive whose only file (4096 bytes) has id {id}: peak live heap {peak} bytes (ceiling {ceiling}): memory grows with the VALUE of a file id"));
                    }
                }
                Ok(n) => msg = Some(format!("{op} of an archive whose file has id {id} delivered {n} bytes")),
                Err(e) => msg = Some(format!("{op} of an archive whose file has id {id} failed: {e}")),
            }
        }
        out.case(&Case {
            id: format!("c15-bigid-{which}"),
            model_fn: "",
            args: vec![],
            imp: json!([]),
            oracle_ok: msg.is_none(),
            oracle_msg: msg.unwrap_or_default(),
            class: "large file id".into(),
            nontrivial: true,
            meta,
        });
    }
}
