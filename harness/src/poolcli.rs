//! Work package `extract`: the writer POOL of `mlar extract` (whole-archive form), model-compared.
//! The pool capacity is a constant of the binary (FILE_WRITER_POOL_SIZE = 1000), so the cases use
//! MORE than 1000 tiny members whose runs interleave: every member's handle is evicted between
//! two of its blocks and re-opened. Rows = exit status, then `path 256 content` for every regular
//! file under the output directory (sorted). Model: `RunC16Pool.c16_pool_run` = pre-pass +
//! `Pool.extract_linear_pool RAppend POOL_CAP copy_cut` on the same names and blocks.
//! Oracle (independent of the model): every member holds exactly the bytes written for it,
//! members that never received a byte exist and are empty, nothing changed outside `out`.
use crate::cli::{mlar_bin, snapshot};
use crate::util::*;
use mla::config::ArchiveWriterConfig;
use mla::{ArchiveWriter, Layers};
use serde_json::json;
use std::fs;
use std::process::Command;

pub fn c16_pool_cases(rng: &mut Rng, tier: &str, out: &mut Out) {
    // (members, rounds); a small one below the capacity as a control
    let shapes: Vec<(usize, usize)> = if tier == "thorough" {
        vec![(5, 3), (999, 2), (1000, 2), (1001, 2), (1001, 3), (1037, 2), (1100, 2), (1100, 3)]
    } else {
        vec![(5, 3), (1001, 2), (1100, 2)]
    };
    let work = std::env::current_dir().unwrap();
    for (k, (n, rounds)) in shapes.iter().enumerate() {
        let (n, rounds) = (*n, *rounds);
        let names: Vec<String> = (0..n).map(|i| format!("d{}/f{i}", i % 5)).collect();
        let mut cfg = ArchiveWriterConfig::new();
        cfg.set_layers(Layers::EMPTY);
        let mut w = ArchiveWriter::from_config(Vec::new(), cfg).expect("writer");
        let ids: Vec<u64> = names.iter().map(|nm| w.start_file(nm).unwrap()).collect();
        let mut contents: Vec<Vec<u8>> = vec![Vec::new(); n];
        // blocks in archive order: (member index, data)
        let mut order: Vec<u64> = Vec::new();
        let mut pieces: Vec<Vec<u8>> = Vec::new();
        let rot = rng.below(n as u64) as usize;
        for p in 0..rounds {
            for j in 0..n {
                // a different rotation per round: the distance between two blocks of a member varies
                let i = (j + p * rot) % n;
                // a pool of 1000 handles only evicts when MORE than 1000 members write: with 1001 members
                // every one writes; with more, some never receive a byte (only the pre-pass creates them)
                // and some appends are empty
                let silent = if n < 100 { i == 2 } else { n > 1001 && i % 29 == 5 };
                if silent {
                    continue;
                }
                let empty = if n < 100 { (i + p) % 4 == 3 } else { n > 1001 && (i + p) % 31 == 3 };
                let piece: Vec<u8> = if empty { Vec::new() } else { vec![b'a' + (i % 26) as u8, b'0' + p as u8, (i % 251) as u8] };
                w.append_file_content(ids[i], piece.len() as u64, piece.as_slice()).unwrap();
                contents[i].extend_from_slice(&piece);
                if !piece.is_empty() {
                    // a zero-length append writes no block (append_file_content returns early)
                    order.push(i as u64);
                    pieces.push(piece);
                }
            }
        }
        for id in ids {
            w.end_file(id).unwrap();
        }
        w.finalize().unwrap();
        let archive = w.into_raw();
        let sb = work.join(format!("c16pool{k}"));
        let _ = fs::remove_dir_all(&sb);
        fs::create_dir_all(sb.join("sibling")).unwrap();
        fs::write(sb.join("sibling/keep.txt"), b"keep").unwrap();
        fs::write(sb.join("a.mla"), &archive).unwrap();
        fs::create_dir_all(sb.join("out")).unwrap();
        let before = snapshot(&sb);
        let o = Command::new(mlar_bin()).current_dir(&sb).arg("extract").arg("-i").arg("a.mla").arg("-o").arg("out").output().expect("run mlar");
        let after = snapshot(&sb);
        let mut msg: Option<String> = None;
        let mut files: Vec<(Vec<u8>, Vec<u8>)> = Vec::new();
        for (p, v) in &after {
            if p.starts_with(b"out/") {
                if v.0 == 0 {
                    files.push((p[4..].to_vec(), v.1.clone()));
                }
            } else if before.get(p) != Some(v) {
                msg = Some(format!("outside the output directory: {} created or modified", String::from_utf8_lossy(p)));
            }
        }
        files.sort();
        if !o.status.success() {
            msg = Some(format!("mlar extract of {n} interleaved members failed: {}", String::from_utf8_lossy(&o.stderr).chars().take(200).collect::<String>()));
        } else if msg.is_none() {
            let mut bad = 0usize;
            let mut first = None;
            for (i, nm) in names.iter().enumerate() {
                let got = files.iter().find(|f| f.0 == nm.as_bytes()).map(|f| f.1.clone());
                if got.as_ref() != Some(&contents[i]) {
                    bad += 1;
                    if first.is_none() {
                        first = Some((nm.clone(), got.map(|g| g.len()), contents[i].len()));
                    }
                }
            }
            if bad > 0 || files.len() != n {
                msg = Some(format!("{bad} of {n} members differ from the bytes written (first: {:?}); {} files under out", first, files.len()));
            }
        }
        let _ = fs::remove_dir_all(&sb);
        let mut rows: Vec<Vec<u64>> = vec![vec![u64::from(o.status.success())]];
        for (p, c) in &files {
            let mut row: Vec<u64> = p.iter().map(|b| *b as u64).collect();
            row.push(256);
            row.extend(c.iter().map(|b| *b as u64));
            rows.push(row);
        }
        let name_bytes: Vec<Vec<u8>> = names.iter().map(|s| s.as_bytes().to_vec()).collect();
        // how many append-mode RE-opens an LRU pool of 1000 handles makes on this block order
        let (mut lru, mut opened, mut reopens): (Vec<u64>, std::collections::HashSet<u64>, usize) = (Vec::new(), Default::default(), 0);
        for i in &order {
            if let Some(pos) = lru.iter().position(|x| x == i) {
                lru.remove(pos);
            } else {
                if !opened.insert(*i) {
                    reopens += 1;
                }
                if lru.len() == 1000 {
                    lru.pop();
                }
            }
            lru.insert(0, *i);
        }
        out.case(&Case {
            id: format!("c16-pool-{n}x{rounds}"),
            model_fn: "c16_pool_run",
            args: vec![json!(name_bytes), json!(order), json!(pieces)],
            imp: json!(rows),
            oracle_ok: msg.is_none(),
            oracle_msg: msg.unwrap_or_default(),
            class: format!("pool members={} rounds={} reopens={}", if n > 1000 { ">1000" } else { "<=1000" }, rounds, if reopens > 0 { ">0" } else { "0" }),
            nontrivial: reopens > 0 || n <= 1000,
            meta: json!({"members": n, "rounds": rounds, "blocks": order.len(), "rotation": rot, "reopens": reopens}),
        });
    }
}
