//! Work package `hdrsrc`: the archive HEADER read from a source (C13/C08), and the whole
//! `ArchiveFailSafeReader::from_config` + `convert_to_archive` on archive bytes INCLUDING the
//! header (C02), against the model entry points of coq/theories/RunHdr.v.
//!
//!  * `c13-hdr`: `ArchiveHeader::from` through `ThrottledReader`s (quotas 1, 2, 3, 7, a random
//!    schedule, and memory) on valid headers (4 layer combinations, 1-3 recipients), on EVERY
//!    truncation of a header, and on hostile headers (magic / version / Option tag / key count
//!    overwritten): outcome, error class and the number of bytes consumed from the source
//!    == model `hdr_read`.  Oracle (no model): all quotas give the outcome from memory; a valid
//!    header is consumed exactly to the length given by the documented layout
//!    (`header::parse_header`, written without `mla`); no panic; never more bytes consumed than
//!    there are.
//!  * `archive_model_call`: model call for a repair case on the first `cut` bytes of an archive
//!    (layers none / ENCRYPT), any `cut` (inside the header too), both flavours.
//!  * `c02-prod`: production-flavour repair of tiny archives (one short chunk), model-compared.
use crate::archive::*;
use crate::header::parse_header;
use crate::repair::{oracle_c02, repair_with};
use crate::util::*;
use mla::errors::Error;
use mla::ArchiveHeader;
use serde_json::{json, Value};
use x25519_dalek::{PublicKey, StaticSecret};

/// Rows of `RunHdr.hdr_read`: [0]; [consumed]; [layers; enc?; keys]  or  [1; class]; [consumed].
pub fn header_rows(bytes: &[u8], sched: Vec<usize>) -> Vec<Vec<u64>> {
    let mut src = ThrottledReader::new(bytes, sched);
    let r = catch(|| ArchiveHeader::from(&mut src));
    let consumed = (bytes.len() - src.inner.len()) as u64;
    match r {
        Err(_) => vec![vec![2], vec![consumed]],
        Ok(Ok(h)) => {
            let (enc, keys) = match &h.config.encrypt {
                Some(e) => (1u64, e.multi_recipient.count_keys() as u64),
                None => (0, 0),
            };
            vec![vec![0], vec![consumed], vec![u64::from(h.config.layers_enabled.bits()), enc, keys]]
        }
        Ok(Err(e)) => {
            let class = match e {
                Error::IOError(ref io) if io.kind() == std::io::ErrorKind::UnexpectedEof => 1,
                Error::WrongMagic => 2,
                Error::UnsupportedVersion => 3,
                Error::DeserializationError => 4,
                _ => 9,
            };
            vec![vec![1, class], vec![consumed]]
        }
    }
}

fn jsched(s: &[usize]) -> Value {
    Value::Array(s.iter().map(|x| json!(*x as u64)).collect())
}

fn hdr_case(out: &mut Out, id: String, class: String, bytes: &[u8], sched: Vec<usize>, valid_len: Option<usize>, mem_rows: &[Vec<u64>]) {
    let rows = header_rows(bytes, sched.clone());
    let mut msg = String::new();
    if rows[0] == vec![2] {
        msg = "ArchiveHeader::from panicked".into();
    } else if rows[0] != mem_rows[0] || rows.get(2) != mem_rows.get(2) {
        msg = format!("outcome through a source with read quotas {sched:?} is {:?}, from memory {:?}", rows, mem_rows);
    } else if rows[1] != mem_rows[1] {
        msg = format!("{} bytes consumed through quotas {sched:?}, {} from memory", rows[1][0], mem_rows[1][0]);
    } else if let Some(l) = valid_len {
        if rows[0] != vec![0] || rows[1] != vec![l as u64] {
            msg = format!("valid header of {l} bytes (documented layout): outcome {:?}, {} bytes consumed", rows[0], rows[1][0]);
        }
    } else if rows[0] == vec![0] && parse_header(bytes).is_err() {
        msg = "a header that is not valid by the documented layout was accepted".into();
    }
    out.case(&Case {
        id,
        model_fn: "hdr_read",
        args: vec![jbytes(bytes), jsched(&sched)],
        imp: json!(rows),
        oracle_ok: msg.is_empty(),
        oracle_msg: msg,
        class,
        nontrivial: true,
        meta: json!({"len": bytes.len(), "sched": sched}),
    });
}

pub fn c13_hdr_cases(rng: &mut Rng, tier: &str, out: &mut Out) {
    let reps = if tier == "thorough" { 4 } else { 1 };
    let mut scheds: Vec<Vec<usize>> = vec![vec![], vec![1], vec![2], vec![3], vec![7]];
    for rep in 0..reps {
        for layers in 0u8..4 {
            for recipients in 1usize..=3 {
                if layers & L_ENC == 0 && recipients > 1 {
                    continue;
                }
                let plan = Plan { names: vec![b"h".to_vec()], pieces: vec![(0, rng.bytes(5))], layers, level: 0, recipients, reader_key: 0 };
                let Ok(built) = build(rng, &plan) else { continue };
                let hl = parse_header(&built.bytes).map(|p| p.len).ok();
                let rnd: Vec<usize> = (0..rng.range(2, 9)).map(|_| rng.range(1, 11) as usize).collect();
                scheds.truncate(5);
                scheds.push(rnd);
                let base = format!("c13h-{rep}-l{layers}-r{recipients}");
                // the whole archive: the read must stop at the end of the header
                let mem = header_rows(&built.bytes, vec![]);
                for (si, sched) in scheds.iter().enumerate() {
                    hdr_case(out, format!("{base}-full-s{si}"), format!("valid header layers={layers} recipients={recipients} quota={}", sched.first().copied().unwrap_or(0)),
                             &built.bytes, sched.clone(), hl, &mem);
                }
                // every truncation inside (and just after) the header
                let hlen = built.header_len;
                let stride = if layers & L_ENC != 0 && recipients > 1 && tier != "thorough" { 5 } else { 1 };
                for cut in (0..=hlen + 1).filter(|c| c % stride == 0 || *c < 12 || *c + 10 > hlen) {
                    let pre = &built.bytes[..cut.min(built.bytes.len())];
                    let mem = header_rows(pre, vec![]);
                    let sched = scheds[1 + (cut % 5)].clone();
                    let region = if cut < 3 { "magic" } else if cut < 7 { "version" } else if cut < 9 { "layers/option" } else if cut < hlen { "encryption config" } else { "complete" };
                    hdr_case(out, format!("{base}-cut{cut}"), format!("truncated header region={region} layers={layers}"), pre, sched, if cut >= hlen { hl } else { None }, &mem);
                }
                // hostile headers
                let mut muts: Vec<(&str, usize, Vec<u8>)> = vec![
                    ("magic", 0, vec![b'M', b'L', b'B']),
                    ("magic", 2, vec![0]),
                    ("version", 3, vec![2, 0, 0, 0]),
                    ("version", 6, vec![1]),
                    ("option-tag", 8, vec![2]),
                    ("option-tag", 8, vec![255]),
                    ("option-tag", 8, vec![(layers & L_ENC) ^ 1]),
                    ("layers", 7, vec![layers ^ 1]),
                    ("layers", 7, vec![0xfc | layers]),
                ];
                if layers & L_ENC != 0 {
                    for v in [0u64, (recipients as u64) - 1, recipients as u64 + 1, 1 << 20, 11_184_811, 1 << 31, (1 << 63) + 5, u64::MAX] {
                        muts.push(("key-count", 41, v.to_le_bytes().to_vec()));
                    }
                }
                for (mi, (what, off, val)) in muts.iter().enumerate() {
                    let mut b = built.bytes.clone();
                    if off + val.len() > b.len() {
                        continue;
                    }
                    b[*off..off + val.len()].copy_from_slice(val);
                    let mem = header_rows(&b, vec![]);
                    let sched = scheds[(mi + rep) % scheds.len()].clone();
                    hdr_case(out, format!("{base}-mut{mi}"), format!("hostile header field={what} layers={layers}"), &b, sched, None, &mem);
                }
            }
        }
    }
}

// ---------------- repair on whole archive bytes ----------------

fn shared_secret(private: &StaticSecret, epub: &[u8; 32]) -> [u8; 32] {
    *private.diffie_hellman(&PublicKey::from(*epub)).as_bytes()
}

/// The model call for repairing `built.bytes[..cut]` (header included). `full_ecies`: run the
/// model's load_config on the X25519 shared secrets of the reader's keys instead of handing it
/// the session key.
pub fn archive_model_call(plan: &Plan, built: &Built, cut: usize, unauth: bool, sched: &[usize], full_ecies: bool) -> (&'static str, Vec<Value>) {
    if plan.layers & L_COMP != 0 {
        // archives with the compression layer: the body-level entry points of RunFsStack.v (work package fsstack)
        return crate::repair::model_call(plan, built, cut, unauth);
    }
    let pre = &built.bytes[..cut];
    let enc = plan.layers & L_ENC != 0;
    if full_ecies {
        let cands: Vec<Value> = match parse_header(pre) {
            Ok(p) if enc => match p.epub {
                Some(epub) => built.privs.iter().map(|s| jbytes(&shared_secret(s, &epub))).collect(),
                None => vec![],
            },
            // a header that does not parse: the model never reaches load_config (any candidates do)
            _ => built.privs.iter().map(|_| jbytes(&[0u8; 32])).collect(),
        };
        ("repair_archive", vec![jbytes(pre), Value::Array(cands), json!(u64::from(unauth)), jsched(sched)])
    } else {
        let (k, n): (&[u8], &[u8]) = if enc { (&built.key, &built.nonce) } else { (&[], &[]) };
        ("repair_archive_kn", vec![jbytes(pre), jbytes(k), jbytes(n), json!(u64::from(unauth)), jsched(sched)])
    }
}

/// Production-flavour (and scaled) repair of tiny archives, model-compared: one file of a few
/// bytes, layers none / ENCRYPT, a dozen cuts each (header, block boundaries, inside the only
/// chunk, inside its tag, footer, intact), from memory and through a 3-byte source.
pub fn c02_small_cases(rng: &mut Rng, tier: &str, out: &mut Out) {
    let narch = if tier == "thorough" { 6 } else { 2 };
    for ai in 0..narch {
        for layers in [0u8, L_ENC] {
            let nfiles = 1 + (ai % 2);
            let names: Vec<Vec<u8>> = (0..nfiles).map(|i| format!("s{i}").into_bytes()).collect();
            let pieces: Vec<(usize, Vec<u8>)> = (0..nfiles).map(|i| { let l = rng.range(1, 9) as usize; (i, rng.bytes(l)) }).collect();
            let plan = Plan { names, pieces, layers, level: 0, recipients: 1, reader_key: 0 };
            let Ok(built) = build(rng, &plan) else { continue };
            let len = built.bytes.len();
            let hl = built.header_len;
            let mut cuts: Vec<usize> = vec![0, 2, 5, 8, hl.saturating_sub(1), hl, hl + 1, hl + 17, hl + 20, hl + 30, len.saturating_sub(17), len.saturating_sub(1), len];
            for _ in 0..3 {
                cuts.push(rng.range(hl as u64, len as u64) as usize);
            }
            cuts.retain(|c| *c <= len);
            cuts.sort();
            cuts.dedup();
            for (ci, cut) in cuts.iter().enumerate() {
                for unauth in [false, true] {
                    if unauth && layers == 0 {
                        continue;
                    }
                    let sched: Vec<usize> = if ci % 3 == 2 { vec![3] } else { vec![] };
                    let r = repair_with(ThrottledReader::new(&built.bytes[..*cut], sched.clone()), &built.privs, unauth);
                    let oracle = oracle_c02(&plan, &built, &r, *cut >= hl);
                    let (f, args) = archive_model_call(&plan, &built, *cut, unauth, &sched, ci % 4 == 1);
                    out.case(&Case {
                        id: format!("c02s-a{ai}-l{layers}-cut{cut}-u{}", u8::from(unauth)),
                        model_fn: f,
                        args,
                        imp: json!(r.rows),
                        oracle_ok: oracle.is_ok(),
                        oracle_msg: oracle.err().unwrap_or_default(),
                        class: format!("small archive layers={layers} unauth={unauth} status={:?} region={} quota={}", r.status,
                                       if *cut < hl { "header" } else if *cut == len { "intact" } else { "body" }, sched.first().copied().unwrap_or(0)),
                        nontrivial: *cut >= hl,
                        meta: json!({"cut": cut, "len": len, "header_len": hl, "layers": layers}),
                    });
                }
            }
        }
    }
}
