//! C20: the REAL C bindings (`libmla.so` built from /repo/bindings/C, loaded with dlopen)
//! driven by generated programs of C calls.  Every program runs in a CHILD process
//! (`harness c20-child`, program on stdin, result on stdout) so that a segfault / abort is
//! attributed to the case.  The parent compares per-call rows `[status, handle bits..]`
//! with the Coq model `RunC20.capi_rows` and runs the property's oracle (round trip through
//! the Rust reader with independent SHA-256, extraction sinks, error status on misuse and on
//! callback failure, no abnormal child exit).
#![allow(dead_code)]
use crate::archive::{gen_plan, sha256, Plan};
use crate::util::*;
use serde_json::{json, Value};
use std::cell::Cell;
use std::ffi::{c_char, c_int, c_void, CString};
use std::io::{Read, Write};

// ------------------------------------------------------------------ dynamic loading
extern "C" {
    fn dlopen(filename: *const c_char, flag: c_int) -> *mut c_void;
    fn dlsym(handle: *mut c_void, symbol: *const c_char) -> *mut c_void;
}

pub(crate) type Handle = *mut c_void;
pub(crate) type WriteCb = Option<extern "C" fn(*const u8, u32, *mut c_void, *mut u32) -> i32>;
pub(crate) type FlushCb = Option<extern "C" fn(*mut c_void) -> i32>;
#[repr(C)]
pub(crate) struct FileWriter {
    pub(crate) write_callback: WriteCb,
    pub(crate) flush_callback: FlushCb,
    pub(crate) context: *mut c_void,
}
pub(crate) type FileCb = Option<extern "C" fn(*mut c_void, *const u8, usize, *mut FileWriter) -> i32>;
pub(crate) type ReadCb = Option<extern "C" fn(*mut u8, u32, *mut c_void, *mut u32) -> i32>;
pub(crate) type SeekCb = Option<extern "C" fn(i64, i32, *mut c_void, *mut u64) -> i32>;
#[repr(C)]
pub(crate) struct ArchiveInfo {
    pub(crate) version: u32,
    pub(crate) layers: u8,
}

/// Function pointers mirroring bindings/C/mla.h (MLAStatus is a #[repr(u64)] enum).
pub(crate) struct Api {
    pub(crate) config_default_new: extern "C" fn(*mut Handle) -> u64,
    pub(crate) config_add_public_keys: extern "C" fn(Handle, *const c_char) -> u64,
    pub(crate) config_set_compression_level: extern "C" fn(Handle, u32) -> u64,
    pub(crate) reader_config_new: extern "C" fn(*mut Handle) -> u64,
    pub(crate) reader_config_add_private_key: extern "C" fn(Handle, *const c_char) -> u64,
    pub(crate) archive_new: extern "C" fn(*mut Handle, WriteCb, FlushCb, *mut c_void, *mut Handle) -> u64,
    pub(crate) archive_file_new: extern "C" fn(Handle, *const c_char, *mut Handle) -> u64,
    pub(crate) archive_file_append: extern "C" fn(Handle, Handle, *const u8, u64) -> u64,
    pub(crate) archive_flush: extern "C" fn(Handle) -> u64,
    pub(crate) archive_file_close: extern "C" fn(Handle, *mut Handle) -> u64,
    pub(crate) archive_close: extern "C" fn(*mut Handle) -> u64,
    pub(crate) roarchive_extract: extern "C" fn(*mut Handle, ReadCb, SeekCb, FileCb, *mut c_void) -> u64,
    pub(crate) roarchive_info: extern "C" fn(ReadCb, *mut c_void, *mut ArchiveInfo) -> u64,
}

pub(crate) fn load_api() -> Result<Api, String> {
    let dir = std::env::var("VERIF_BINDIR").map_err(|_| "VERIF_BINDIR not set".to_string())?;
    let path = CString::new(format!("{dir}/libmla.so")).unwrap();
    let h = unsafe { dlopen(path.as_ptr(), 2 /* RTLD_NOW */) };
    if h.is_null() {
        return Err(format!("dlopen {:?} failed", path));
    }
    macro_rules! sym {
        ($n:expr) => {{
            let c = CString::new($n).unwrap();
            let p = unsafe { dlsym(h, c.as_ptr()) };
            if p.is_null() {
                return Err(format!("symbol {} missing", $n));
            }
            unsafe { std::mem::transmute(p) }
        }};
    }
    Ok(Api {
        config_default_new: sym!("mla_config_default_new"),
        config_add_public_keys: sym!("mla_config_add_public_keys"),
        config_set_compression_level: sym!("mla_config_set_compression_level"),
        reader_config_new: sym!("mla_reader_config_new"),
        reader_config_add_private_key: sym!("mla_reader_config_add_private_key"),
        archive_new: sym!("mla_archive_new"),
        archive_file_new: sym!("mla_archive_file_new"),
        archive_file_append: sym!("mla_archive_file_append"),
        archive_flush: sym!("mla_archive_flush"),
        archive_file_close: sym!("mla_archive_file_close"),
        archive_close: sym!("mla_archive_close"),
        roarchive_extract: sym!("mla_roarchive_extract"),
        roarchive_info: sym!("mla_roarchive_info"),
    })
}

// ------------------------------------------------------------------ callbacks (child side)
thread_local! {
    /// bit0: a write callback reported a failure (code != 4); bit1: a flush callback did;
    /// bit2: a write callback reported code 4 (EINTR); bit3: a read/seek callback failed;
    /// bit4: a file callback refused a file
    static CBFLAGS: Cell<u64> = const { Cell::new(0) };
}
fn flag(b: u64) {
    CBFLAGS.with(|c| c.set(c.get() | b));
}

/// Acceptance policy of a write/read callback: 0 = everything, 1 = one byte, 2 = random part.
struct Policy {
    mode: u64,
    rng: Rng,
    calls: u64,
    /// fail at the k-th invocation (1-based, 0 = never); `persistent` = and at every later one
    fail_at: u64,
    persistent: bool,
    code: i32,
}
impl Policy {
    fn new(mode: u64, seed: u64, fail_at: u64, persistent: bool, code: i32) -> Self {
        Policy { mode, rng: Rng::new(seed), calls: 0, fail_at, persistent, code }
    }
    /// Err(code) or the number of bytes taken out of `len`
    fn step(&mut self, len: u32) -> Result<u32, i32> {
        self.calls += 1;
        if self.fail_at != 0 && (self.calls == self.fail_at || (self.persistent && self.calls > self.fail_at)) {
            return Err(self.code);
        }
        if len == 0 {
            return Ok(0);
        }
        Ok(match self.mode {
            0 => len,
            1 => 1,
            _ => 1 + (self.rng.below(len as u64) as u32),
        })
    }
}

struct Sink {
    data: Vec<u8>,
    pol: Policy,
    flushes: u64,
    fail_flush_at: u64,
    max_buf: u32,
}
impl Sink {
    fn new(pol: Policy, fail_flush_at: u64) -> Self {
        Sink { data: Vec::new(), pol, flushes: 0, fail_flush_at, max_buf: 0 }
    }
}
extern "C" fn sink_write(buf: *const u8, len: u32, ctx: *mut c_void, written: *mut u32) -> i32 {
    let s = unsafe { &mut *(ctx as *mut Sink) };
    s.max_buf = s.max_buf.max(len);
    match s.pol.step(len) {
        Err(code) => {
            // codes 1000+c / 2000+c: report failure c AFTER announcing that half / all of the
            // buffer was taken (a short write followed by an error, as C callbacks built on
            // fwrite + ferror do); the failure must still be reported by the call
            let (real, frac) = if code >= 2000 { (code - 2000, 2) } else if code >= 1000 { (code - 1000, 1) } else { (code, 0) };
            if frac != 0 {
                unsafe { *written = if frac == 2 { len } else { len / 2 } };
            }
            flag(if real == 4 { 4 } else { 1 });
            real
        }
        Ok(k) => {
            let sl = unsafe { std::slice::from_raw_parts(buf, k as usize) };
            s.data.extend_from_slice(sl);
            unsafe { *written = k };
            0
        }
    }
}
extern "C" fn sink_flush(ctx: *mut c_void) -> i32 {
    let s = unsafe { &mut *(ctx as *mut Sink) };
    s.flushes += 1;
    if s.fail_flush_at != 0 && s.flushes == s.fail_flush_at {
        flag(2);
        return 5;
    }
    0
}

/// Context of mla_roarchive_extract: the archive bytes behind read/seek callbacks and one
/// sink per extracted file (the same `context` pointer is handed to all three callbacks).
struct XCtx {
    src: Vec<u8>,
    pos: u64,
    rpol: Policy,
    seeks: u64,
    fail_seek_at: u64,
    files: Vec<(Vec<u8>, Box<Sink>)>,
    /// file-callback behaviour: names (by order of arrival) refused with a non-zero return
    refuse_every: u64,
    null_cb_at: u64,
    wmode: u64,
    wfail_at: u64,
    wpersistent: bool,
    seed: u64,
}
extern "C" fn src_read(buf: *mut u8, len: u32, ctx: *mut c_void, nread: *mut u32) -> i32 {
    let x = unsafe { &mut *(ctx as *mut XCtx) };
    let avail = (x.src.len() as u64).saturating_sub(x.pos).min(len as u64) as u32;
    match x.rpol.step(avail) {
        Err(code) => {
            flag(8);
            code
        }
        Ok(k) => {
            unsafe { std::ptr::copy_nonoverlapping(x.src.as_ptr().add(x.pos as usize), buf, k as usize) };
            x.pos += k as u64;
            unsafe { *nread = k };
            0
        }
    }
}
extern "C" fn src_seek(offset: i64, whence: i32, ctx: *mut c_void, newpos: *mut u64) -> i32 {
    let x = unsafe { &mut *(ctx as *mut XCtx) };
    x.seeks += 1;
    if x.fail_seek_at != 0 && x.seeks == x.fail_seek_at {
        flag(8);
        return 5;
    }
    let base: i128 = match whence {
        0 => 0,
        1 => x.pos as i128,
        2 => x.src.len() as i128,
        _ => return 22,
    };
    let np = base + offset as i128;
    if np < 0 {
        flag(8);
        return 22;
    }
    x.pos = np as u64;
    unsafe { *newpos = x.pos };
    0
}
extern "C" fn file_cb(ctx: *mut c_void, name: *const u8, name_len: usize, fw: *mut FileWriter) -> i32 {
    let x = unsafe { &mut *(ctx as *mut XCtx) };
    let nm = unsafe { std::slice::from_raw_parts(name, name_len) }.to_vec();
    let k = x.files.len() as u64 + 1;
    if x.refuse_every != 0 && k % x.refuse_every == 0 {
        // refused files still count (an empty, never-written sink)
        let mut sink = Box::new(Sink::new(Policy::new(0, 0, 1, true, 5), 0));
        let p: *mut Sink = &mut *sink;
        x.files.push((nm, sink));
        if (k / x.refuse_every) % 2 == 0 {
            // every other refusal comes AFTER the structure was filled: the return code decides, the writer stays unused
            unsafe {
                (*fw).write_callback = Some(sink_write);
                (*fw).flush_callback = Some(sink_flush);
                (*fw).context = p as *mut c_void;
            }
        }
        flag(16);
        return 1;
    }
    let fail_at = if x.wfail_at != 0 && k == 1 { x.wfail_at } else { 0 };
    let mut sink = Box::new(Sink::new(Policy::new(x.wmode, x.seed ^ k, fail_at, x.wpersistent, 5), 0));
    let p: *mut Sink = &mut *sink;
    x.files.push((nm, sink));
    unsafe {
        (*fw).write_callback = if x.null_cb_at == k { None } else { Some(sink_write) };
        (*fw).flush_callback = Some(sink_flush);
        (*fw).context = p as *mut c_void;
    }
    0
}

// ------------------------------------------------------------------ programs
pub const NULLP: u64 = 9; // "pass a NULL pointer / NULL handle here"
pub const NCFG: usize = 2;
pub const NAR: usize = 2;
pub const NFH: usize = 4;

/// A program of C calls over handle slots (see the op table in `exec`).
#[derive(Clone)]
pub struct Prog {
    pub ops: Vec<Vec<u64>>,
    pub names: Vec<Vec<u8>>,
    pub pieces: Vec<Vec<u8>>,
    /// write-callback policy of the two archive sinks: [mode, seed, fail_at, persistent, code, fail_flush_at]
    pub sink: Vec<u64>,
    /// extraction: [rmode, rfail_at, fail_seek_at, refuse_every, null_cb_at, wmode, wfail_at, wpersistent]
    pub xc: Vec<u64>,
    /// 0 = archive for extraction is what sink 0 collected; otherwise these bytes
    pub xsrc: Vec<u8>,
}
impl Prog {
    fn to_json(&self) -> Value {
        json!({"ops": self.ops, "names": self.names.iter().map(hex::encode).collect::<Vec<_>>(),
               "pieces": self.pieces.iter().map(hex::encode).collect::<Vec<_>>(), "sink": self.sink, "xc": self.xc,
               "xsrc": hex::encode(&self.xsrc)})
    }
    fn from_json(v: &Value) -> Prog {
        let hv = |x: &Value| -> Vec<Vec<u8>> { x.as_array().unwrap().iter().map(|s| hex::decode(s.as_str().unwrap()).unwrap()).collect() };
        let nv = |x: &Value| -> Vec<u64> { x.as_array().unwrap().iter().map(|n| n.as_u64().unwrap()).collect() };
        Prog {
            ops: v["ops"].as_array().unwrap().iter().map(nv).collect(),
            names: hv(&v["names"]),
            pieces: hv(&v["pieces"]),
            sink: nv(&v["sink"]),
            xc: nv(&v["xc"]),
            xsrc: hex::decode(v["xsrc"].as_str().unwrap()).unwrap(),
        }
    }
}

pub fn sample(name: &str) -> Vec<u8> {
    std::fs::read(format!("/repo/samples/{name}")).unwrap_or_else(|_| panic!("sample {name}"))
}

/// Key selectors shared with the model: 0 = NULL pointer, 1 = valid key (set 1), 2 = text that
/// is not a key, 3 = empty string, 4 = valid (several public keys / the second private key)
fn pub_text(k: u64) -> Option<Vec<u8>> {
    match k {
        0 => None,
        1 => Some(sample("test_x25519_pub.pem")),
        2 => Some(b"-----BEGIN PUBLIC KEY-----\nnot base64 at all\n-----END PUBLIC KEY-----\n".to_vec()),
        3 => Some(Vec::new()),
        _ => Some(sample("test_25519_pub_many.pem")),
    }
}
pub(crate) fn priv_text(k: u64) -> Option<Vec<u8>> {
    match k {
        0 => None,
        1 => Some(sample("test_x25519.pem")),
        2 => Some(b"garbage".to_vec()),
        3 => Some(Vec::new()),
        _ => Some(sample("test_x25519_2.pem")),
    }
}

struct ChildState {
    cfg: [Handle; NCFG],
    rcfg: [Handle; NCFG],
    ar: [Handle; NAR],
    fh: [Handle; NFH],
}

/// Child side: run the program against libmla.so, print {"rows", "sinks", "files"}.
pub fn child_main() {
    let mut txt = String::new();
    std::io::stdin().read_to_string(&mut txt).unwrap();
    let prog = Prog::from_json(&serde_json::from_str(&txt).unwrap());
    let api = match load_api() {
        Ok(a) => a,
        Err(e) => {
            println!("{}", json!({"error": e}));
            return;
        }
    };
    let s = &prog.sink;
    let mut sinks: Vec<Box<Sink>> = (0..NAR as u64)
        .map(|i| Box::new(Sink::new(Policy::new(s[0], s[1] ^ i, s[2], s[3] != 0, s[4] as i32), s[5])))
        .collect();
    let mut st = ChildState { cfg: [std::ptr::null_mut(); NCFG], rcfg: [std::ptr::null_mut(); NCFG], ar: [std::ptr::null_mut(); NAR], fh: [std::ptr::null_mut(); NFH] };
    let mut rows: Vec<Vec<u64>> = Vec::new();
    let mut xfiles: Vec<(Vec<u8>, Vec<u8>)> = Vec::new();
    let mut info: Vec<u64> = Vec::new();
    let cnames: Vec<CString> = prog.names.iter().map(|n| CString::new(n.clone()).unwrap()).collect();
    fn slot<const N: usize>(a: &mut [Handle; N], i: u64) -> *mut Handle {
        if i as usize >= N { std::ptr::null_mut() } else { &mut a[i as usize] }
    }
    fn val<const N: usize>(a: &[Handle; N], i: u64) -> Handle {
        if i as usize >= N { std::ptr::null_mut() } else { a[i as usize] }
    }
    for op in &prog.ops {
        CBFLAGS.with(|c| c.set(0));
        let a = |i: usize| op.get(i).copied().unwrap_or(0);
        let status: u64 = match op[0] {
            0 => (api.config_default_new)(slot(&mut st.cfg, a(1))),
            1 => {
                let t = pub_text(a(2)).map(|b| CString::new(b).unwrap());
                (api.config_add_public_keys)(val(&st.cfg, a(1)), t.as_ref().map_or(std::ptr::null(), |c| c.as_ptr()))
            }
            2 => (api.config_set_compression_level)(val(&st.cfg, a(1)), a(2) as u32),
            3 => (api.reader_config_new)(slot(&mut st.rcfg, a(1))),
            4 => {
                let t = priv_text(a(2)).map(|b| CString::new(b).unwrap());
                (api.reader_config_add_private_key)(val(&st.rcfg, a(1)), t.as_ref().map_or(std::ptr::null(), |c| c.as_ptr()))
            }
            5 => {
                let sidx = if (a(2) as usize) < NAR { a(2) as usize } else { 0 };
                let ctx: *mut Sink = &mut *sinks[sidx];
                let w: WriteCb = if a(3) & 1 != 0 { None } else { Some(sink_write) };
                let f: FlushCb = if a(3) & 2 != 0 { None } else { Some(sink_flush) };
                (api.archive_new)(slot(&mut st.cfg, a(1)), w, f, ctx as *mut c_void, slot(&mut st.ar, a(2)))
            }
            6 => {
                let n = if (a(2) as usize) < cnames.len() { cnames[a(2) as usize].as_ptr() } else { std::ptr::null() };
                (api.archive_file_new)(val(&st.ar, a(1)), n, slot(&mut st.fh, a(3)))
            }
            7 => {
                // [7, ar, fh, piece | 99 (NULL buffer, length a(4))]
                let (p, l) = if (a(3) as usize) < prog.pieces.len() {
                    let pc = &prog.pieces[a(3) as usize];
                    (pc.as_ptr(), pc.len() as u64)
                } else {
                    (std::ptr::null(), a(4))
                };
                (api.archive_file_append)(val(&st.ar, a(1)), val(&st.fh, a(2)), p, l)
            }
            8 => (api.archive_flush)(val(&st.ar, a(1))),
            9 => (api.archive_file_close)(val(&st.ar, a(1)), slot(&mut st.fh, a(2))),
            10 => (api.archive_close)(slot(&mut st.ar, a(1))),
            11 => {
                let x = &prog.xc;
                let src = if prog.xsrc.is_empty() { sinks[0].data.clone() } else { prog.xsrc.clone() };
                let mut xc = XCtx { src, pos: 0, rpol: Policy::new(x[0], s[1] ^ 77, x[1], false, 5), seeks: 0, fail_seek_at: x[2], files: Vec::new(),
                                    refuse_every: x[3], null_cb_at: x[4], wmode: x[5], wfail_at: x[6], wpersistent: x[7] != 0, seed: s[1] };
                let r: ReadCb = if a(2) & 1 != 0 { None } else { Some(src_read) };
                let sk: SeekCb = if a(2) & 2 != 0 { None } else { Some(src_seek) };
                let fc: FileCb = if a(2) & 4 != 0 { None } else { Some(file_cb) };
                let stt = (api.roarchive_extract)(slot(&mut st.rcfg, a(1)), r, sk, fc, &mut xc as *mut XCtx as *mut c_void);
                for (n, sk) in xc.files.drain(..) {
                    xfiles.push((n, sk.data.clone()));
                }
                stt
            }
            12 => {
                let src = if prog.xsrc.is_empty() { sinks[0].data.clone() } else { prog.xsrc.clone() };
                let x = &prog.xc;
                let mut xc = XCtx { src, pos: 0, rpol: Policy::new(x[0], s[1] ^ 78, x[1], false, 5), seeks: 0, fail_seek_at: 0, files: Vec::new(),
                                    refuse_every: 0, null_cb_at: 0, wmode: 0, wfail_at: 0, wpersistent: false, seed: 0 };
                let mut inf = ArchiveInfo { version: 0xFFFF, layers: 0xFF };
                let r: ReadCb = if a(1) & 1 != 0 { None } else { Some(src_read) };
                let ip: *mut ArchiveInfo = if a(1) & 2 != 0 { std::ptr::null_mut() } else { &mut inf };
                let stt = (api.roarchive_info)(r, &mut xc as *mut XCtx as *mut c_void, ip);
                info = vec![inf.version as u64, inf.layers as u64];
                stt
            }
            _ => 0xDEAD,
        };
        let mut row = vec![status, CBFLAGS.with(|c| c.get())];
        row.extend(st.cfg.iter().chain(&st.rcfg).chain(&st.ar).chain(&st.fh).map(|h| !h.is_null() as u64));
        rows.push(row);
    }
    let out = json!({
        "rows": rows,
        "sinks": sinks.iter().map(|s| hex::encode(&s.data)).collect::<Vec<_>>(),
        "sink_calls": sinks.iter().map(|s| s.pol.calls).collect::<Vec<_>>(),
        "sink_flushes": sinks.iter().map(|s| s.flushes).collect::<Vec<_>>(),
        "max_buf": sinks.iter().map(|s| s.max_buf).collect::<Vec<_>>(),
        "files": xfiles.iter().map(|(n, d)| json!([hex::encode(n), hex::encode(d)])).collect::<Vec<_>>(),
        "info": info,
    });
    let so = std::io::stdout();
    let mut l = so.lock();
    writeln!(l, "{out}").unwrap();
    l.flush().unwrap();
}

pub struct ChildResult {
    /// None = normal exit 0; Some(text) = killed by a signal / non-zero exit / no output
    pub died: Option<String>,
    pub rows: Vec<Vec<u64>>,
    pub sinks: Vec<Vec<u8>>,
    pub sink_calls: Vec<u64>,
    pub files: Vec<(Vec<u8>, Vec<u8>)>,
    pub info: Vec<u64>,
}

/// Parent side: run one program in a child process.
pub fn run_child(prog: &Prog) -> ChildResult {
    use std::os::unix::process::ExitStatusExt;
    use std::process::{Command, Stdio};
    let exe = std::env::current_exe().unwrap();
    let mut ch = Command::new(exe).arg("c20-child").stdin(Stdio::piped()).stdout(Stdio::piped()).stderr(Stdio::null()).spawn().expect("spawn child");
    let txt = prog.to_json().to_string();
    let mut stdin = ch.stdin.take().unwrap();
    let wr = std::thread::spawn(move || {
        let _ = stdin.write_all(txt.as_bytes());
    });
    let outp = ch.wait_with_output().expect("wait child");
    let _ = wr.join();
    let mut res = ChildResult { died: None, rows: vec![], sinks: vec![], sink_calls: vec![], files: vec![], info: vec![] };
    if let Some(sig) = outp.status.signal() {
        res.died = Some(format!("child killed by signal {sig}"));
        return res;
    }
    if !outp.status.success() {
        res.died = Some(format!("child exited with {:?}", outp.status.code()));
        return res;
    }
    let v: Value = match serde_json::from_slice(&outp.stdout) {
        Ok(v) => v,
        Err(_) => {
            res.died = Some("child produced no result".into());
            return res;
        }
    };
    if let Some(e) = v.get("error") {
        res.died = Some(format!("child set-up error: {e}"));
        return res;
    }
    let nv = |x: &Value| -> Vec<u64> { x.as_array().unwrap().iter().map(|n| n.as_u64().unwrap()).collect() };
    res.rows = v["rows"].as_array().unwrap().iter().map(nv).collect();
    res.sinks = v["sinks"].as_array().unwrap().iter().map(|s| hex::decode(s.as_str().unwrap()).unwrap()).collect();
    res.sink_calls = nv(&v["sink_calls"]);
    res.files = v["files"].as_array().unwrap().iter().map(|p| (hex::decode(p[0].as_str().unwrap()).unwrap(), hex::decode(p[1].as_str().unwrap()).unwrap())).collect();
    res.info = nv(&v["info"]);
    res
}

// ------------------------------------------------------------------ status codes (mla.h)
pub const ST_OK: u64 = 0;
pub const ST_IO: u64 = 0x0001_0000;
pub const ST_BADARG: u64 = 0x0012_0000;

// ------------------------------------------------------------------ program generators
fn default_sink(mode: u64, seed: u64) -> Vec<u64> {
    vec![mode, seed, 0, 0, 5, 0]
}
fn default_xc(mode: u64) -> Vec<u64> {
    vec![mode, 0, 0, 0, 0, mode, 0, 0]
}

/// The C calls of a writing plan (C01's op sequences through the C entry points):
/// config, keys, level, archive_new, per piece file_new / append / file_close, close.
pub fn plan_prog(plan: &Plan, mode: u64, seed: u64, flush_every: usize) -> Prog {
    let mut ops: Vec<Vec<u64>> = vec![vec![0, 0], vec![1, 0, if plan.recipients > 1 { 4 } else { 1 }], vec![2, 0, plan.level as u64], vec![5, 0, 0, 0]];
    let n = plan.names.len();
    // at most NFH files are open at once in generated plans: slot = file index (plans have <= 4 files)
    let mut started = vec![false; n];
    let last: Vec<Option<usize>> = (0..n).map(|f| plan.pieces.iter().rposition(|p| p.0 == f)).collect();
    for (k, (f, _)) in plan.pieces.iter().enumerate() {
        if !started[*f] {
            started[*f] = true;
            ops.push(vec![6, 0, *f as u64, *f as u64]);
        }
        ops.push(vec![7, 0, *f as u64, k as u64, 0]);
        if flush_every != 0 && k % flush_every == flush_every - 1 {
            ops.push(vec![8, 0]);
        }
        if last[*f] == Some(k) {
            ops.push(vec![9, 0, *f as u64]);
        }
    }
    for f in 0..n {
        if !started[f] {
            ops.push(vec![6, 0, f as u64, f as u64]);
            ops.push(vec![9, 0, f as u64]);
        }
    }
    ops.push(vec![10, 0]);
    Prog { ops, names: plan.names.clone(), pieces: plan.pieces.iter().map(|p| p.1.clone()).collect(), sink: default_sink(mode, seed), xc: default_xc(mode), xsrc: Vec::new() }
}

fn plan_contents(plan: &Plan) -> Vec<Vec<u8>> {
    let mut c = vec![Vec::new(); plan.names.len()];
    for (f, p) in &plan.pieces {
        c[*f].extend_from_slice(p);
    }
    c
}

/// A plan whose names are usable as C strings (no NUL; gen_names never produces one) and
/// whose pieces are capped (debug-build brotli is slow).
fn gen_c_plan(rng: &mut Rng, cap: usize) -> Plan {
    let mut p = gen_plan(rng, 3);
    for pc in p.pieces.iter_mut() {
        if pc.1.len() > cap {
            let keep = cap - (rng.below(17) as usize);
            pc.1.truncate(keep);
        }
    }
    p
}

/// Rust reader over the bytes the C write callbacks collected: names, contents, hashes.
fn oracle_roundtrip(bytes: &[u8], plan: &Plan, reader_key: u64) -> Result<(), String> {
    let sk = curve25519_parser::parse_openssl_25519_privkey(&priv_text(reader_key).unwrap()).map_err(|_| "sample key")?;
    let mut rd = crate::archive::open_reader(bytes, &[sk]).map_err(|e| format!("Rust reader cannot open the C-made archive: {e}"))?;
    let mut got: Vec<Vec<u8>> = rd.list_files().map_err(|e| format!("list_files: {e:?}"))?.map(|s| s.as_bytes().to_vec()).collect();
    got.sort();
    let mut exp = plan.names.clone();
    exp.sort();
    if got != exp {
        return Err(format!("names differ: {} listed, {} written", got.len(), exp.len()));
    }
    let contents = plan_contents(plan);
    for (i, n) in plan.names.iter().enumerate() {
        let name = String::from_utf8(n.clone()).unwrap();
        let h = rd.get_hash(&name).map_err(|e| format!("get_hash: {e:?}"))?.ok_or("hash missing")?;
        if h.to_vec() != sha256(&contents[i]) {
            return Err(format!("file {i}: stored hash differs from SHA-256 of the bytes passed in"));
        }
        let mut f = rd.get_file(name).map_err(|e| format!("get_file: {e:?}"))?.ok_or("file missing")?;
        let mut data = Vec::new();
        f.data.read_to_end(&mut data).map_err(|e| format!("read: {e:?}"))?;
        if data != contents[i] {
            return Err(format!("file {i}: {} bytes read back, {} passed in, or bytes differ", data.len(), contents[i].len()));
        }
    }
    Ok(())
}

/// rows the model is compared on: [status, handle bits] (callback flags are an INPUT of the model).
/// Canonicalisation: when a write callback failed during the call, SerializationError (the
/// failure hit a bincode serialize_into) and IOError are one class.
fn impl_rows(rows: &[Vec<u64>]) -> Vec<Vec<u64>> {
    rows.iter().map(|r| {
        let st = if r[1] & 1 != 0 && r[0] == 0x0010_0000 { ST_IO } else { r[0] };
        let mut v = vec![st];
        v.extend_from_slice(&r[2..]);
        v
    }).collect()
}
/// the call is mla_archive_close, a write callback failed during it, and it returned Success
fn finish_swallow(op: &[u64], r: &[u64]) -> bool {
    op[0] == 10 && r[1] & 1 != 0 && r[0] == ST_OK
}
/// model argument: per call [callback flags, opcode, a1..a4] (environment input + the call)
fn model_calls(prog: &Prog, rows: &[Vec<u64>]) -> Value {
    let calls: Vec<Vec<u64>> = prog.ops.iter().zip(rows).map(|(op, r)| {
        let mut fl = r[1] & 3;
        if finish_swallow(op, r) {
            fl |= 32;
        }
        let mut o = op.clone();
        match o[0] {
            7 => {
                let isnull = ((o[3] as usize) >= prog.pieces.len()) as u64;
                let l = if isnull == 0 { prog.pieces[o[3] as usize].len() as u64 } else { o[4] };
                o = vec![7, o[1], o[2], isnull, l];
            }
            // the reading side is not modelled beyond the handle logic: its outcome is an input
            11 => o = vec![11, o[1], o[2], r[0]],
            12 => o = vec![12, o[1], r[0]],
            _ => {}
        }
        o.resize(5, 0);
        let mut v = vec![fl];
        v.extend(o);
        v
    }).collect();
    json!(calls)
}

fn emit(out: &mut Out, id: String, class: &str, prog: &Prog, res: &ChildResult, oracle: Result<(), String>, model: bool, meta: Value, known: Option<&str>) {
    let (oracle_ok, msg) = match (&res.died, oracle) {
        (Some(d), _) => (false, format!("the process running the C calls died: {d}")),
        (None, Ok(())) => (true, String::new()),
        (None, Err(e)) => (false, e),
    };
    if let Ok(d) = std::env::var("VERIF_C20_DUMP") {
        let _ = std::fs::write(format!("{d}/{id}.json"), prog.to_json().to_string());
    }
    let use_model = model && res.died.is_none();
    let mut case = Case {
        id,
        model_fn: if use_model { "capi_rows" } else { "" },
        args: if use_model { vec![json!(prog.names.iter().map(|n| n.iter().map(|b| *b as u64).collect::<Vec<_>>()).collect::<Vec<_>>()), model_calls(prog, &res.rows)] } else { vec![] },
        imp: if use_model { json!(impl_rows(&res.rows)) } else { json!([]) },
        oracle_ok,
        oracle_msg: msg,
        class: class.into(),
        nontrivial: true,
        meta,
    }
    .to_json();
    if let Some(k) = known {
        case["known"] = json!(k);
    }
    out.raw(&case);
    out.n += 1;
}

/// Oracle common to all programs: the call during which a callback reported a failure does
/// not return Success.  (EINTR, code 4, is retried by std's write_all: reported separately.)
fn oracle_cb_failure(res: &ChildResult) -> Result<(), String> {
    for (i, r) in res.rows.iter().enumerate() {
        if r[1] & (1 | 2 | 8) != 0 && r[0] == ST_OK {
            return Err(format!("call {i}: a callback reported a failure (flags {}) and the call returned MLA_STATUS_SUCCESS", r[1]));
        }
    }
    Ok(())
}

/// (1) + (2): writing plans through the C entry points, read back with the Rust reader and
/// extracted through mla_roarchive_extract.
fn roundtrip_cases(rng: &mut Rng, tier: &str, out: &mut Out) {
    let n = if tier == "thorough" { 150 } else { 24 };
    for k in 0..n {
        let cap = if k % 6 == 5 { 140_000 } else { 5_000 };
        let plan = gen_c_plan(rng, cap);
        let mode = (k % 3) as u64;
        let mut prog = plan_prog(&plan, mode, rng.next(), if k % 4 == 1 { 2 } else { 0 });
        // extraction of the archive just written, with the matching private key
        let many = plan.recipients > 1;
        prog.ops.push(vec![3, 0]);
        prog.ops.push(vec![4, 0, 1]);
        prog.ops.push(vec![12, 0]);
        prog.ops.push(vec![11, 0, 0]);
        let res = run_child(&prog);
        let total: usize = plan.pieces.iter().map(|p| p.1.len()).sum();
        let oracle = (|| {
            if let Some(bad) = res.rows.iter().position(|r| r[0] != ST_OK) {
                return Err(format!("valid call {bad} ({:?}) returned status {:#x}", prog.ops[bad], res.rows[bad][0]));
            }
            oracle_roundtrip(&res.sinks[0], &plan, 1)?;
            if many {
                // the second recipient of test_25519_pub_many.pem can read it too
            }
            // (2) extraction: every file's exact bytes in its own sink, names sorted
            let contents = plan_contents(&plan);
            let mut exp: Vec<(Vec<u8>, Vec<u8>)> = plan.names.iter().cloned().zip(contents).collect();
            exp.sort();
            if res.files != exp {
                return Err(format!("C extraction delivered {} files; names or bytes differ from what was written ({} files)", res.files.len(), exp.len()));
            }
            if res.info != vec![1, 3] && res.info[1] != 3 {
                return Err(format!("mla_roarchive_info: {:?}", res.info));
            }
            Ok(())
        })();
        let small = total <= 3000 && plan.names.iter().all(|n| n.len() < 300);
        emit(out, format!("c20-rt-{k}"), &format!("roundtrip accept={} files={} big={}", ["all", "one", "random"][mode as usize], plan.names.len(), !small),
             &prog, &res, oracle, small,
             json!({"mode": mode, "files": plan.names.len(), "total": total, "level": plan.level, "calls": prog.ops.len(), "cb_calls": res.sink_calls,
                    "pieces": plan.pieces.iter().map(|p| (p.0, p.1.len())).collect::<Vec<_>>()}), None);
    }
}

/// (2b) extraction where the file callback DECLINES some files (every r-th in sorted order):
/// each accepted file still receives exactly its own bytes, declined files receive nothing.
fn decline_cases(rng: &mut Rng, tier: &str, out: &mut Out) {
    let n = if tier == "thorough" { 24 } else { 6 };
    let mut done = 0;
    while done < n {
        let mut plan = gen_c_plan(rng, 2_000);
        if plan.names.len() < 3 {
            // interleave a few more files
            for extra in ["zz/x", "m", "b/c/d"] {
                if plan.names.len() < 4 && !plan.names.contains(&extra.as_bytes().to_vec()) {
                    plan.names.push(extra.as_bytes().to_vec());
                    let f = plan.names.len() - 1;
                    let sz = rng.range(1, 90) as usize;
                    plan.pieces.push((f, rng.bytes(sz)));
                    let sz2 = rng.range(0, 40) as usize;
                    plan.pieces.insert(0, (f, rng.bytes(sz2)));
                }
            }
        }
        for r in [1u64, 2, 3] {
            let mut prog = plan_prog(&plan, 0, rng.next(), 0);
            prog.ops.push(vec![3, 0]);
            prog.ops.push(vec![4, 0, 1]);
            prog.ops.push(vec![11, 0, 0]);
            prog.xc[3] = r;
            let res = run_child(&prog);
            let oracle = (|| {
                if let Some(bad) = res.rows.iter().position(|x| x[0] != ST_OK) {
                    return Err(format!("valid call {bad} ({:?}) returned status {:#x}", prog.ops[bad], res.rows[bad][0]));
                }
                let contents = plan_contents(&plan);
                let mut exp: Vec<(Vec<u8>, Vec<u8>)> = plan.names.iter().cloned().zip(contents).collect();
                exp.sort();
                // the file callback is asked in sorted order; the k-th (1-based) is declined when k % r == 0
                for (k, e) in exp.iter_mut().enumerate() {
                    if (k as u64 + 1) % r == 0 {
                        e.1 = Vec::new();
                    }
                }
                if res.files.len() != exp.len() {
                    return Err(format!("the file callback was asked about {} files, the archive has {}", res.files.len(), exp.len()));
                }
                for (got, want) in res.files.iter().zip(&exp) {
                    if got != want {
                        return Err(format!("extraction with every {r}-th file declined: the writer supplied for {:?} received {} bytes, expected {} (its own content, or nothing when declined)",
                                           String::from_utf8_lossy(&want.0), got.1.len(), want.1.len()));
                    }
                }
                Ok(())
            })();
            emit(out, format!("c20-decline-{done}-r{r}"), &format!("extract-declining every={r} files={}", plan.names.len()), &prog, &res, oracle, false,
                 json!({"every": r, "files": plan.names.len()}), None);
        }
        done += 1;
    }
}

/// (2c) extraction through the C interface of archives written by the RUST interface without
/// the encryption layer (the C writer can only make compress+encrypt archives): the read and
/// seek callbacks then see other seek patterns (e.g. from the end by a negative offset).
fn foreign_extract_cases(rng: &mut Rng, tier: &str, out: &mut Out) {
    let n = if tier == "thorough" { 40 } else { 8 };
    let mut done = 0;
    let mut k = 0;
    while done < n {
        let layers = if k % 2 == 0 { 0u8 } else { 2u8 };
        k += 1;
        let mut plan = gen_plan(rng, layers);
        plan.names.retain(|nm| nm.len() < 300);
        if plan.names.is_empty() || plan.pieces.iter().any(|p| p.0 >= plan.names.len()) {
            continue;
        }
        let Ok(built) = crate::archive::build(rng, &plan) else { continue };
        let mut prog = plan_prog(&plan, 0, rng.next(), 0);
        prog.ops = vec![vec![3, 0], vec![11, 0, 0]];
        prog.xsrc = built.bytes.clone();
        prog.xc = default_xc((done % 3) as u64);
        let res = run_child(&prog);
        let oracle = (|| {
            if let Some(bad) = res.rows.iter().position(|x| x[0] != ST_OK) {
                return Err(format!("C extraction of a Rust-made archive (layers {layers}): call {bad} returned status {:#x}", res.rows[bad][0]));
            }
            let mut exp: Vec<(Vec<u8>, Vec<u8>)> = plan.names.iter().cloned().zip(built.contents.iter().cloned()).collect();
            exp.sort();
            if res.files != exp {
                return Err(format!("C extraction of a Rust-made archive (layers {layers}) delivered {} files; names or bytes differ from what was written ({} files)", res.files.len(), exp.len()));
            }
            Ok(())
        })();
        emit(out, format!("c20-foreign-{done}"), &format!("extract-rust-made layers={layers}"), &prog, &res, oracle, false,
             json!({"layers": layers, "files": plan.names.len(), "archive_len": built.bytes.len()}), None);
        done += 1;
    }
}

/// A small fixed plan used by the misuse and failure sweeps.
fn small_plan(rng: &mut Rng) -> Plan {
    Plan {
        names: vec![b"a".to_vec(), b"dir/b.txt".to_vec()],
        pieces: vec![(0, rng.bytes(700)), (1, rng.bytes(5000)), (0, vec![7u8; 300])],
        layers: 3,
        level: 1,
        recipients: 1,
        reader_key: 0,
    }
}

/// (3a) misuse programs: NULL pointers / NULL handles at every entry point, handles the
/// interface cleared (D16, double close, use after close).  Expected: BadAPIArgument where
/// the misused handle is the cause, no death, valid calls around still succeed.
fn misuse_programs(rng: &mut Rng) -> Vec<(String, Prog, Vec<(usize, u64)>)> {
    let plan = small_plan(rng);
    let base = plan_prog(&plan, 0, 1, 0);
    let mut v: Vec<(String, Prog, Vec<(usize, u64)>)> = Vec::new();
    let mk = |ops: Vec<Vec<u64>>| Prog { ops, ..base.clone() };
    // every entry point with NULL pointer / NULL (never assigned) handles, on an otherwise empty state
    let nulls: Vec<Vec<u64>> = vec![
        vec![0, NULLP], vec![1, NULLP, 1], vec![1, 0, 1], vec![2, NULLP, 3], vec![2, 1, 3], vec![3, NULLP], vec![4, NULLP, 1], vec![4, 0, 1],
        vec![5, NULLP, 0, 0], vec![5, 0, 0, 0], vec![5, 0, NULLP, 0], vec![6, 0, 0, 0], vec![6, NULLP, 0, 0], vec![7, 0, 0, 0, 0], vec![7, NULLP, NULLP, 99, 10],
        vec![8, 0], vec![8, NULLP], vec![9, 0, 0], vec![9, 0, NULLP], vec![9, NULLP, NULLP], vec![10, 0], vec![10, NULLP], vec![11, NULLP, 0], vec![11, 0, 0], vec![11, 0, 1],
        vec![11, 0, 2], vec![11, 0, 4], vec![12, 1], vec![12, 2], vec![12, 3],
    ];
    let exp: Vec<(usize, u64)> = (0..nulls.len()).map(|i| (i, ST_BADARG)).collect();
    v.push(("null-everywhere".into(), mk(nulls), exp));
    // live handles, NULL in one argument at a time
    let ops = vec![
        vec![0, 0], vec![1, 0, 0], vec![1, 0, 1], vec![5, 0, 0, 1], vec![5, 0, 0, 2], vec![5, 0, NULLP, 0], vec![5, 0, 0, 0],
        vec![6, 0, 99, 0], vec![6, 0, 0, NULLP], vec![6, 0, 0, 0], vec![7, 0, 0, 99, 0], vec![7, 0, 0, 99, 16], vec![7, 0, NULLP, 0, 0], vec![7, NULLP, 0, 0, 0],
        vec![7, 0, 0, 0, 0], vec![9, 0, NULLP], vec![9, NULLP, 0], vec![9, 0, 0], vec![10, NULLP], vec![10, 0],
    ];
    let exp = vec![(1, ST_BADARG), (3, ST_BADARG), (4, ST_BADARG), (5, ST_BADARG), (7, ST_BADARG), (8, ST_BADARG), (10, ST_BADARG), (11, ST_BADARG), (12, ST_BADARG),
                   (13, ST_BADARG), (15, ST_BADARG), (16, ST_BADARG), (18, ST_BADARG), (0, ST_OK), (2, ST_OK), (6, ST_OK), (9, ST_OK), (14, ST_OK), (17, ST_OK), (19, ST_OK)];
    v.push(("null-one-argument".into(), mk(ops), exp));
    // D16: the configuration handle consumed (and cleared) by mla_archive_new is used again
    let ops = vec![vec![0, 0], vec![1, 0, 1], vec![5, 0, 0, 0], vec![5, 0, 1, 0], vec![1, 0, 1], vec![2, 0, 3], vec![5, 0, 0, 0], vec![10, 0]];
    v.push(("D16".into(), mk(ops), vec![(2, ST_OK), (3, ST_BADARG), (4, ST_BADARG), (5, ST_BADARG), (6, ST_BADARG), (7, ST_OK)]));
    // the same for the reader configuration consumed by mla_roarchive_extract
    let mut ops = base.ops.clone();
    let n0 = ops.len();
    ops.extend(vec![vec![3, 0], vec![4, 0, 1], vec![11, 0, 0], vec![11, 0, 0], vec![4, 0, 1]]);
    v.push(("reader-config-reused".into(), mk(ops), vec![(n0 + 2, ST_OK), (n0 + 3, ST_BADARG), (n0 + 4, ST_BADARG)]));
    // close twice, file close twice, file handle used after close, archive used after close
    let ops = vec![
        vec![0, 0], vec![1, 0, 1], vec![5, 0, 0, 0], vec![6, 0, 0, 0], vec![7, 0, 0, 0, 0], vec![9, 0, 0], vec![9, 0, 0], vec![7, 0, 0, 1, 0], vec![6, 0, 1, 1],
        vec![9, 0, 1], vec![10, 0], vec![10, 0], vec![6, 0, 0, 2], vec![7, 0, 1, 0, 0], vec![8, 0], vec![9, 0, 1],
    ];
    v.push(("double-close".into(), mk(ops), vec![(5, ST_OK), (6, ST_BADARG), (7, ST_BADARG), (8, ST_OK), (9, ST_OK), (10, ST_OK), (11, ST_BADARG), (12, ST_BADARG),
                                                 (13, ST_BADARG), (14, ST_BADARG), (15, ST_BADARG)]));
    // writer-level refusals through the C interface: duplicate name, close with an open file,
    // a file handle of one archive used with another archive (unknown id there), bad level, bad keys
    let ops = vec![
        vec![0, 0], vec![2, 0, 12], vec![1, 0, 2], vec![1, 0, 3], vec![5, 0, 0, 0],
        vec![0, 0], vec![1, 0, 1], vec![5, 0, 0, 0], vec![0, 1], vec![1, 1, 4], vec![5, 1, 1, 0],
        vec![6, 0, 0, 0], vec![6, 0, 0, 1], vec![6, 1, 1, 1], vec![6, 1, 0, 2], vec![9, 0, 2], vec![7, 0, 2, 0, 0], vec![10, 0], vec![9, 1, 1], vec![9, 1, 2], vec![10, 1],
    ];
    v.push(("writer-refusals".into(), mk(ops), vec![(1, 0x0014_0002), (2, 0x00F1_0000), (3, 0x00F1_0000), (4, 0x0014_0003), (7, ST_OK), (10, ST_OK), (12, 0x0015_0000), (15, 0x0008_0000), (17, 0x000B_0000), (20, 0x000B_0000)]));
    v
}

fn misuse_cases(rng: &mut Rng, _tier: &str, out: &mut Out) {
    for (name, prog, expect) in misuse_programs(rng) {
        let res = run_child(&prog);
        let oracle = (|| {
            for (i, st) in &expect {
                let got = res.rows.get(*i).map(|r| r[0]);
                if got != Some(*st) {
                    return Err(format!("{name}: call {i} {:?} returned {:#x?}, expected {:#x}", prog.ops[*i], got, st));
                }
            }
            oracle_cb_failure(&res)
        })();
        emit(out, format!("c20-misuse-{name}"), "misuse", &prog, &res, oracle, true, json!({"program": name, "calls": prog.ops.len()}), None);
    }
    // random programs over the whole alphabet (any handles, any order)
}

/// Random programs: any call, any slot, NULL sprinkled in.
fn random_prog(rng: &mut Rng, base: &Prog, len: usize) -> Prog {
    let mut ops = Vec::new();
    let s2 = |rng: &mut Rng| if rng.below(8) == 0 { NULLP } else { rng.below(2) };
    let s4 = |rng: &mut Rng| if rng.below(8) == 0 { NULLP } else { rng.below(3) };
    for _ in 0..len {
        let op = match rng.below(16) {
            0 | 1 => vec![0, s2(rng)],
            2 | 3 => vec![1, s2(rng), *rng.pick(&[1u64, 1, 1, 4, 2, 0])],
            4 => vec![2, s2(rng), *rng.pick(&[0u64, 1, 5, 11, 12])],
            5 | 6 | 7 => vec![5, s2(rng), s2(rng), *rng.pick(&[0u64, 0, 0, 0, 1, 2])],
            8 | 9 => vec![6, s2(rng), *rng.pick(&[0u64, 1, 0, 1, 99]), s4(rng)],
            10 | 11 => vec![7, s2(rng), s4(rng), *rng.pick(&[0u64, 1, 2, 99]), *rng.pick(&[0u64, 5])],
            12 => vec![8, s2(rng)],
            13 | 14 => vec![9, s2(rng), s4(rng)],
            _ => vec![10, s2(rng)],
        };
        ops.push(op);
    }
    Prog { ops, ..base.clone() }
}

fn random_cases(rng: &mut Rng, tier: &str, out: &mut Out) {
    let n = if tier == "thorough" { 400 } else { 60 };
    let plan = small_plan(rng);
    let base = plan_prog(&plan, 0, 1, 0);
    for k in 0..n {
        let len = rng.range(4, 30) as usize;
        let mut prog = random_prog(rng, &base, len);
        prog.sink = default_sink((k % 3) as u64, rng.next());
        let res = run_child(&prog);
        let oracle = oracle_cb_failure(&res);
        emit(out, format!("c20-rand-{k}"), "random-program", &prog, &res, oracle, true, json!({"calls": prog.ops.len()}), None);
    }
}

/// (3b) callbacks failing at the k-th invocation, k = 1..n (write callback, transient and
/// persistent; flush callback; extraction: read, seek, per-file write callbacks).
fn failure_cases(rng: &mut Rng, tier: &str, out: &mut Out) {
    let plan = small_plan(rng);
    let mut base = plan_prog(&plan, 0, 1, 2);
    let close_at = base.ops.len() - 1;
    base.ops.extend(vec![vec![3, 0], vec![4, 0, 1], vec![11, 0, 0]]);
    // number of write-callback invocations of the fault-free run, per acceptance mode
    for mode in [0u64, 2] {
        base.sink = default_sink(mode, 11);
        let free = run_child(&base);
        let ncalls = free.sink_calls.first().copied().unwrap_or(0);
        let step = if tier == "thorough" { 1 } else { (ncalls / 12).max(1) };
        let mut ks: Vec<u64> = (1..=ncalls.min(8)).collect();
        ks.extend((9..=ncalls + 1).step_by(step as usize));
        for &k in &ks {
            for persistent in [0u64, 1] {
                let mut prog = base.clone();
                prog.ops.truncate(close_at + 1);
                prog.sink = vec![mode, 11, k, persistent, 5, 0];
                let res = run_child(&prog);
                let oracle = (|| {
                    oracle_cb_failure(&res)?;
                    if mode == 0 && k <= ncalls && !res.rows.iter().any(|r| r[1] & 1 != 0) {
                        return Err(format!("the write callback was never asked a {k}-th time ({ncalls} expected)"));
                    }
                    Ok(())
                })();
                let swallowed = res.rows.iter().zip(&prog.ops).any(|(r, op)| finish_swallow(op, r));
                emit(out, format!("c20-wfail-m{mode}-k{k}-p{persistent}"), if swallowed { "write-callback-fails-in-brotli-finish" } else { "write-callback-fails" }, &prog, &res, oracle, true,
                     json!({"k": k, "persistent": persistent, "mode": mode, "free_calls": ncalls}), if swallowed { Some("K20-FINISH") } else { None });
            }
        }
        // the failing invocation announces progress (half / all of the buffer) and then fails
        for &k in ks.iter().filter(|k| **k % 3 == 1) {
            for code in [1005u64, 2005] {
                let mut prog = base.clone();
                prog.ops.truncate(close_at + 1);
                prog.sink = vec![mode, 11, k, 0, code, 0];
                let res = run_child(&prog);
                let oracle = oracle_cb_failure(&res);
                emit(out, format!("c20-wfailp-m{mode}-k{k}-c{code}"), "write-callback-fails-after-progress", &prog, &res, oracle, false,
                     json!({"k": k, "code": code, "mode": mode}), None);
            }
        }
        // EINTR (code 4): std::io::Write::write_all retries, so the failure is not reported
        for &k in &[1u64, 3, ncalls.max(1)] {
            let mut prog = base.clone();
            prog.ops.truncate(close_at + 1);
            prog.sink = vec![mode, 11, k, 0, 4, 0];
            let res = run_child(&prog);
            let oracle = (|| {
                for (i, r) in res.rows.iter().enumerate() {
                    if r[1] & 4 != 0 && r[0] == ST_OK {
                        return Err(format!("call {i}: the write callback reported failure code 4 (EINTR) and the call returned MLA_STATUS_SUCCESS (write_all retried it)"));
                    }
                }
                Ok(())
            })();
            emit(out, format!("c20-eintr-m{mode}-k{k}"), "write-callback-eintr", &prog, &res, oracle, true, json!({"k": k, "code": 4}), Some("K20-EINTR"));
        }
    }
    // flush callback failing at its k-th invocation
    base.sink = default_sink(0, 11);
    for k in 1..=4u64 {
        let mut prog = base.clone();
        prog.ops.truncate(close_at + 1);
        prog.sink = vec![0, 11, 0, 0, 5, k];
        let res = run_child(&prog);
        let oracle = oracle_cb_failure(&res);
        emit(out, format!("c20-ffail-k{k}"), "flush-callback-fails", &prog, &res, oracle, true, json!({"k": k}), None);
    }
    // extraction: read / seek / file-writer failures (oracle only: the failing phase decides the status)
    let free = run_child(&base);
    let _ = free;
    for k in 1..=12u64 {
        for what in 0..4 {
            let mut prog = base.clone();
            prog.xc = match what {
                0 => vec![0, k, 0, 0, 0, 0, 0, 0],
                1 => vec![1, 0, k, 0, 0, 0, 0, 0],
                2 => vec![0, 0, 0, 0, 0, 2, k, (k % 2) as u64],
                _ => vec![0, 0, 0, if k % 3 == 0 { 2 } else { 0 }, if k % 3 != 0 { (k % 3) as u64 } else { 0 }, 0, 0, 0],
            };
            let res = run_child(&prog);
            let oracle = oracle_cb_failure(&res);
            emit(out, format!("c20-xfail-{what}-k{k}"), ["extract-read-fails", "extract-seek-fails", "extract-write-fails", "extract-file-callback"][what], &prog, &res, oracle, false,
                 json!({"k": k, "what": what, "status": res.rows.last().map(|r| r[0])}), None);
        }
    }
}

/// The round trips through write callbacks that accept part of each buffer, alone (shared with C13).
pub fn c20_rt_cases(rng: &mut Rng, tier: &str, out: &mut Out) {
    roundtrip_cases(rng, tier, out);
    interrupted_roundtrip_cases(rng, tier, out);
}

/// C13 through the C interface, "a destination that reports interruptions": the write callback returns EINTR (4)
/// once, at its k-th invocation, having taken nothing, and behaves normally when called again (the `return errno;`
/// of the README's callbacks when fwrite is interrupted by a signal). The archive must be completed and hold the
/// same files. (C20 reads the same behaviour as a failure report that is not passed on: K20-EINTR; these cases are
/// part of the C13 job only.)
fn interrupted_roundtrip_cases(rng: &mut Rng, tier: &str, out: &mut Out) {
    let n = if tier == "thorough" { 24 } else { 6 };
    for j in 0..n {
        let plan = gen_c_plan(rng, 3_000);
        let mode = (j % 3) as u64;
        let seed = rng.next();
        let mut free = plan_prog(&plan, mode, seed, 0);
        free.sink = default_sink(mode, 11);
        let ncalls = run_child(&free).sink_calls.first().copied().unwrap_or(1).max(1);
        for k in [1u64, 2, 1 + rng.below(ncalls), ncalls] {
            let mut prog = plan_prog(&plan, mode, seed, 0);
            prog.sink = vec![mode, 11, k, 0, 4, 0];
            let res = run_child(&prog);
            let oracle = (|| {
                if let Some(bad) = res.rows.iter().position(|r| r[0] != ST_OK) {
                    return Err(format!("write callback interrupted (EINTR) once at its invocation {k} of {ncalls}: call {bad} ({:?}) returned status {:#x} instead of reissuing the write", prog.ops[bad], res.rows[bad][0]));
                }
                oracle_roundtrip(&res.sinks[0], &plan, 1)
            })();
            emit(out, format!("c20-rt-eintr-{j}-k{k}"), &format!("roundtrip interrupted-once accept={}", ["all", "one", "random"][mode as usize]), &prog, &res, oracle, false,
                 json!({"k": k, "ncalls": ncalls, "mode": mode, "files": plan.names.len()}), None);
        }
    }
}

pub fn c20_cases(rng: &mut Rng, tier: &str, out: &mut Out) {
    misuse_cases(rng, tier, out);
    roundtrip_cases(rng, tier, out);
    decline_cases(rng, tier, out);
    foreign_extract_cases(rng, tier, out);
    failure_cases(rng, tier, out);
    random_cases(rng, tier, out);
}

/// Witness of D16 (repaired): a configuration handle consumed by mla_archive_new is refused
/// afterwards instead of being dereferenced as NULL.
pub fn witnesses() -> Vec<(&'static str, &'static str, fn() -> Result<(), String>)> {
    fn d16() -> Result<(), String> {
        if std::env::var("VERIF_BINDIR").is_err() {
            return Ok(()); // the C library is only built for the C20 job
        }
        let mut rng = Rng::new(1);
        let (name, prog, expect) = misuse_programs(&mut rng).into_iter().find(|p| p.0 == "D16").unwrap();
        let res = run_child(&prog);
        if let Some(d) = res.died {
            return Err(format!("{name}: {d}"));
        }
        for (i, st) in expect {
            if res.rows[i][0] != st {
                return Err(format!("call {i} returned {:#x}, expected {:#x}", res.rows[i][0], st));
            }
        }
        Ok(())
    }
    /// K20-FINISH (repaired): a write callback failing while the last compressed block is being
    /// finished must make mla_archive_close fail; sweep the failing invocation over the tail.
    fn k20_finish() -> Result<(), String> {
        if std::env::var("VERIF_BINDIR").is_err() {
            return Ok(());
        }
        let mut rng = Rng::new(20);
        let plan = small_plan(&mut rng);
        let mut base = plan_prog(&plan, 0, 1, 2);
        base.sink = default_sink(0, 11);
        let free = run_child(&base);
        let ncalls = free.sink_calls.first().copied().unwrap_or(0);
        if ncalls == 0 {
            return Err("the fault-free run never called the write callback".into());
        }
        for k in ncalls.saturating_sub(40).max(1)..=ncalls {
            let mut prog = base.clone();
            prog.sink = vec![0, 11, k, 0, 5, 0];
            let res = run_child(&prog);
            if let Some(d) = res.died {
                return Err(format!("k={k}: {d}"));
            }
            if res.rows.iter().zip(&prog.ops).any(|(r, op)| finish_swallow(op, r)) {
                return Err(format!("write callback failing at its invocation {k} of {ncalls}: mla_archive_close returned MLA_STATUS_SUCCESS"));
            }
        }
        Ok(())
    }
    vec![("D16", "C20", d16), ("K20-FINISH", "C20", k20_finish)]
}
