//! Fail-safe decompression reader (CompressionLayerFailSafeReader) on truncated compressed
//! streams: C02 (prefix, no panic, exactly D of the available bytes), C05 (monotone in the cut,
//! complete on the full wire), C13 (read sizes / throttled inner source), C14 (flush points).
//!   c02-comp [--aspect C02|C05|C13|C14]
//! Independent oracle: the blocks decoded with the `brotli` crate directly, and for every
//! prefix of every compressed block the number of plaintext bytes brotli's streaming decoder
//! (driven here, not through mla) has produced.  The same tables drive the model's decoder
//! instance (theories/RunFsComp.v).
#![allow(dead_code)]
#[allow(unused_imports)]
use crate::util::*;
#[allow(unused_imports)]
use serde_json::{json, Value};

#[cfg(feature = "scaled")]
pub use scaled::*;

#[cfg(not(feature = "scaled"))]
pub fn c02_comp_cases(_rng: &mut Rng, _tier: &str, _aspect: &str, _out: &mut Out) {}

#[cfg(feature = "scaled")]
mod scaled {
    use super::*;
    use crate::comp::{block, gen_plain, parse_footer};
    use brotli::writer::StandardAlloc;
    use brotli::{BrotliDecompressStream, BrotliResult, BrotliState};
    use mla::layers::compress::{CompressionConfig, CompressionLayerFailSafeReader, CompressionLayerWriter};
    use mla::layers::raw::{RawLayerFailSafeReader, RawLayerWriter};
    use mla::layers::traits::LayerWriter;
    use std::io::{Read, Write};
    use std::sync::{Arc, Mutex};

    type BState = BrotliState<StandardAlloc, StandardAlloc, StandardAlloc>;
    fn bstate() -> BState {
        BrotliState::new(StandardAlloc::default(), StandardAlloc::default(), StandardAlloc::default())
    }

    /// A destination whose content can be observed while the writer owns it.
    #[derive(Clone)]
    struct Shared(Arc<Mutex<Vec<u8>>>);
    impl Write for Shared {
        fn write(&mut self, buf: &[u8]) -> std::io::Result<usize> {
            self.0.lock().unwrap().extend_from_slice(buf);
            Ok(buf.len())
        }
        fn flush(&mut self) -> std::io::Result<()> {
            Ok(())
        }
    }

    pub struct FsStream {
        pub plain: Vec<u8>,
        pub wire: Vec<u8>,
        /// (bytes in the destination when flush() returned, plaintext bytes written before)
        pub flushes: Vec<(usize, usize)>,
        pub level: u32,
        pub class: usize,
        pub pieces: Vec<usize>,
    }

    /// A compressed-only layer stream written in random pieces, flush() after some of them.
    pub fn build_stream(rng: &mut Rng, len: usize, class: usize, level: u32, with_flush: bool) -> FsStream {
        let plain = gen_plain(rng, class, len);
        let sink = Shared(Arc::new(Mutex::new(Vec::new())));
        let mut w = Box::new(CompressionLayerWriter::new(
            Box::new(RawLayerWriter::new(sink.clone())),
            &CompressionConfig::verif_new(level),
        ));
        let mut pieces = Vec::new();
        let mut flushes = Vec::new();
        let mut off = 0usize;
        let bl = block() as usize;
        while off < len {
            let k = match rng.below(6) {
                0 => 1,
                1 => rng.range(2, 9) as usize,
                2 => rng.range(10, 100) as usize,
                3 => bl,
                4 => bl - (off % bl),
                _ => rng.range(1, 2 * bl as u64) as usize,
            }
            .min(len - off);
            w.write_all(&plain[off..off + k]).unwrap();
            off += k;
            pieces.push(k);
            if with_flush && rng.below(3) == 0 && flushes.len() < 4 {
                w.flush().unwrap();
                flushes.push((sink.0.lock().unwrap().len(), off));
            }
        }
        w.finalize().unwrap();
        drop(w);
        let wire = sink.0.lock().unwrap().clone();
        FsStream { plain, wire, flushes, level, class, pieces }
    }

    /// How a run of the fail-safe reader ended: 0 = Ok(0), 1 = UnexpectedEof, 2 = InvalidData,
    /// 3 = another error, 9 = panic, 8 = did not terminate.
    pub fn fs_read_all<R: Read>(src: R, bufsize: usize) -> (Vec<u8>, u64) {
        let r = catch(move || {
            let mut r = match CompressionLayerFailSafeReader::new(Box::new(RawLayerFailSafeReader::new(src))) {
                Ok(r) => r,
                Err(_) => return (Vec::new(), 3u64),
            };
            let mut out = Vec::new();
            let mut buf = vec![0u8; bufsize.max(1)];
            for _ in 0..2_000_000u64 {
                match r.read(&mut buf) {
                    Ok(0) => return (out, 0),
                    Ok(n) => out.extend_from_slice(&buf[..n]),
                    Err(e) => {
                        let st = match e.kind() {
                            std::io::ErrorKind::UnexpectedEof => 1,
                            std::io::ErrorKind::InvalidData => 2,
                            _ => 3,
                        };
                        return (out, st);
                    }
                }
            }
            (out, 8)
        });
        r.unwrap_or((Vec::new(), 9))
    }

    /// One call of the real streaming decoder: (result, consumed, produced bytes).
    fn bstep(st: &mut BState, inp: &[u8], room: usize) -> (u8, usize, Vec<u8>) {
        let mut avail_in = inp.len();
        let mut in_off = 0usize;
        let mut out = vec![0u8; room];
        let mut avail_out = room;
        let mut out_off = 0usize;
        let mut total = 0usize;
        let r = BrotliDecompressStream(&mut avail_in, &mut in_off, inp, &mut avail_out, &mut out_off, &mut out, &mut total, st);
        out.truncate(out_off);
        let code = match r {
            BrotliResult::ResultSuccess => 0,
            BrotliResult::NeedsMoreInput => 1,
            BrotliResult::NeedsMoreOutput => 2,
            BrotliResult::ResultFailure => 3,
        };
        (code, in_off, out)
    }

    /// cnt[L] = bytes produced once c[..L] was fed (byte by byte, unlimited room), L = 0..|c|.
    pub fn prefix_counts(c: &[u8], p: &[u8]) -> Result<Vec<u64>, String> {
        let mut st = bstate();
        let mut got: Vec<u8> = Vec::new();
        let mut cnt = vec![0u64];
        let room = p.len() + 64;
        for i in 0..c.len() {
            let mut inp: &[u8] = &c[i..i + 1];
            loop {
                let (code, k, out) = bstep(&mut st, inp, room);
                got.extend_from_slice(&out);
                inp = &inp[k..];
                match code {
                    0 => {
                        if i + 1 != c.len() || !inp.is_empty() {
                            return Err(format!("decoder reports the end of the stream after {} of {} bytes", i + 1 - inp.len(), c.len()));
                        }
                        break;
                    }
                    1 => {
                        if !inp.is_empty() {
                            return Err("NeedsMoreInput with input left".into());
                        }
                        break;
                    }
                    2 => continue,
                    _ => return Err(format!("decoder fails at byte {i} of a block")),
                }
            }
            cnt.push(got.len() as u64);
        }
        if got != p {
            return Err("streaming decode of the block differs from the plaintext".into());
        }
        Ok(cnt)
    }

    /// The fresh decoder on the bytes following the last block: smallest L such that feeding
    /// tail[..L] (byte by byte) gives ResultFailure; |tail|+1 when it never does.  Err when the
    /// footer decodes to something (output or a complete stream).
    pub fn tail_fail_at(tail: &[u8]) -> Result<u64, String> {
        let mut st = bstate();
        for i in 0..tail.len() {
            let (code, _k, out) = bstep(&mut st, &tail[i..i + 1], 4096);
            if !out.is_empty() {
                return Err(format!("the footer decodes to {} bytes of output", out.len()));
            }
            match code {
                3 => return Ok(i as u64 + 1),
                0 => return Err("a prefix of the footer is a complete brotli stream".into()),
                _ => {}
            }
        }
        Ok(tail.len() as u64 + 1)
    }

    pub struct Tables {
        pub blocks: Vec<(Vec<u8>, Vec<u8>, Vec<u64>)>,
        pub tail: Vec<u8>,
        pub fail_at: u64,
        pub body_len: usize,
    }

    pub fn tables(wire: &[u8]) -> Result<Tables, String> {
        let (sizes, _last, body_len) = parse_footer(wire).ok_or("footer")?;
        let mut off = 0usize;
        let mut blocks = Vec::new();
        for s in &sizes {
            let s = *s as usize;
            if off + s > body_len {
                return Err("sizes exceed the body".into());
            }
            let c = wire[off..off + s].to_vec();
            let mut p = Vec::new();
            brotli::Decompressor::new(&c[..], 4096).read_to_end(&mut p).map_err(|e| format!("brotli: {e}"))?;
            let cnt = prefix_counts(&c, &p)?;
            blocks.push((c, p, cnt));
            off += s;
        }
        if off != body_len {
            return Err(format!("blocks end at {off}, footer starts at {body_len}"));
        }
        let tail = wire[body_len..].to_vec();
        let fail_at = tail_fail_at(&tail)?;
        Ok(Tables { blocks, tail, fail_at, body_len })
    }

    /// What the tables say the reader delivers from wire[..n], and how it ends.
    pub fn expected(t: &Tables, n: usize) -> (Vec<u8>, u64) {
        let mut out = Vec::new();
        let mut off = 0usize;
        for (c, p, cnt) in &t.blocks {
            if n >= off + c.len() {
                out.extend_from_slice(p);
                off += c.len();
            } else {
                let k = cnt[n - off] as usize;
                out.extend_from_slice(&p[..k]);
                return (out, if k > 0 { 1 } else { 0 });
            }
        }
        let l = (n - off) as u64;
        (out, if l >= t.fail_at { 2 } else { 0 })
    }

    /// The laws the theorems assume of the decoder step (DecoderLaws in CompFailSafeProofs.v),
    /// observed on the real decoder: block j followed by the rest of the wire, fed in random
    /// slices with random output room.
    pub fn check_laws(rng: &mut Rng, t: &Tables, wire: &[u8]) -> Result<u64, String> {
        let mut calls = 0u64;
        let mut start = 0usize;
        for (c, p, cnt) in &t.blocks {
            for _rep in 0..3 {
                let data = &wire[start..];
                let mut st = bstate();
                let mut cin = 0usize;
                let mut cout = 0usize;
                let mut offered = 0usize; // bytes of data handed over so far (cin <= offered)
                loop {
                    calls += 1;
                    if calls > 10_000_000 {
                        return Err("law check does not terminate".into());
                    }
                    let more = match rng.below(5) {
                        0 => 0,
                        1 => 1,
                        2 => rng.range(1, 8) as usize,
                        3 => rng.range(1, 40) as usize,
                        _ => rng.range(1, 400) as usize,
                    };
                    offered = (offered.max(cin) + more).min(data.len());
                    let inp = &data[cin..offered];
                    let room = match rng.below(4) {
                        0 => 0,
                        1 => 1,
                        2 => rng.range(1, 16) as usize,
                        _ => rng.range(1, 600) as usize,
                    };
                    let (code, k, out) = bstep(&mut st, inp, room);
                    if k > inp.len() || out.len() > room {
                        return Err("consumed / produced more than given".into());
                    }
                    if cin + k > c.len() {
                        return Err(format!("decoder consumed {} bytes of a {}-byte stream", cin + k, c.len()));
                    }
                    if code == 3 {
                        return Err(format!("ResultFailure on a valid stream after {} bytes", cin + k));
                    }
                    if p[cout..].len() < out.len() || p[cout..cout + out.len()] != out[..] {
                        return Err("output is not the plaintext".into());
                    }
                    cin += k;
                    cout += out.len();
                    if cout as u64 > cnt[cin] {
                        return Err(format!("{} bytes out of a {}-byte prefix whose byte-by-byte decode gives {}", cout, cin, cnt[cin]));
                    }
                    match code {
                        0 => {
                            if cin != c.len() || cout != p.len() {
                                return Err(format!("ResultSuccess after {cin} of {} bytes in, {cout} of {} out", c.len(), p.len()));
                            }
                            break;
                        }
                        1 => {
                            if k != inp.len() {
                                return Err("NeedsMoreInput with input left".into());
                            }
                            if out.len() != room && cout as u64 != cnt[cin] {
                                return Err(format!("NeedsMoreInput with room left and {} of {} decodable bytes delivered", cout, cnt[cin]));
                            }
                        }
                        _ => {
                            if out.len() != room {
                                return Err("NeedsMoreOutput with room left".into());
                            }
                            if cout as u64 >= cnt[cin] {
                                return Err("NeedsMoreOutput with nothing pending".into());
                            }
                        }
                    }
                }
            }
            start += c.len();
        }
        Ok(calls)
    }

    fn is_prefix(a: &[u8], b: &[u8]) -> bool {
        a.len() <= b.len() && b[..a.len()] == a[..]
    }

    fn jtables(t: &Tables) -> (Value, Value) {
        let tab = Value::Array(
            t.blocks.iter().map(|(c, p, cnt)| json!([jbytes(c), jbytes(p), cnt])).collect(),
        );
        let tail = json!([jbytes(&t.tail), [t.fail_at]]);
        (tab, tail)
    }

    const READ_SIZES: [usize; 4] = [1, 7, 32, 4096];

    pub fn c02_comp_cases(rng: &mut Rng, tier: &str, aspect: &str, out: &mut Out) {
        let bl = block() as usize;
        let nstreams = if tier == "thorough" { 160 } else { 40 };
        let want = |a: &str| aspect.is_empty() || aspect == a;
        for si in 0..nstreams {
            let len = match si {
                0 => 0,
                1 => 1,
                2 => bl,
                3 => 2 * bl,
                4 => 3 * bl + 20,
                5 => bl + 1,
                6 => bl - 1,
                _ => rng.below((3 * bl + 21) as u64) as usize,
            };
            let class = si % 3;
            let level = [0u32, 5, 11][(si / 3) % 3];
            let with_flush = si % 2 == 1;
            let s = build_stream(rng, len, class, level, with_flush);
            let cname = ["runs", "text", "random"][class];
            let base_class = format!("fs-comp {} level={} blocks={}{}", cname, level, (len + bl - 1) / bl, if s.flushes.is_empty() { "" } else { " flushed" });
            let meta = json!({"len": len, "wire_len": s.wire.len(), "level": level, "pieces": s.pieces.len(), "flushes": s.flushes});
            let t = match tables(&s.wire) {
                Ok(t) => t,
                Err(e) => {
                    out.case(&Case {
                        id: format!("fscomp-{si}-tables"), model_fn: "", args: vec![], imp: json!([]),
                        oracle_ok: false, oracle_msg: format!("independent decode of the stream: {e}"),
                        class: "fs-comp unparsable".into(), nontrivial: false, meta: meta.clone(),
                    });
                    continue;
                }
            };
            let cat: Vec<u8> = t.blocks.iter().flat_map(|(_, p, _)| p.iter().copied()).collect();
            // ---- every truncation length, every read size
            let n_cuts = s.wire.len() + 1;
            let mut outs: Vec<Vec<(usize, u64)>> = Vec::with_capacity(n_cuts); // per cut, per read size: (output length, status)
            let mut msg_prefix: Option<String> = None; // C02
            let mut msg_exact: Option<String> = None; // C02 (D4-D6: everything decodable is delivered)
            let mut msg_mono: Option<String> = None; // C05
            let mut msg_sizes: Option<String> = None; // C13
            let mut prev: Vec<usize> = vec![0; READ_SIZES.len()];
            if cat != s.plain {
                msg_prefix = Some("the independently decoded blocks differ from the plaintext written".into());
            }
            for n in 0..n_cuts {
                let (exp, exp_st) = expected(&t, n);
                let mut row = Vec::new();
                for (ri, rs) in READ_SIZES.iter().enumerate() {
                    let (got, st) = fs_read_all(&s.wire[..n], *rs);
                    if st == 9 || st == 8 {
                        msg_prefix.get_or_insert(format!("cut {n}, read size {rs}: {}", if st == 9 { "panic" } else { "no termination" }));
                    }
                    if !is_prefix(&got, &s.plain) {
                        msg_prefix.get_or_insert(format!("cut {n}, read size {rs}: the {} bytes delivered are not a prefix of the plaintext", got.len()));
                    }
                    if got != exp {
                        msg_exact.get_or_insert(format!("cut {n}, read size {rs}: {} bytes delivered, the available compressed bytes decode to {}", got.len(), exp.len()));
                    } else if st != exp_st {
                        msg_exact.get_or_insert(format!("cut {n}, read size {rs}: ends with status {st}, expected {exp_st}"));
                    }
                    if got.len() < prev[ri] {
                        msg_mono.get_or_insert(format!("cut {n}, read size {rs}: {} bytes, one byte less gave {}", got.len(), prev[ri]));
                    }
                    prev[ri] = got.len();
                    row.push((got.len(), st));
                }
                if row.iter().any(|x| x.0 != row[0].0) {
                    msg_sizes.get_or_insert(format!("cut {n}: output lengths per read size {READ_SIZES:?}: {:?}", row.iter().map(|x| x.0).collect::<Vec<_>>()));
                }
                if n >= t.body_len && row.iter().any(|x| x.0 != s.plain.len()) {
                    msg_mono.get_or_insert(format!("cut {n} (all blocks present): {:?} of {} bytes delivered", row.iter().map(|x| x.0).collect::<Vec<_>>(), s.plain.len()));
                }
                outs.push(row);
            }
            let nontrivial = len > 0;
            if want("C02") {
                out.case(&Case {
                    id: format!("fscomp-{si}-prefix"), model_fn: "", args: vec![], imp: json!([]),
                    oracle_ok: msg_prefix.is_none(), oracle_msg: msg_prefix.clone().unwrap_or_default(),
                    class: format!("{base_class} every-cut prefix"), nontrivial, meta: meta.clone(),
                });
                out.case(&Case {
                    id: format!("fscomp-{si}-exact"), model_fn: "", args: vec![], imp: json!([]),
                    oracle_ok: msg_exact.is_none(), oracle_msg: msg_exact.clone().unwrap_or_default(),
                    class: format!("{base_class} every-cut exact"), nontrivial, meta: meta.clone(),
                });
                let laws = check_laws(rng, &t, &s.wire);
                out.case(&Case {
                    id: format!("fscomp-{si}-laws"), model_fn: "", args: vec![], imp: json!([]),
                    oracle_ok: laws.is_ok(), oracle_msg: laws.clone().err().map(|e| format!("decoder law not met by brotli: {e}")).unwrap_or_default(),
                    class: format!("{base_class} decoder-laws"), nontrivial,
                    meta: json!({"len": len, "calls": laws.unwrap_or(0)}),
                });
            }
            if want("C05") {
                out.case(&Case {
                    id: format!("fscomp-{si}-monotone"), model_fn: "", args: vec![], imp: json!([]),
                    oracle_ok: msg_mono.is_none(), oracle_msg: msg_mono.clone().unwrap_or_default(),
                    class: format!("{base_class} every-cut monotone+complete"), nontrivial, meta: meta.clone(),
                });
            }
            if want("C13") {
                // a throttled inner source at a sample of cuts
                let mut msg = msg_sizes.clone();
                let mut cuts: Vec<usize> = (0..12).map(|_| rng.below(n_cuts as u64) as usize).collect();
                cuts.push(s.wire.len());
                cuts.push(t.body_len);
                for n in cuts {
                    let (exp, _) = fs_read_all(&s.wire[..n], 4096);
                    for q in [1usize, 2, 3] {
                        let rs = *rng.pick(&READ_SIZES);
                        let (got, _st) = fs_read_all(ThrottledReader::new(&s.wire[..n], vec![q]), rs);
                        if got != exp {
                            msg.get_or_insert(format!("cut {n}: {} bytes through a source returning {q} bytes per read (read size {rs}), {} from memory", got.len(), exp.len()));
                        }
                    }
                }
                out.case(&Case {
                    id: format!("fscomp-{si}-sched"), model_fn: "", args: vec![], imp: json!([]),
                    oracle_ok: msg.is_none(), oracle_msg: msg.unwrap_or_default(),
                    class: format!("{base_class} read-sizes+throttled"), nontrivial, meta: meta.clone(),
                });
            }
            if want("C14") && !s.flushes.is_empty() {
                let mut msg: Option<String> = None;
                for (f, g) in &s.flushes {
                    for (ri, rs) in READ_SIZES.iter().enumerate() {
                        let got = outs[*f][ri].0;
                        if got < *g {
                            msg.get_or_insert(format!("flush after {g} plaintext bytes left {f} bytes in the destination; the fail-safe reader (read size {rs}) delivers {got} of them"));
                        }
                    }
                }
                out.case(&Case {
                    id: format!("fscomp-{si}-flush"), model_fn: "", args: vec![], imp: json!([]),
                    oracle_ok: msg.is_none(), oracle_msg: msg.unwrap_or_default(),
                    class: format!("{base_class} flush-points"), nontrivial: s.flushes.iter().any(|x| x.1 > 0), meta: meta.clone(),
                });
            }
            // ---- model comparison on a sample of cuts (total output and final status)
            let (jtab, jtail) = jtables(&t);
            let mut cuts: Vec<(usize, &str)> = Vec::new();
            if want("C02") || want("C05") {
                cuts.push((rng.below(n_cuts as u64) as usize, "random"));
                cuts.push((rng.below(t.body_len as u64 + 1) as usize, "in-body"));
                if let Some((c, _, _)) = t.blocks.first() {
                    cuts.push((c.len(), "block-end"));
                    cuts.push((c.len() - 1, "block-end-1"));
                    cuts.push(((c.len() + 1).min(s.wire.len()), "block-end+1"));
                }
                cuts.push((t.body_len + rng.below(t.tail.len() as u64 + 1) as usize, "in-footer"));
                cuts.push((s.wire.len(), "full"));
            }
            if want("C13") {
                cuts.push((rng.below(n_cuts as u64) as usize, "random"));
                cuts.push((rng.below(t.body_len as u64 + 1) as usize, "in-body"));
                cuts.push((s.wire.len(), "full"));
            }
            if want("C14") {
                for (f, _) in &s.flushes {
                    cuts.push((*f, "flush-point"));
                }
            }
            for (ci, (n, what)) in cuts.iter().enumerate() {
                let rs = *rng.pick(&READ_SIZES);
                let q: usize = if want("C13") && aspect == "C13" { *rng.pick(&[1usize, 2, 3, 5]) } else { *rng.pick(&[0usize, 0, 0, 1, 3]) };
                let (got, st) = if q == 0 {
                    fs_read_all(&s.wire[..*n], rs)
                } else {
                    fs_read_all(ThrottledReader::new(&s.wire[..*n], vec![q]), rs)
                };
                let (exp, _) = expected(&t, *n);
                let ok = got == exp;
                let mut rows = vec![vec![st]];
                rows.push(got.iter().map(|b| *b as u64).collect());
                out.case(&Case {
                    id: format!("fscomp-{si}-model-{ci}"),
                    model_fn: "fscomp_read_all",
                    args: vec![jtab.clone(), jtail.clone(), jbytes(&s.wire[..*n]), json!([rs, q])],
                    imp: json!(rows),
                    oracle_ok: ok,
                    oracle_msg: if ok { String::new() } else { format!("cut {n}: {} bytes delivered, tables say {}", got.len(), exp.len()) },
                    class: format!("{base_class} model cut={what} read={rs} inner={}", if q == 0 { "memory".to_string() } else { format!("{q}/read") }),
                    nontrivial: !got.is_empty(),
                    meta: json!({"len": len, "cut": n, "wire_len": s.wire.len(), "read": rs, "quota": q, "status": st}),
                });
            }
        }
    }
}
