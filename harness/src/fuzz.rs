//! C08: untrusted input never crashes, hangs or exhausts memory.
//!
//! * a counting global allocator (live / peak bytes) for the whole harness binary;
//! * a corpus of valid archives (4 layer combinations) and structured mutants of them
//!   (truncation, bit flip, byte substitution, 4/8-byte field overwrite, block / footer / size
//!   table splices, an exhaustive field sweep of the last 64 bytes of unencrypted archives,
//!   "attacker-owned" bodies re-wrapped under each layer combination with the archive's own
//!   key, random tails after a valid header);
//! * every input is run in a CHILD process (a stack overflow aborts the process), each case in
//!   its own 8 MiB-stack thread under a watchdog; the parent attributes an abnormal exit to the
//!   case that was running;
//! * oracle: no panic, no abort, no time-out, peak allocation under a ceiling;
//! * model comparison (scaled, layers none / encrypt): rows of hist_plain / hist_enc /
//!   repair_plain / repair_enc.
#![allow(dead_code)]
use crate::archive::*;
use crate::repair::repair_bytes;
use crate::util::*;
use mla::config::{ArchiveReaderConfig, ArchiveWriterConfig};
use mla::helpers::linear_extract;
use mla::layers::compress::{CompressionConfig, CompressionLayerWriter};
use mla::layers::raw::RawLayerWriter;
use mla::layers::traits::LayerWriter;
use mla::{ArchiveFailSafeReader, ArchiveWriter, Layers};
use serde_json::{json, Value};
use std::alloc::{GlobalAlloc, Layout, System};
use std::collections::HashMap;
use std::io::{BufRead, BufReader, Read, Write};
use std::process::{Command, Stdio};
use std::sync::atomic::{AtomicUsize, Ordering};
use std::sync::mpsc;
use std::time::{Duration, Instant};
use x25519_dalek::StaticSecret;

// ---------------------------------------------------------------- counting allocator

pub struct Counting;
static LIVE: AtomicUsize = AtomicUsize::new(0);
static PEAK: AtomicUsize = AtomicUsize::new(0);

#[inline]
fn grow(n: usize) {
    let live = LIVE.fetch_add(n, Ordering::Relaxed) + n;
    PEAK.fetch_max(live, Ordering::Relaxed);
}

unsafe impl GlobalAlloc for Counting {
    unsafe fn alloc(&self, l: Layout) -> *mut u8 {
        let p = System.alloc(l);
        if !p.is_null() {
            grow(l.size());
        }
        p
    }
    unsafe fn alloc_zeroed(&self, l: Layout) -> *mut u8 {
        let p = System.alloc_zeroed(l);
        if !p.is_null() {
            grow(l.size());
        }
        p
    }
    unsafe fn dealloc(&self, p: *mut u8, l: Layout) {
        System.dealloc(p, l);
        LIVE.fetch_sub(l.size(), Ordering::Relaxed);
    }
    unsafe fn realloc(&self, p: *mut u8, l: Layout, new: usize) -> *mut u8 {
        let q = System.realloc(p, l, new);
        if !q.is_null() {
            if new >= l.size() {
                grow(new - l.size());
            } else {
                LIVE.fetch_sub(l.size() - new, Ordering::Relaxed);
            }
        }
        q
    }
}

#[global_allocator]
static GLOBAL: Counting = Counting;

/// Run f and return (result, peak allocation above the live bytes at entry).
pub fn measure<T>(f: impl FnOnce() -> T) -> (T, usize) {
    let live0 = LIVE.load(Ordering::Relaxed);
    PEAK.store(live0, Ordering::Relaxed);
    let r = f();
    let peak = PEAK.load(Ordering::Relaxed);
    (r, peak.saturating_sub(live0))
}

/// Fixed buffers that are legitimate: the 8 MiB repair cache and 128 KiB chunk caches at
/// production constants; with the compression layer the brotli decoder state, whose ring
/// buffer follows the window announced by the stream (up to 16 MiB).
pub fn alloc_ceiling(bytes: &[u8]) -> usize {
    let comp_possible = bytes.get(7).map_or(false, |b| b & 2 != 0);
    let base = if !cfg!(feature = "scaled") {
        64usize << 20
    } else if comp_possible {
        40usize << 20
    } else {
        8usize << 20
    };
    base + 64 * bytes.len()
}

const CASE_TIME_LIMIT: Duration = Duration::from_secs(5);

// ---------------------------------------------------------------- sinks

struct NullSink(u64);
impl Write for NullSink {
    fn write(&mut self, b: &[u8]) -> std::io::Result<usize> {
        self.0 += b.len() as u64;
        Ok(b.len())
    }
    fn flush(&mut self) -> std::io::Result<()> {
        Ok(())
    }
}

// ---------------------------------------------------------------- the operations

#[derive(Default)]
pub struct Exercise {
    pub opened: bool,
    pub oks: u64,
    pub errs: u64,
    pub names: usize,
    pub bytes_read: u64,
    pub capped: bool,
    pub panics: Vec<String>,
    pub repair_status: Vec<i64>,
}

fn note<T, E>(ex: &mut Exercise, what: &str, r: Result<Result<T, E>, String>) -> Option<T> {
    match r {
        Ok(Ok(v)) => {
            ex.oks += 1;
            Some(v)
        }
        Ok(Err(_)) => {
            ex.errs += 1;
            None
        }
        Err(p) => {
            ex.panics.push(format!("{what}: {p}{}", take_panic_loc()));
            None
        }
    }
}

static PANIC_LOG: std::sync::Mutex<Vec<String>> = std::sync::Mutex::new(Vec::new());

/// record message and source location of every panic (only the message comes through `catch`)
pub fn install_panic_loc_hook() {
    std::panic::set_hook(Box::new(|info| {
        let msg = if let Some(s) = info.payload().downcast_ref::<&str>() {
            (*s).to_string()
        } else if let Some(s) = info.payload().downcast_ref::<String>() {
            s.clone()
        } else {
            "panic".to_string()
        };
        let loc = info.location().map(|l| format!("{}:{}", l.file().rsplit("/mla/").next().unwrap_or(l.file()), l.line())).unwrap_or_default();
        if let Ok(mut g) = PANIC_LOG.lock() {
            g.push(format!("{msg} at {loc}"));
        }
    }));
}

fn take_panic_log() -> Vec<String> {
    PANIC_LOG.lock().map(|mut g| std::mem::take(&mut *g)).unwrap_or_default()
}

fn take_panic_loc() -> String {
    match take_panic_log().last() {
        Some(l) => l.rsplit(" at ").next().map(|s| format!(" at {s}")).unwrap_or_default(),
        None => String::new(),
    }
}

/// open findings (known_findings.json): panic classes tolerated until the code is repaired.
/// None at present (D19, D20, D21 are repaired and have regression witnesses below).
fn known_panic(_msg: &str) -> Option<&'static str> {
    None
}

fn known_of_panics(panics: &[String]) -> Option<&'static str> {
    let mut key = None;
    for p in panics {
        match known_panic(p) {
            Some(k) => key = Some(k),
            None => return None,
        }
    }
    key
}

/// open -> list -> per name: hash, get_file + read to end with buffers {1, 7, 4096} -> linear
/// extraction of everything -> the same reader is used again after any error -> drop;
/// then repair (both modes when `enc`).
pub fn exercise(bytes: &[u8], privs: &[StaticSecret], enc: bool) -> Exercise {
    let mut ex = Exercise::default();
    let opened = catch(|| open_reader(bytes, privs));
    if let Some(mut rd) = note(&mut ex, "open", opened) {
        ex.opened = true;
        let listed = catch(|| rd.list_files().map(|it| it.cloned().collect::<Vec<String>>()));
        let mut names = note(&mut ex, "list_files", listed).unwrap_or_default();
        names.sort();
        ex.names = names.len();
        // also a name that is not there
        let mut probe: Vec<String> = names.iter().take(24).cloned().collect();
        probe.push("no such file".to_string());
        let read_cap = 64 * bytes.len() as u64 + 65536;
        for name in &probe {
            let h = catch(|| rd.get_hash(name));
            note(&mut ex, "get_hash", h);
            for bufsize in [1usize, 7, 4096] {
                let r = catch(|| -> Result<(u64, bool), ()> {
                    match rd.get_file(name.clone()) {
                        Ok(Some(mut f)) => {
                            let mut buf = vec![0u8; bufsize];
                            let mut total = 0u64;
                            let mut calls = 0u64;
                            loop {
                                match f.data.read(&mut buf) {
                                    Ok(0) => return Ok((total, false)),
                                    Ok(n) => total += n as u64,
                                    Err(_) => return Err(()),
                                }
                                calls += 1;
                                if calls > read_cap {
                                    return Ok((total, true));
                                }
                            }
                        }
                        Ok(None) => Ok((0, false)),
                        Err(_) => Err(()),
                    }
                });
                if let Some((n, capped)) = note(&mut ex, "get_file/read", r) {
                    ex.bytes_read += n;
                    ex.capped |= capped;
                }
            }
        }
        let lx = catch(|| {
            let mut export: HashMap<&String, NullSink> = HashMap::new();
            for n in &names {
                export.insert(n, NullSink(0));
            }
            linear_extract(&mut rd, &mut export)
        });
        note(&mut ex, "linear_extract", lx);
        // the same with only every second name chosen, and with nothing chosen: blocks of files that are
        // not extracted are skipped by their (untrusted) length
        let lx2 = catch(|| {
            let mut export: HashMap<&String, NullSink> = HashMap::new();
            for n in names.iter().step_by(2) {
                export.insert(n, NullSink(0));
            }
            linear_extract(&mut rd, &mut export)
        });
        note(&mut ex, "linear_extract (subset)", lx2);
        let lx3 = catch(|| {
            let mut export: HashMap<&String, NullSink> = HashMap::new();
            linear_extract(&mut rd, &mut export)
        });
        note(&mut ex, "linear_extract (nothing chosen)", lx3);
        // the reader is still usable after whatever happened above
        let again = catch(|| rd.list_files().map(|it| it.count()));
        note(&mut ex, "list_files (again)", again);
        if let Some(n0) = names.first() {
            let h = catch(|| rd.get_hash(n0));
            note(&mut ex, "get_hash (again)", h);
            let g = catch(|| rd.get_file(n0.clone()).map(|f| f.map(|mut f| {
                let mut b = [0u8; 16];
                f.data.read(&mut b).ok()
            })));
            note(&mut ex, "get_file (again)", g);
        }
        if let Err(p) = catch(move || drop(rd)) {
            ex.panics.push(format!("drop: {p}"));
        }
    }
    let modes: &[bool] = if enc { &[false, true] } else { &[false] };
    for unauth in modes {
        let r = catch(|| -> Result<i64, ()> {
            let mut cfg = ArchiveReaderConfig::new();
            cfg.add_private_keys(privs);
            if *unauth {
                cfg.failsafe_return_data_even_unauthenticated();
            } else {
                cfg.failsafe_return_only_authenticated_data();
            }
            let mut fsr = ArchiveFailSafeReader::from_config(bytes, cfg).map_err(|_| ())?;
            let mut wcfg = ArchiveWriterConfig::new();
            wcfg.set_layers(Layers::EMPTY);
            let mut w = ArchiveWriter::from_config(NullSink(0), wcfg).map_err(|_| ())?;
            let st = fsr.convert_to_archive(&mut w).map_err(|_| ())?;
            Ok(crate::repair::status_code(&st).0 as i64)
        });
        let st = note(&mut ex, "repair", r).unwrap_or(-1);
        ex.repair_status.push(st);
    }
    ex
}

// ---------------------------------------------------------------- corpus

pub struct Base {
    pub plan: Plan,
    pub built: Built,
}

#[derive(Clone, Debug)]
pub enum Recipe {
    Valid { base: usize },
    Mutant { base: usize, other: usize, seed: u64, body_only: bool, model: bool },
    Sweep { base: usize, back: usize, width: usize, val: usize },
    Owned { plain_base: usize, wrap_base: usize, seed: u64, model: bool },
    RandomTail { base: usize, seed: u64 },
    /// the `field`-th 8-byte field (block id or length) of a layer-less body set to BLOCK_FIELD_VALUES[val], under the layers of `wrap_base`
    BlockField { plain_base: usize, wrap_base: usize, field: usize, val: usize },
}

/// values for the id / length fields of blocks: small, around 2^20 (a threshold a skip-by-seek optimisation
/// would plausibly use), around the 32/63/64-bit edges and values that wrap when added to a position
pub const BLOCK_FIELD_VALUES: [u64; 12] = [0, 1, (1 << 20) - 1, 1 << 20, (1 << 20) + 1, 1 << 31, (1 << 32) + 5, (1 << 63) - 1, 1 << 63, u64::MAX - 16, u64::MAX - 1, u64::MAX];

/// offsets (inside a layer-less body) of the id and length fields of its blocks, up to the end-of-data marker
pub fn block_fields(body: &[u8]) -> Vec<usize> {
    let mut v = Vec::new();
    let mut p = 0usize;
    while let Some(&t) = body.get(p) {
        if t == 0xFE {
            break;
        }
        v.push(p + 1); // id
        p += 9;
        match t {
            0 | 1 => {
                let Some(l) = body.get(p..p + 8) else { break };
                v.push(p); // name / content length
                p += 8 + u64::from_le_bytes(l.try_into().unwrap()) as usize;
            }
            0xFF => p += 32,
            _ => break,
        }
    }
    v
}

pub struct Corpus {
    pub bases: Vec<Base>,
    pub recipes: Vec<Recipe>,
}

pub struct Input {
    pub id: String,
    pub class: String,
    pub bytes: Vec<u8>,
    pub privs: Vec<StaticSecret>,
    pub layers: u8,
    pub header_len: usize,
    pub key: [u8; 32],
    pub nonce: [u8; 8],
    pub names: Vec<Vec<u8>>,
    pub model: bool,
}

fn small_plan(rng: &mut Rng, layers: u8) -> Plan {
    let nfiles = rng.range(1, 3) as usize;
    let names = gen_names(rng, nfiles);
    let sizes: &[usize] = &[0, 1, 2, 23, 24, 25, 47, 48, 63, 64, 65, 80, 128, 200, 256, 257];
    let npieces = rng.range(0, 5) as usize;
    let entropy = rng.below(3);
    let mut pieces = Vec::new();
    let mut total = 0usize;
    for _ in 0..npieces {
        let f = rng.below(nfiles as u64) as usize;
        let mut n = *rng.pick(sizes);
        if total + n > 700 {
            n = 3;
        }
        total += n;
        let data: Vec<u8> = match entropy {
            0 => vec![0u8; n],
            1 => (0..n).map(|i| b"the quick brown fox "[i % 20]).collect(),
            _ => rng.bytes(n),
        };
        pieces.push((f, data));
    }
    Plan { names, pieces, layers, level: *rng.pick(&[0u32, 5, 11]), recipients: 1, reader_key: 0 }
}

const FIELD_VALUES: [u64; 6] = [0, 1, 1 << 31, (1 << 32) - 1, 1 << 63, u64::MAX];
const BYTE_VALUES: [u8; 6] = [0, 1, 0x7f, 0x80, 0xfe, 0xff];

fn le_at(b: &[u8], pos: usize, width: usize) -> u64 {
    let mut v = 0u64;
    for i in 0..width {
        v |= (*b.get(pos + i).unwrap_or(&0) as u64) << (8 * i);
    }
    v
}

fn put_le(b: &mut [u8], pos: usize, width: usize, v: u64) {
    for i in 0..width {
        if pos + i < b.len() {
            b[pos + i] = (v >> (8 * i)) as u8;
        }
    }
}

/// start of the region announced by the trailing 4-byte length (archive footer of a
/// layer-less archive, SizesInfo of a compressed one), if it lies in the body
fn tail_region(bytes: &[u8], header_len: usize) -> Option<usize> {
    if bytes.len() < header_len + 4 {
        return None;
    }
    let l = le_at(bytes, bytes.len() - 4, 4) as usize;
    if l + 4 <= bytes.len() - header_len {
        Some(bytes.len() - 4 - l)
    } else {
        None
    }
}

fn field_value(rng: &mut Rng, cur: u64, total: usize, rest: usize) -> u64 {
    match rng.below(12) {
        0..=5 => FIELD_VALUES[rng.below(6) as usize],
        6 => cur.wrapping_add(1),
        7 => cur.wrapping_sub(1),
        8 => total as u64,
        9 => (total as u64).wrapping_add(1),
        10 => (rest as u64).wrapping_sub(1),
        _ => rest as u64 + 1,
    }
}

/// one structured mutation; `lo` = first offset that may be touched
fn mutate_once(rng: &mut Rng, b: &mut Vec<u8>, other: &[u8], lo: usize, header_len: usize, other_header_len: usize, tags: &mut Vec<&'static str>) {
    if b.len() <= lo {
        return;
    }
    // positions: half of the time in the tail region / last 64 bytes
    let pick_pos = |rng: &mut Rng, b: &Vec<u8>| -> usize {
        let n = b.len();
        let tail_lo = tail_region(b, header_len).unwrap_or(n.saturating_sub(64)).max(lo).min(n - 1);
        match rng.below(4) {
            0 => rng.range(tail_lo as u64, n as u64 - 1) as usize,
            1 => rng.range(n.saturating_sub(64).max(lo) as u64, n as u64 - 1) as usize,
            _ => rng.range(lo as u64, n as u64 - 1) as usize,
        }
    };
    match rng.below(8) {
        0 => {
            let cut = rng.range(lo as u64, b.len() as u64) as usize;
            b.truncate(cut);
            tags.push("truncate");
        }
        1 => {
            let p = pick_pos(rng, b);
            b[p] ^= 1 << rng.below(8);
            tags.push("bitflip");
        }
        2 => {
            let p = pick_pos(rng, b);
            b[p] = *rng.pick(&BYTE_VALUES);
            tags.push("bytesub");
        }
        3 | 4 => {
            let p = pick_pos(rng, b);
            let width = if rng.below(2) == 0 { 4 } else { 8 };
            let cur = le_at(b, p, width);
            let v = field_value(rng, cur, b.len(), b.len() - p);
            put_le(b, p, width, v);
            tags.push(if width == 4 { "field4" } else { "field8" });
        }
        5 => {
            // tail (footer / size table) of the other archive on this one
            let fa = tail_region(b, header_len).unwrap_or(b.len()).max(lo);
            let fb = tail_region(other, other_header_len).unwrap_or(other.len());
            b.truncate(fa);
            b.extend_from_slice(&other[fb..]);
            tags.push("footer-splice");
        }
        6 => {
            // arbitrary cut points
            let a = rng.range(lo as u64, b.len() as u64) as usize;
            let c = rng.range(other_header_len.min(other.len()) as u64, other.len() as u64) as usize;
            b.truncate(a);
            b.extend_from_slice(&other[c..]);
            tags.push("splice");
        }
        _ => {
            // move / duplicate a slice inside the archive (block splice)
            let a = rng.range(lo as u64, b.len() as u64 - 1) as usize;
            let l = rng.range(1, 48).min((b.len() - a) as u64) as usize;
            let piece = b[a..a + l].to_vec();
            let at = rng.range(lo as u64, b.len() as u64) as usize;
            let tail = b.split_off(at);
            b.extend_from_slice(&piece);
            b.extend_from_slice(&tail);
            tags.push("dup-slice");
        }
    }
}

fn gcm_wrap(key: &[u8; 32], nonce8: &[u8; 8], plain: &[u8]) -> Vec<u8> {
    use aes_gcm::aead::{Aead, KeyInit, Payload};
    use aes_gcm::{Aes256Gcm, Nonce};
    let chunk: usize = if cfg!(feature = "scaled") { 64 } else { 128 * 1024 };
    let cipher = Aes256Gcm::new_from_slice(key).unwrap();
    let mut out = Vec::new();
    // as the writer does: a chunk is closed when the NEXT byte arrives, the last one at finalize
    let mut chunks: Vec<&[u8]> = plain.chunks(chunk).collect();
    if chunks.is_empty() {
        chunks.push(&[]);
    }
    for (i, c) in chunks.iter().enumerate() {
        let mut n = [0u8; 12];
        n[..8].copy_from_slice(nonce8);
        n[8..].copy_from_slice(&(i as u32).to_be_bytes());
        let ct = cipher.encrypt(Nonce::from_slice(&n), Payload { msg: c, aad: b"" }).unwrap();
        out.extend_from_slice(&ct);
    }
    out
}

fn comp_wrap(plain: &[u8]) -> Vec<u8> {
    let mut w = Box::new(CompressionLayerWriter::new(Box::new(RawLayerWriter::new(Vec::new())), &CompressionConfig::default()));
    w.write_all(plain).unwrap();
    w.finalize().unwrap();
    w.into_raw()
}

impl Corpus {
    /// The base archives are generated ONCE (by the parent): encrypted archives draw their key
    /// from the OS inside `mla`, so another process would build different bytes.
    pub fn new(seed: u64, tier: &str, bases_file: Option<&str>) -> Corpus {
        let mut rng = Rng::new(seed ^ 0xC08);
        let thorough = tier == "thorough";
        let per_combo = if thorough { 6 } else { 3 };
        let mut bases = Vec::new();
        if let Some(f) = bases_file {
            let txt = std::fs::read_to_string(f).expect("bases file");
            let v: Vec<Value> = serde_json::from_str(&txt).expect("bases json");
            for b in v {
                let hx = |k: &str| hex::decode(b[k].as_str().unwrap_or("")).unwrap_or_default();
                let mut key = [0u8; 32];
                key.copy_from_slice(&hx("key"));
                let mut nonce = [0u8; 8];
                nonce.copy_from_slice(&hx("nonce"));
                let privs: Vec<StaticSecret> = b["privs"].as_array().unwrap().iter().map(|p| {
                    let mut k = [0u8; 32];
                    k.copy_from_slice(&hex::decode(p.as_str().unwrap()).unwrap());
                    StaticSecret::from(k)
                }).collect();
                let names: Vec<Vec<u8>> = b["names"].as_array().unwrap().iter().map(|n| hex::decode(n.as_str().unwrap()).unwrap()).collect();
                let layers = b["layers"].as_u64().unwrap() as u8;
                bases.push(Base {
                    plan: Plan { names, pieces: vec![], layers, level: 5, recipients: 1, reader_key: 0 },
                    built: Built { bytes: hx("bytes"), header_len: b["header_len"].as_u64().unwrap() as usize, key, nonce, privs, contents: vec![] },
                });
            }
        }
        let generate = bases.is_empty();
        for layers in 0..4u8 {
            let mut got = 0;
            let mut tries = 0;
            while generate && got < per_combo && tries < 200 {
                tries += 1;
                let plan = small_plan(&mut rng, layers);
                // at least one archive per combination with content in two files
                if got == 0 && (plan.pieces.len() < 2 || plan.names.len() < 2) {
                    continue;
                }
                if let Ok(built) = build(&mut rng, &plan) {
                    if built.bytes.len() < 2048 {
                        bases.push(Base { plan, built });
                        got += 1;
                    }
                }
            }
        }
        // recipes do not depend on how the bases were obtained
        let mut rng = Rng::new(seed ^ 0x0C08_0C08);
        let nb = bases.len();
        let of = |l: u8| -> Vec<usize> { (0..nb).filter(|i| bases[*i].plan.layers == l).collect() };
        let mut recipes = Vec::new();
        for b in 0..nb {
            recipes.push(Recipe::Valid { base: b });
        }
        let scaled = cfg!(feature = "scaled");
        // (1) model-compared sample (scaled only): body-only mutants of plain / encrypted archives
        let n_model_plain = if !scaled { 0 } else if thorough { 400 } else { 90 };
        let n_model_enc = if !scaled { 0 } else if thorough { 160 } else { 36 };
        let n_model_owned = if !scaled { 0 } else if thorough { 200 } else { 44 };
        for (n, l) in [(n_model_plain, 0u8), (n_model_enc, L_ENC)] {
            let pool = of(l);
            for _ in 0..n {
                let base = *rng.pick(&pool);
                let other = *rng.pick(&pool);
                recipes.push(Recipe::Mutant { base, other, seed: rng.next(), body_only: true, model: true });
            }
        }
        for _ in 0..n_model_owned {
            recipes.push(Recipe::Owned { plain_base: *rng.pick(&of(0)), wrap_base: *rng.pick(&of(L_ENC)), seed: rng.next(), model: true });
        }
        // (2) exhaustive field sweep of the last 64 bytes of unencrypted archives
        let sweep_bases: Vec<usize> = of(0).into_iter().take(if thorough { 6 } else { 2 }).chain(of(L_COMP).into_iter().take(if thorough { 6 } else { 2 })).collect();
        for b in sweep_bases {
            for back in 1..=64usize {
                for width in [4usize, 8] {
                    for val in 0..10usize {
                        recipes.push(Recipe::Sweep { base: b, back, width, val });
                    }
                }
            }
        }
        // (3) direct-oracle mutants of everything
        let n_mut = if thorough { 200_000 } else if scaled { 30_000 } else { 15_000 };
        for _ in 0..n_mut {
            let base = rng.below(nb as u64) as usize;
            let pool = of(bases[base].plan.layers);
            let other = *rng.pick(&pool);
            recipes.push(Recipe::Mutant { base, other, seed: rng.next(), body_only: rng.below(5) != 0, model: false });
        }
        // (4) attacker-owned bodies under every layer combination
        let n_owned = if thorough { 20_000 } else { 6000 };
        for _ in 0..n_owned {
            recipes.push(Recipe::Owned { plain_base: *rng.pick(&of(0)), wrap_base: rng.below(nb as u64) as usize, seed: rng.next(), model: false });
        }
        // (4b) structure-aware: EVERY id / length field of the blocks of a few layer-less bodies x edge values,
        // under every layer combination (the block stream is what linear extraction and repair walk)
        let plain_bases: Vec<usize> = of(0).into_iter().take(if thorough { 6 } else { 2 }).collect();
        for pb in &plain_bases {
            let nfields = block_fields(&bases[*pb].built.bytes[bases[*pb].built.header_len..]).len();
            for wl in [0u8, L_ENC, L_COMP, L_ENC | L_COMP] {
                let Some(wb) = of(wl).first().copied() else { continue };
                for field in 0..nfields {
                    for val in 0..BLOCK_FIELD_VALUES.len() {
                        recipes.push(Recipe::BlockField { plain_base: *pb, wrap_base: wb, field, val });
                    }
                }
            }
        }
        // (5) random tails after a valid header
        let n_rand = if thorough { 8000 } else { 2000 };
        for _ in 0..n_rand {
            recipes.push(Recipe::RandomTail { base: rng.below(nb as u64) as usize, seed: rng.next() });
        }
        Corpus { bases, recipes }
    }

    pub fn len(&self) -> usize {
        self.recipes.len()
    }

    pub fn bases_json(&self) -> Value {
        Value::Array(self.bases.iter().map(|b| json!({
            "layers": b.plan.layers, "names": b.plan.names.iter().map(|n| hexs(n)).collect::<Vec<_>>(),
            "bytes": hexs(&b.built.bytes), "header_len": b.built.header_len, "key": hexs(&b.built.key), "nonce": hexs(&b.built.nonce),
            "privs": b.built.privs.iter().map(|s| hexs(&s.to_bytes())).collect::<Vec<_>>(),
        })).collect())
    }

    fn from_base(&self, base: usize, id: String, class: String, bytes: Vec<u8>, model: bool) -> Input {
        let b = &self.bases[base];
        Input { id, class, bytes, privs: b.built.privs.clone(), layers: b.plan.layers, header_len: b.built.header_len, key: b.built.key,
                nonce: b.built.nonce, names: b.plan.names.clone(), model }
    }

    pub fn input(&self, idx: usize) -> Input {
        match &self.recipes[idx] {
            Recipe::Valid { base } => {
                let b = &self.bases[*base];
                self.from_base(*base, format!("c08-{idx}-valid"), format!("valid layers={}", b.plan.layers), b.built.bytes.clone(),
                               cfg!(feature = "scaled") && b.plan.layers & L_COMP == 0)
            }
            Recipe::Mutant { base, other, seed, body_only, model } => {
                let mut rng = Rng::new(*seed);
                let b = &self.bases[*base];
                let o = &self.bases[*other];
                let mut bytes = b.built.bytes.clone();
                let lo = if *body_only { b.built.header_len } else { 0 };
                let k = rng.range(1, 3);
                let mut tags = Vec::new();
                for _ in 0..k {
                    mutate_once(&mut rng, &mut bytes, &o.built.bytes, lo, b.built.header_len, o.built.header_len, &mut tags);
                }
                let class = format!("mutant layers={} {} {}", b.plan.layers, if *body_only { "body" } else { "any" }, tags.join("+"));
                self.from_base(*base, format!("c08-{idx}-mut"), class, bytes, *model)
            }
            Recipe::Sweep { base, back, width, val } => {
                let b = &self.bases[*base];
                let mut bytes = b.built.bytes.clone();
                let n = bytes.len();
                let pos = n.saturating_sub(*back);
                let cur = le_at(&bytes, pos, *width);
                let v = match *val {
                    0..=5 => FIELD_VALUES[*val],
                    6 => cur.wrapping_add(1),
                    7 => cur.wrapping_sub(1),
                    8 => n as u64,
                    _ => (n - b.built.header_len) as u64 + 1,
                };
                put_le(&mut bytes, pos, *width, v);
                self.from_base(*base, format!("c08-{idx}-sweep"), format!("sweep layers={} width={}", b.plan.layers, width), bytes, false)
            }
            Recipe::Owned { plain_base, wrap_base, seed, model } => {
                let mut rng = Rng::new(*seed);
                let p = &self.bases[*plain_base];
                let w = &self.bases[*wrap_base];
                // crafted layer-less body: a mutated plain body
                let mut body = p.built.bytes[p.built.header_len..].to_vec();
                let other = &self.bases[*plain_base].built;
                let k = rng.range(1, 3);
                let mut tags = Vec::new();
                for _ in 0..k {
                    mutate_once(&mut rng, &mut body, &other.bytes[other.header_len..], 0, 0, 0, &mut tags);
                }
                let mut inner = body;
                if w.plan.layers & L_COMP != 0 {
                    inner = comp_wrap(&inner);
                }
                if w.plan.layers & L_ENC != 0 {
                    inner = gcm_wrap(&w.built.key, &w.built.nonce, &inner);
                }
                let mut bytes = w.built.bytes[..w.built.header_len].to_vec();
                bytes.extend_from_slice(&inner);
                let mut inp = self.from_base(*wrap_base, format!("c08-{idx}-owned"), format!("owned layers={} {}", w.plan.layers, tags.join("+")), bytes, *model);
                inp.names = p.plan.names.clone();
                inp
            }
            Recipe::BlockField { plain_base, wrap_base, field, val } => {
                let p = &self.bases[*plain_base];
                let w = &self.bases[*wrap_base];
                let mut body = p.built.bytes[p.built.header_len..].to_vec();
                let at = block_fields(&body)[*field];
                body[at..at + 8].copy_from_slice(&BLOCK_FIELD_VALUES[*val].to_le_bytes());
                let mut inner = body;
                if w.plan.layers & L_COMP != 0 {
                    inner = comp_wrap(&inner);
                }
                if w.plan.layers & L_ENC != 0 {
                    inner = gcm_wrap(&w.built.key, &w.built.nonce, &inner);
                }
                let mut bytes = w.built.bytes[..w.built.header_len].to_vec();
                bytes.extend_from_slice(&inner);
                let mut inp = self.from_base(*wrap_base, format!("c08-{idx}-blockfield"), format!("block-field layers={} value#{val}", w.plan.layers), bytes, false);
                inp.names = p.plan.names.clone();
                inp
            }
            Recipe::RandomTail { base, seed } => {
                let mut rng = Rng::new(*seed);
                let b = &self.bases[*base];
                let mut bytes = b.built.bytes[..b.built.header_len].to_vec();
                let n = rng.below(200) as usize;
                let mut tail = rng.bytes(n);
                if rng.below(2) == 0 && n >= 4 {
                    // a plausible trailing length
                    let l = rng.below(n as u64) as u32;
                    let at = n - 4;
                    tail[at..].copy_from_slice(&l.to_le_bytes());
                }
                bytes.extend_from_slice(&tail);
                self.from_base(*base, format!("c08-{idx}-rand"), format!("random-tail layers={}", b.plan.layers), bytes, false)
            }
        }
    }
}

// ---------------------------------------------------------------- one case (in the child)

fn hexs(b: &[u8]) -> String {
    hex::encode(b)
}

fn short_hash(b: &[u8]) -> String {
    use sha2::{Digest, Sha256};
    hex::encode(&Sha256::digest(b)[..6])
}

/// model-compared rows for an input whose header is intact (layers none / encrypt, scaled)
fn model_cases(inp: &Input) -> Vec<Value> {
    let mut v = Vec::new();
    if !cfg!(feature = "scaled") || inp.layers & L_COMP != 0 || inp.bytes.len() < inp.header_len {
        return v;
    }
    let body = &inp.bytes[inp.header_len..];
    // names: the plan's and whatever the implementation lists
    let mut names = inp.names.clone();
    if let Ok(Ok(rd)) = catch(|| open_reader(&inp.bytes, &inp.privs)) {
        if let Ok(it) = rd.list_files() {
            for n in it {
                if !names.contains(&n.as_bytes().to_vec()) && names.len() < 8 {
                    names.push(n.as_bytes().to_vec());
                }
            }
        }
    }
    let mut ops: Vec<Vec<u64>> = vec![vec![0]];
    for i in 0..names.len() as u64 {
        ops.push(vec![1, i]);
        ops.push(vec![3, i, [7u64, 4096, 1][(i % 3) as usize]]);
        ops.push(vec![2, i, 1, 1, 5]);
    }
    let mut all = vec![4u64];
    all.extend(0..names.len() as u64);
    ops.push(all);
    // the same reader again after whatever failed
    ops.push(vec![0]);
    ops.push(vec![1, 0]);
    ops.push(vec![3, 0, 4096]);
    take_panic_log();
    let rows = run_history(&inp.bytes, &inp.privs, &names, &ops, true);
    let crashed = rows.iter().any(|r| r == &vec![2]);
    let plog = take_panic_log();
    let known = if crashed { known_of_panics(&plog) } else { None };
    let (f, args): (&'static str, Vec<Value>) = if inp.layers == 0 {
        ("c08_hist_plain", vec![jbytes(body), json!(names), json!(ops)])
    } else {
        ("c08_hist_enc", vec![jbytes(&inp.key), jbytes(&inp.nonce), jbytes(body), json!(names), json!(ops)])
    };
    let mut c = Case { id: format!("{}-hist", inp.id), model_fn: f, args, imp: json!(rows), oracle_ok: !crashed,
                       oracle_msg: if crashed { format!("a reader operation panicked: {}", plog.join("; ")) } else { String::new() },
                       class: format!("model-hist {}", inp.class), nontrivial: true,
                       meta: json!({"layers": inp.layers, "len": inp.bytes.len(), "input_hash": short_hash(&inp.bytes)}) }
        .to_json();
    if let Some(k) = known {
        c["known"] = json!(k);
    }
    v.push(c);
    let modes: &[bool] = if inp.layers & L_ENC != 0 { &[false, true] } else { &[false] };
    for unauth in modes {
        let r = repair_bytes(&inp.bytes, &inp.privs, *unauth);
        let (f, args): (&'static str, Vec<Value>) = if inp.layers == 0 {
            ("repair_plain", vec![jbytes(body)])
        } else {
            ("repair_enc", vec![jbytes(&inp.key), jbytes(&inp.nonce), jbytes(body), json!(u64::from(*unauth))])
        };
        v.push(Case { id: format!("{}-repair-u{}", inp.id, u8::from(*unauth)), model_fn: f, args, imp: json!(r.rows), oracle_ok: r.crashed.is_none(),
                      oracle_msg: r.crashed.clone().map(|p| format!("repair panicked: {p}")).unwrap_or_default(),
                      class: format!("model-repair {}", inp.class), nontrivial: true,
                      meta: json!({"layers": inp.layers, "len": inp.bytes.len(), "unauth": unauth, "input_hash": short_hash(&inp.bytes)}) }
            .to_json());
    }
    v
}

/// the direct oracle on one input: no panic, allocation under the ceiling (time is the watchdog's)
fn direct_case(inp: &Input) -> Value {
    take_panic_log();
    let t0 = Instant::now();
    let (ex, peak) = measure(|| exercise(&inp.bytes, &inp.privs, inp.layers & L_ENC != 0));
    let dt = t0.elapsed();
    let ceiling = alloc_ceiling(&inp.bytes);
    let comp_possible = inp.bytes.get(7).map_or(false, |b| b & 2 != 0);
    let mut msg = String::new();
    let mut known: Option<&'static str> = None;
    if !ex.panics.is_empty() {
        msg = format!("panic on untrusted input: {}", ex.panics[0]);
        known = known_of_panics(&ex.panics);
    } else if peak > ceiling {
        msg = format!("peak allocation {} bytes for a {}-byte input (ceiling {})", peak, inp.bytes.len(), ceiling);
        // open finding D22: the brotli decoder sizes its ring buffer from the window / meta-block
        // length announced by (attacker-controlled) stream bytes, up to 2^30
        if comp_possible && peak <= (1usize << 30) + (64 << 20) {
            known = Some("D22");
        }
    } else if dt > CASE_TIME_LIMIT {
        msg = format!("{} ms for a {}-byte input", dt.as_millis(), inp.bytes.len());
    }
    let ok = msg.is_empty();
    let mut meta = json!({"layers": inp.layers, "len": inp.bytes.len(), "opened": ex.opened, "names": ex.names, "oks": ex.oks, "errs": ex.errs,
                          "read": ex.bytes_read, "capped": ex.capped, "peak": peak, "repair": ex.repair_status, "input_hash": short_hash(&inp.bytes)});
    if !ok {
        meta["input_hex"] = json!(hexs(&inp.bytes));
        meta["privs_hex"] = json!(inp.privs.iter().map(|s| hexs(&s.to_bytes())).collect::<Vec<_>>());
        meta["panics"] = json!(ex.panics);
    }
    let mut v = Case { id: inp.id.clone(), model_fn: "", args: vec![], imp: json!([]), oracle_ok: ok, oracle_msg: msg,
                       class: format!("{} opened={}", inp.class, ex.opened), nontrivial: inp.bytes.len() > inp.header_len, meta }
        .to_json();
    if let Some(k) = known {
        v["known"] = json!(k);
    }
    v
}

fn run_input(inp: &Input) -> Vec<Value> {
    let mut out = vec![direct_case(inp)];
    if inp.model {
        out.extend(model_cases(inp));
    }
    out
}

/// Run f in a fresh thread with an 8 MiB stack (the main thread's default) under the watchdog.
fn with_watchdog<T: Send + 'static>(f: impl FnOnce() -> T + Send + 'static) -> Option<T> {
    let (tx, rx) = mpsc::channel();
    let h = std::thread::Builder::new().stack_size(8 << 20).spawn(move || {
        let _ = tx.send(f());
    });
    if h.is_err() {
        return None;
    }
    rx.recv_timeout(CASE_TIME_LIMIT + Duration::from_secs(1)).ok()
}

/// hidden sub-command: `c08-child --seed S --tier T --shard r --of P --from a`
/// stdout protocol: "@@ idx" before each case, "## json" per result line, "!! idx" = hang (exit 77)
pub fn child_main(seed: u64, tier: &str, shard: usize, of: usize, from: usize, bases_file: &str) {
    install_panic_loc_hook();
    let corpus = std::sync::Arc::new(Corpus::new(seed, tier, Some(bases_file)));
    let so = std::io::stdout();
    for idx in (from..corpus.len()).filter(|i| i % of == shard) {
        {
            let mut o = so.lock();
            writeln!(o, "@@ {idx}").unwrap();
            o.flush().unwrap();
        }
        let c2 = corpus.clone();
        let r = with_watchdog(move || {
            let inp = c2.input(idx);
            run_input(&inp)
        });
        let mut o = so.lock();
        match r {
            Some(vals) => {
                for v in vals {
                    writeln!(o, "## {v}").unwrap();
                }
            }
            None => {
                writeln!(o, "!! {idx}").unwrap();
                o.flush().unwrap();
                std::process::exit(77);
            }
        }
        o.flush().unwrap();
    }
}

fn failure_case(corpus: &Corpus, idx: usize, why: String) -> Value {
    let inp = corpus.input(idx);
    Case { id: inp.id.clone(), model_fn: "", args: vec![], imp: json!([]), oracle_ok: false, oracle_msg: why, class: format!("{} (process)", inp.class), nontrivial: true,
           meta: json!({"layers": inp.layers, "len": inp.bytes.len(), "input_hex": hexs(&inp.bytes),
                        "privs_hex": inp.privs.iter().map(|s| hexs(&s.to_bytes())).collect::<Vec<_>>()}) }
        .to_json()
}

/// parent: shards over child processes, restarts a shard after the case that killed it
pub fn c08_cases(rng: &mut Rng, tier: &str, out: &mut Out) {
    let seed = rng.next();
    let corpus = Corpus::new(seed, tier, None);
    let bases_file = std::env::temp_dir().join(format!("c08-bases-{}-{}.json", std::process::id(), seed));
    std::fs::write(&bases_file, corpus.bases_json().to_string()).expect("write bases file");
    let bases_path = bases_file.to_string_lossy().to_string();
    let exe = std::env::current_exe().expect("current_exe");
    let nshards = std::thread::available_parallelism().map(|n| n.get()).unwrap_or(4).min(16);
    let mut handles = Vec::new();
    for shard in 0..nshards {
        let exe = exe.clone();
        let tier = tier.to_string();
        let bases_path = bases_path.clone();
        handles.push(std::thread::spawn(move || -> Vec<(usize, Result<Value, String>)> {
            let mut results: Vec<(usize, Result<Value, String>)> = Vec::new();
            let mut from = 0usize;
            loop {
                let mut child = Command::new(&exe)
                    .args(["c08-child", "--seed", &seed.to_string(), "--tier", &tier, "--shard", &shard.to_string(), "--of", &nshards.to_string(), "--from", &from.to_string(), "--bases", &bases_path])
                    .stdout(Stdio::piped())
                    .stderr(Stdio::null())
                    .spawn()
                    .expect("spawn child");
                let rd = BufReader::new(child.stdout.take().unwrap());
                let mut last: Option<usize> = None;
                let mut hung = false;
                for line in rd.lines() {
                    let Ok(line) = line else { break };
                    if let Some(r) = line.strip_prefix("@@ ") {
                        last = r.trim().parse().ok();
                    } else if let Some(r) = line.strip_prefix("## ") {
                        if let Ok(v) = serde_json::from_str::<Value>(r) {
                            results.push((last.unwrap_or(0), Ok(v)));
                        }
                    } else if line.starts_with("!! ") {
                        hung = true;
                    }
                }
                let status = child.wait().expect("wait");
                if status.success() {
                    break;
                }
                let Some(idx) = last else {
                    results.push((0, Err(format!("child of shard {shard} died before its first case: {status}"))));
                    break;
                };
                let why = if hung {
                    format!("hang: the case did not finish within {} s", CASE_TIME_LIMIT.as_secs())
                } else {
                    format!("the process died while running this case ({status}): stack overflow or abort")
                };
                results.push((idx, Err(why)));
                from = idx + 1;
            }
            results
        }));
    }
    let mut all: Vec<(usize, Value)> = Vec::new();
    for h in handles {
        for (idx, r) in h.join().expect("shard thread") {
            match r {
                Ok(v) => all.push((idx, v)),
                Err(why) => all.push((idx, failure_case(&corpus, idx, why))),
            }
        }
    }
    let _ = std::fs::remove_file(&bases_file);
    all.sort_by_key(|a| a.0);
    for (_, v) in all {
        out.raw(&v);
        out.n += 1;
    }
}

// ---------------------------------------------------------------- witnesses of repaired defects

fn le64(v: u64) -> Vec<u8> {
    v.to_le_bytes().to_vec()
}

fn header_of(layers: u8) -> Result<(Vec<u8>, Built), String> {
    let mut rng = Rng::new(808);
    let plan = Plan { names: vec![b"a".to_vec()], pieces: vec![(0, b"hello".to_vec())], layers, level: 5, recipients: 1, reader_key: 0 };
    let b = build(&mut rng, &plan)?;
    Ok((b.bytes[..b.header_len].to_vec(), b))
}

fn no_panic(what: &str, bytes: &[u8], privs: &[StaticSecret], enc: bool) -> Result<Exercise, String> {
    let ex = exercise(bytes, privs, enc);
    if let Some(p) = ex.panics.first() {
        return Err(format!("{what}: {p}"));
    }
    Ok(ex)
}

/// D12a: a footer length larger than the position of the length field is an error, not an
/// arithmetic panic (archives of 12..45 bytes)
pub fn witness_d12a() -> Result<(), String> {
    let (hdr, _) = header_of(0)?;
    for k in 0..=(45 - hdr.len() - 4) {
        for v in [k as u32 + 1, k as u32 + 5, 1 << 31, u32::MAX] {
            let mut a = hdr.clone();
            a.extend(std::iter::repeat(0u8).take(k));
            a.extend_from_slice(&v.to_le_bytes());
            let ex = no_panic(&format!("D12a: {}-byte archive announcing a {v}-byte footer", a.len()), &a, &[], false)?;
            if ex.opened {
                return Err(format!("D12a: {}-byte archive announcing a {v}-byte footer opens", a.len()));
            }
        }
    }
    Ok(())
}

/// D15: a tiny archive announcing a huge name must not allocate it
pub fn witness_d15() -> Result<(), String> {
    let (hdr, _) = header_of(0)?;
    for announced in [500_000_000u64, 400 << 20, (1 << 32) - 1, 1 << 40] {
        let mut a = hdr.clone();
        let mut footer = le64(1);
        footer.extend(le64(announced));
        footer.extend_from_slice(b"abc");
        a.extend_from_slice(&footer);
        a.extend_from_slice(&(footer.len() as u32).to_le_bytes());
        let (ex, peak) = measure(|| exercise(&a, &[], false));
        if let Some(p) = ex.panics.first() {
            return Err(format!("D15: {p}"));
        }
        if peak > (4 << 20) {
            return Err(format!("D15: a {}-byte archive announcing a {announced}-byte name makes the reader allocate {peak} bytes", a.len()));
        }
    }
    Ok(())
}

/// the D14 archive: one file whose `n` offsets all point at a block of another file
/// `kind`: which foreign block the offsets point at: 0 = FileContent, 1 = FileStart, 2 = EndOfFile
pub fn d14_archive_kind(n: usize, kind: u8) -> Result<Vec<u8>, String> {
    let (hdr, _) = header_of(0)?;
    let mut body = Vec::new();
    // FileStart id 0 "a" @0 (18 bytes), FileStart id 1 "b" @18, FileContent id 1 len 0 @36, EoF id1, EoF id 0, EoA
    body.push(0u8);
    body.extend(le64(0));
    body.extend(le64(1));
    body.push(b'a');
    let start1 = body.len() as u64;
    body.push(0u8);
    body.extend(le64(1));
    body.extend(le64(1));
    body.push(b'b');
    let content1 = body.len() as u64;
    body.push(1u8);
    body.extend(le64(1));
    body.extend(le64(0));
    let eof1 = body.len() as u64;
    body.push(0xff);
    body.extend(le64(1));
    body.extend_from_slice(&sha256(b""));
    let eof0 = body.len() as u64;
    body.push(0xff);
    body.extend(le64(0));
    body.extend_from_slice(&sha256(b""));
    body.push(0xfe);
    let foreign = match kind {
        1 => start1,
        2 => eof1,
        _ => content1,
    };
    let mut footer = le64(1);
    footer.extend(le64(1));
    footer.push(b'a');
    footer.extend(le64(n as u64 + 1));
    footer.extend(le64(0));
    for _ in 0..n {
        footer.extend(le64(foreign));
    }
    footer.extend(le64(0));
    footer.extend(le64(eof0));
    let mut a = hdr;
    a.extend_from_slice(&body);
    a.extend_from_slice(&footer);
    a.extend_from_slice(&(footer.len() as u32).to_le_bytes());
    Ok(a)
}

pub fn d14_archive(n: usize) -> Result<Vec<u8>, String> {
    d14_archive_kind(n, 0)
}

/// hidden sub-command `c08-wit D14`: runs in a child because the defect is a stack overflow
pub fn wit_child(name: &str) {
    let r: Result<(), String> = match name {
        "D14" | "D14-1" | "D14-2" => (|| {
            let kind = match name { "D14-1" => 1, "D14-2" => 2, _ => 0 };
            let a = d14_archive_kind(300_000, kind)?;
            let r = with_watchdog(move || {
                let (ex, peak) = measure(|| exercise(&a, &[], false));
                (ex.panics.first().cloned(), ex.opened, ex.errs, peak, alloc_ceiling(&a))
            });
            match r {
                None => Err("D14: hang".to_string()),
                Some((Some(p), ..)) => Err(format!("D14: {p}")),
                Some((None, opened, errs, peak, ceiling)) => {
                    if !opened {
                        Err("D14: the crafted archive does not open (the witness no longer reaches the skip loop)".into())
                    } else if errs == 0 {
                        Err("D14: reading a file whose offsets all point at foreign blocks reported no error".into())
                    } else if peak > ceiling {
                        Err(format!("D14: peak allocation {peak}"))
                    } else {
                        Ok(())
                    }
                }
            }
        })(),
        n if n.starts_with("replay:") => {
            // c08-wit replay:<file with input hex>:<file with JSON list of private keys hex>
            let parts: Vec<&str> = n.splitn(3, ':').collect();
            let bytes = hex::decode(std::fs::read_to_string(parts[1]).unwrap_or_default().trim()).unwrap_or_default();
            let privs: Vec<StaticSecret> = parts
                .get(2)
                .and_then(|f| std::fs::read_to_string(f).ok())
                .and_then(|t| serde_json::from_str::<Vec<String>>(&t).ok())
                .unwrap_or_default()
                .iter()
                .filter_map(|h| hex::decode(h).ok())
                .filter_map(|b| <[u8; 32]>::try_from(b.as_slice()).ok())
                .map(StaticSecret::from)
                .collect();
            install_panic_loc_hook();
            let enc = bytes.get(7).map_or(false, |b| b & 1 != 0);
            let (ex, peak) = measure(|| exercise(&bytes, &privs, enc));
            println!("len {} opened {} oks {} errs {} repair {:?} peak {} ceiling {} panics {:?}", bytes.len(), ex.opened, ex.oks, ex.errs, ex.repair_status, peak, alloc_ceiling(&bytes), ex.panics);
            Ok(())
        }
        "repro" => {
            print_reproducers();
            Ok(())
        }
        _ => Err(format!("unknown witness {name}")),
    };
    match r {
        Ok(()) => println!("ok"),
        Err(e) => println!("err {e}"),
    }
}

pub fn witness_d14() -> Result<(), String> {
    let exe = std::env::current_exe().map_err(|e| e.to_string())?;
    // the offsets point at a foreign FileContent, FileStart and EndOfFile block in turn
    for (w, what) in [("D14", "FileContent"), ("D14-1", "FileStart"), ("D14-2", "EndOfFile")] {
        let o = Command::new(&exe).args(["c08-wit", w]).stderr(Stdio::null()).output().map_err(|e| e.to_string())?;
        let so = String::from_utf8_lossy(&o.stdout).trim().to_string();
        if !o.status.success() {
            return Err(format!("D14: reading a file with 300000 offsets pointing at a foreign {what} block kills the process ({}): stack overflow", o.status));
        }
        if so != "ok" {
            return Err(format!("{so} (foreign {what} block)"));
        }
    }
    Ok(())
}

/// D12b: crafted SizesInfo of the compression layer
pub fn witness_d12b() -> Result<(), String> {
    for layers in [L_COMP, L_COMP | L_ENC] {
        let (hdr, built) = header_of(layers)?;
        let block: u32 = if cfg!(feature = "scaled") { 256 } else { 4 << 20 };
        let valid_body = {
            // the compressed body of the valid archive, without its SizesInfo
            let raw = if layers & L_ENC != 0 { Vec::new() } else { built.bytes[built.header_len..].to_vec() };
            match tail_region(&built.bytes, built.header_len) {
                Some(s) if layers & L_ENC == 0 => built.bytes[built.header_len..s].to_vec(),
                _ => raw,
            }
        };
        let mut variants: Vec<(String, Vec<u8>)> = Vec::new();
        let sizes_info = |sizes: &[u32], last: u32| -> Vec<u8> {
            let mut v = le64(sizes.len() as u64);
            for s in sizes {
                v.extend_from_slice(&s.to_le_bytes());
            }
            v.extend_from_slice(&last.to_le_bytes());
            v
        };
        let n = valid_body.len() as u32;
        for (what, si) in [
            ("empty compressed_sizes, last 0", sizes_info(&[], 0)),
            ("empty compressed_sizes, last 5", sizes_info(&[], 5)),
            ("last_block_size > block size", sizes_info(&[n], block + 1)),
            ("last_block_size = u32::MAX", sizes_info(&[n], u32::MAX)),
            ("compressed size larger than the stream", sizes_info(&[u32::MAX], 5)),
            ("two blocks, zero sizes", sizes_info(&[0, 0], 0)),
            ("sizes summing over 2^32", sizes_info(&[u32::MAX, u32::MAX, n], block)),
        ] {
            let mut body = valid_body.clone();
            body.extend_from_slice(&si);
            body.extend_from_slice(&(si.len() as u32).to_le_bytes());
            variants.push((what.to_string(), body));
            // footer length larger than the stream
            let mut body2 = valid_body.clone();
            body2.extend_from_slice(&si);
            body2.extend_from_slice(&((valid_body.len() + si.len() + 1) as u32).to_le_bytes());
            variants.push((format!("{what}, length > stream"), body2));
        }
        variants.push(("only a length".to_string(), 7u32.to_le_bytes().to_vec()));
        for (what, body) in variants {
            let wire = if layers & L_ENC != 0 { gcm_wrap(&built.key, &built.nonce, &body) } else { body };
            let mut a = hdr.clone();
            a.extend_from_slice(&wire);
            no_panic(&format!("D12b (layers {layers}): {what}"), &a, &built.privs, layers & L_ENC != 0)?;
        }
    }
    Ok(())
}

/// the layer-less archive of `header_of(0)` (one file "a" = "hello") with the footer's
/// offsets[0] and/or eof_offset replaced; returns (archive, header length)
fn huge_offset_plain(off0: Option<u64>, eof: Option<u64>) -> Result<(Vec<u8>, usize), String> {
    let (hdr, built) = header_of(0)?;
    let mut a = built.bytes.clone();
    let n = a.len();
    // footer of a one-entry map ends with: offsets[0] u64, size u64, eof_offset u64, length u32
    if let Some(v) = eof {
        put_le(&mut a, n - 12, 8, v);
    }
    if let Some(v) = off0 {
        put_le(&mut a, n - 28, 8, v);
    }
    Ok((a, hdr.len()))
}

const HUGE: [u64; 5] = [u64::MAX, u64::MAX - 7, 1 << 63, (1 << 63) - 1, u64::MAX / 80 * 64];

/// D19: an offset of the footer that overflows once the header length is added (raw layer)
pub fn witness_d19() -> Result<(), String> {
    for v in HUGE {
        for (o, e) in [(Some(v), None), (None, Some(v)), (Some(v), Some(v))] {
            let (a, _) = huge_offset_plain(o, e)?;
            let ex = no_panic(&format!("D19: layer-less archive with footer offset {v:#x}"), &a, &[], false)?;
            if !ex.opened || ex.errs == 0 {
                return Err(format!("D19: the witness archive (offset {v:#x}) no longer opens or reports no error"));
            }
        }
    }
    Ok(())
}

/// D20: the same footer inside an encrypted archive written by someone holding the public key
pub fn witness_d20() -> Result<(), String> {
    let (hdr, built) = header_of(L_ENC)?;
    for v in HUGE {
        for (o, e) in [(Some(v), None), (None, Some(v))] {
            let (plain, hl) = huge_offset_plain(o, e)?;
            let mut a = hdr.clone();
            a.extend_from_slice(&gcm_wrap(&built.key, &built.nonce, &plain[hl..]));
            let ex = no_panic(&format!("D20: encrypted archive with footer offset {v:#x}"), &a, &built.privs, true)?;
            if !ex.opened || ex.errs == 0 {
                return Err(format!("D20: the witness archive (offset {v:#x}) no longer opens or reports no error"));
            }
        }
    }
    Ok(())
}

/// D21: a compressed size of the size table must not dictate the decompressor's buffer
pub fn witness_d21() -> Result<(), String> {
    let (_, built) = header_of(L_COMP)?;
    for v in [u32::MAX, 1 << 31, 1 << 30, 1 << 27] {
        let mut a = built.bytes.clone();
        let n = a.len();
        // SizesInfo of a one-block stream: count u64, compressed_sizes[0] u32, last_block_size u32, length u32
        put_le(&mut a, n - 12, 4, u64::from(v));
        let (ex, peak) = measure(|| exercise(&a, &[], false));
        if let Some(p) = ex.panics.first() {
            return Err(format!("D21: {p}"));
        }
        if peak > alloc_ceiling(&a) {
            return Err(format!("D21: a {}-byte compressed archive announcing a {v}-byte compressed block makes the reader allocate {peak} bytes", a.len()));
        }
    }
    Ok(())
}

pub fn witnesses() -> Vec<(&'static str, &'static str, fn() -> Result<(), String>)> {
    vec![("D12a", "C08", witness_d12a), ("D15", "C08", witness_d15), ("D14", "C08", witness_d14), ("D12b", "C08", witness_d12b),
         ("D19", "C08", witness_d19), ("D20", "C08", witness_d20), ("D21", "C08", witness_d21)]
}

/// hex dumps of the D19 / D21 reproducers (deterministic) for the findings file
pub fn print_reproducers() {
    if let Ok((a, _)) = huge_offset_plain(None, Some(u64::MAX)) {
        println!("D19 {}", hexs(&a));
    }
    if let Ok((_, built)) = header_of(L_COMP) {
        let mut a = built.bytes.clone();
        let n = a.len();
        put_le(&mut a, n - 12, 4, u64::from(u32::MAX));
        println!("D21 {}", hexs(&a));
    }
}
