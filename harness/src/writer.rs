//! ArchiveWriter call sequences (C09, C01 without layers): runner, canonical observation,
//! reference oracle, exhaustive enumeration.
#![allow(dead_code)]
use crate::util::*;
use mla::config::ArchiveWriterConfig;
use mla::errors::Error;
use mla::{ArchiveWriter, Layers};
use serde_json::{json, Value};

/// call encoding (rows of u64):
///  [0, namecode]                 start
///  [1, id, size, srclen]         append (source = srclen bytes 10,11,12..)
///  [2, id]                       end
///  [3, namecode, size, srclen]   add
///  [4] flush   [5] finalize
pub fn fnmax() -> usize {
    if cfg!(feature = "scaled") {
        48
    } else {
        65536
    }
}
pub fn name_of(code: u64) -> Vec<u8> {
    match code {
        0 => b"a".to_vec(),
        1 => b"b".to_vec(),
        2 => Vec::new(),
        3 => vec![b'x'; fnmax()],
        4 => vec![b'y'; fnmax() + 1],
        5 => b"c".to_vec(),
        6 => "h\u{e9}\u{4e16}".as_bytes().to_vec(),
        // at most fnmax CHARACTERS but more than fnmax BYTES
        7 => "\u{e9}".repeat(fnmax() / 2 + 1).into_bytes(),
        n => format!("f{n}").into_bytes(),
    }
}
pub fn src_of(len: u64, salt: u64) -> Vec<u8> {
    (0..len).map(|i| (10 + i + salt) as u8).collect()
}

pub fn err_code(e: &Error) -> u64 {
    match e {
        Error::FilenameTooLong
        | Error::DuplicateFilename
        | Error::WrongArchiveWriterState { .. }
        | Error::WrongWriterState(_) => 1,
        _ => 3,
    }
}

pub struct RunOut {
    pub rows: Vec<Vec<u64>>, // per call [status, value]
    pub bytes: Option<Vec<u8>>,
}

/// Run a call sequence on a fresh layer-less writer, then the epilogue (end every file still
/// open, finalize unless finalized), and return the raw archive.
pub fn run_calls(calls: &[Vec<u64>]) -> RunOut {
    let mut cfg = ArchiveWriterConfig::new();
    cfg.set_layers(Layers::EMPTY);
    let mut w = ArchiveWriter::from_config(Vec::new(), cfg).expect("writer");
    let mut rows = Vec::new();
    let mut open: Vec<u64> = Vec::new();
    let mut finalized = false;
    let mut crashed = false;
    for (k, c) in calls.iter().enumerate() {
        let r = catch(|| match c[0] {
            0 => {
                let name = String::from_utf8(name_of(c[1])).unwrap();
                w.start_file(&name).map(|id| id)
            }
            1 => w.append_file_content(c[1], c[2], src_of(c[3], k as u64).as_slice()).map(|_| 0),
            2 => w.end_file(c[1]).map(|_| 0),
            3 => {
                let name = String::from_utf8(name_of(c[1])).unwrap();
                w.add_file(&name, c[2], src_of(c[3], k as u64).as_slice()).map(|_| 0)
            }
            4 => w.flush().map(|_| 0).map_err(Error::IOError),
            _ => w.finalize().map(|_| 0),
        });
        match r {
            Err(_) => {
                rows.push(vec![2, 0]);
                crashed = true;
                break;
            }
            Ok(Ok(v)) => {
                rows.push(vec![0, v]);
                match c[0] {
                    0 => open.push(v),
                    2 => open.retain(|x| *x != c[1]),
                    5 => finalized = true,
                    _ => {}
                }
            }
            Ok(Err(e)) => {
                rows.push(vec![err_code(&e), 0]);
                // add_file whose append failed leaves the file open: find out by probing nothing —
                // the model knows; the epilogue below closes by trial
            }
        }
    }
    if crashed {
        return RunOut { rows, bytes: None };
    }
    // epilogue: close what is open (ids 0..next by trial, errors ignored), finalize
    if !finalized {
        let r = catch(|| {
            for id in 0..64u64 {
                let _ = w.end_file(id);
            }
            w.finalize()
        });
        match r {
            Ok(Ok(())) => {}
            Ok(Err(e)) => {
                rows.push(vec![err_code(&e), 77]);
                return RunOut { rows, bytes: None };
            }
            Err(_) => {
                rows.push(vec![2, 77]);
                return RunOut { rows, bytes: None };
            }
        }
    }
    let _ = open;
    RunOut { rows, bytes: Some(w.into_raw()) }
}

pub const HEADER_NOLAYER: usize = 3 + 4 + 1 + 1; // "MLA", version, layers byte, Option::None

/// Split a layer-less archive: (block stream up to and including the end marker, footer
/// entries sorted by name as rows [namelen, name.., noffsets, offsets.., size, eof]).
pub fn split_nolayer(bytes: &[u8]) -> Option<(Vec<u8>, Vec<Vec<u64>>)> {
    if bytes.len() < HEADER_NOLAYER + 4 {
        return None;
    }
    let body = &bytes[HEADER_NOLAYER..];
    let flen = u32::from_le_bytes(body[body.len() - 4..].try_into().ok()?) as usize;
    if flen + 4 > body.len() {
        return None;
    }
    let fstart = body.len() - 4 - flen;
    let stream = body[..fstart].to_vec();
    let f = &body[fstart..body.len() - 4];
    let mut p = 0usize;
    let u64at = |p: &mut usize| -> Option<u64> {
        let v = u64::from_le_bytes(f.get(*p..*p + 8)?.try_into().ok()?);
        *p += 8;
        Some(v)
    };
    let n = u64at(&mut p)?;
    let mut entries: Vec<(Vec<u8>, Vec<u64>)> = Vec::new();
    for _ in 0..n {
        let nl = u64at(&mut p)? as usize;
        let name = f.get(p..p + nl)?.to_vec();
        p += nl;
        let no = u64at(&mut p)?;
        let mut row = vec![nl as u64];
        row.extend(name.iter().map(|b| *b as u64));
        row.push(no);
        for _ in 0..no {
            row.push(u64at(&mut p)?);
        }
        row.push(u64at(&mut p)?);
        row.push(u64at(&mut p)?);
        entries.push((name, row));
    }
    entries.sort();
    Some((stream, entries.into_iter().map(|e| e.1).collect()))
}

/// canonical observation: call rows, then [9, stream bytes..], then the footer rows
pub fn observe(out: &RunOut) -> Vec<Vec<u64>> {
    let mut rows = out.rows.clone();
    match &out.bytes {
        None => rows.push(vec![8]),
        Some(b) => match split_nolayer(b) {
            None => rows.push(vec![8, 1]),
            Some((stream, foot)) => {
                let mut r = vec![9];
                r.extend(stream.iter().map(|x| *x as u64));
                rows.push(r);
                rows.extend(foot);
            }
        },
    }
    rows
}

/// The property's own oracle: (1) a short source is never Ok; (2) if no call failed for a
/// reason other than a pre-write refusal, the archive equals the one built from the accepted
/// calls only; (3) if every call succeeded the archive is readable with the expected content.
pub fn oracle_c09(calls: &[Vec<u64>], out: &RunOut) -> Result<(), String> {
    // the property's own bookkeeping of which files are open (ids as the writer returned them) and of finalization:
    // a call on an unknown or already ended file, and anything after a successful finalize, must be refused -
    // whatever the announced size
    let mut open: Vec<u64> = Vec::new();
    let mut finalized = false;
    // an add_file whose copy failed leaves a file open under an id this bookkeeping never saw
    let mut unseen_open = false;
    for (c, r) in calls.iter().zip(&out.rows) {
        if r[0] == 2 {
            return Err(format!("call {c:?} panicked"));
        }
        let ok = r[0] == 0;
        if c[0] == 3 && !ok {
            unseen_open = true;
        }
        let must_refuse = match c[0] {
            0 | 3 | 4 => finalized && c[0] != 4,
            1 | 2 => finalized || (!open.contains(&c[1]) && !unseen_open),
            _ => finalized || !open.is_empty(),
        };
        if must_refuse && ok {
            return Err(format!("call {c:?} must be refused (file unknown or already ended, or the archive is finalized / has open files) but returned Ok"));
        }
        if ok {
            match c[0] {
                0 => open.push(r[1]),
                2 => open.retain(|x| *x != c[1]),
                5 => finalized = true,
                _ => {}
            }
        }
        let short = (c[0] == 1 && c[3] < c[2]) || (c[0] == 3 && c[3] < c[2]);
        if short && r[0] == 0 && c[2] > 0 {
            // only if the call got as far as copying: an Ok on a short source is the violation
            return Err(format!("call {c:?}: source shorter than the announced size reported as success"));
        }
    }
    if out.rows.len() > calls.len() {
        let last = out.rows.last().unwrap();
        if last[0] != 0 && !out.rows[..calls.len()].iter().any(|r| r[0] == 3) {
            return Err(format!("epilogue failed with status {} after only pre-write refusals", last[0]));
        }
    }
    let any_io = out.rows.iter().any(|r| r[0] == 3);
    if !any_io {
        let accepted: Vec<Vec<u64>> = calls.iter().zip(&out.rows).filter(|(_, r)| r[0] == 0).map(|(c, _)| c.clone()).collect();
        // source salts depend on the call index: replay with the original indices
        let idx: Vec<usize> = calls.iter().zip(&out.rows).enumerate().filter(|(_, (_, r))| r[0] == 0).map(|(i, _)| i).collect();
        let reference = run_calls_indexed(&accepted, &idx);
        if reference.rows.iter().take(accepted.len()).any(|r| r[0] != 0) {
            return Err("an accepted call is refused when the refused calls are left out".into());
        }
        let a = out.bytes.as_ref().and_then(|b| split_nolayer(b));
        let b = reference.bytes.as_ref().and_then(|b| split_nolayer(b));
        if a != b {
            return Err("archive differs from the archive built without the refused calls".into());
        }
        // readable
        if let Some(bytes) = &out.bytes {
            let r = catch(|| {
                let mut rd = mla::ArchiveReader::from_config(std::io::Cursor::new(bytes.clone()), mla::config::ArchiveReaderConfig::new())
                    .map_err(|e| format!("open: {e:?}"))?;
                let names: Vec<String> = rd.list_files().map_err(|e| format!("{e:?}"))?.cloned().collect();
                for n in names {
                    let mut f = rd.get_file(n.clone()).map_err(|e| format!("{e:?}"))?.ok_or("missing")?;
                    let mut v = Vec::new();
                    std::io::Read::read_to_end(&mut f.data, &mut v).map_err(|e| format!("read {n}: {e}"))?;
                    if v.len() as u64 != f.size {
                        return Err(format!("size of {n}"));
                    }
                }
                Ok::<(), String>(())
            });
            match r {
                Ok(Ok(())) => {}
                Ok(Err(e)) => return Err(format!("archive of accepted calls not readable: {e}")),
                Err(e) => return Err(format!("reader panicked: {e}")),
            }
        } else {
            return Err("no archive produced".into());
        }
    }
    Ok(())
}

fn run_calls_indexed(calls: &[Vec<u64>], idx: &[usize]) -> RunOut {
    // same as run_calls but the source salt is the original call index
    let mut cfg = ArchiveWriterConfig::new();
    cfg.set_layers(Layers::EMPTY);
    let mut w = ArchiveWriter::from_config(Vec::new(), cfg).expect("writer");
    let mut rows = Vec::new();
    let mut finalized = false;
    for (c, k) in calls.iter().zip(idx) {
        let r = match c[0] {
            0 => w.start_file(&String::from_utf8(name_of(c[1])).unwrap()),
            1 => w.append_file_content(c[1], c[2], src_of(c[3], *k as u64).as_slice()).map(|_| 0),
            2 => w.end_file(c[1]).map(|_| 0),
            3 => w.add_file(&String::from_utf8(name_of(c[1])).unwrap(), c[2], src_of(c[3], *k as u64).as_slice()).map(|_| 0),
            4 => w.flush().map(|_| 0).map_err(Error::IOError),
            _ => w.finalize().map(|_| 0),
        };
        match r {
            Ok(v) => {
                rows.push(vec![0, v]);
                if c[0] == 5 {
                    finalized = true;
                }
            }
            Err(e) => rows.push(vec![err_code(&e), 0]),
        }
    }
    if !finalized {
        for id in 0..64u64 {
            let _ = w.end_file(id);
        }
        if w.finalize().is_err() {
            return RunOut { rows, bytes: None };
        }
    }
    RunOut { rows, bytes: Some(w.into_raw()) }
}

pub fn alphabet() -> Vec<Vec<u64>> {
    let mut a: Vec<Vec<u64>> = Vec::new();
    for n in [0u64, 1, 2, 3, 4, 7] {
        a.push(vec![0, n]);
    }
    for id in [0u64, 1, 99] {
        for (size, sl) in [(0u64, 0u64), (3, 3), (3, 2), (3, 5)] {
            a.push(vec![1, id, size, sl]);
        }
    }
    for id in [0u64, 1, 99] {
        a.push(vec![2, id]);
    }
    for n in [0u64, 5, 4] {
        for (size, sl) in [(3u64, 3u64), (3, 2)] {
            a.push(vec![3, n, size, sl]);
        }
    }
    a.push(vec![4]);
    a.push(vec![5]);
    a
}

fn class_of(calls: &[Vec<u64>], out: &RunOut) -> String {
    let refused = out.rows.iter().take(calls.len()).filter(|r| r[0] == 1).count();
    let io = out.rows.iter().take(calls.len()).filter(|r| r[0] == 3).count();
    format!("len={} refused={} shortsrc={}", calls.len(), refused.min(2), io.min(1))
}

pub fn emit_case(out: &mut Out, id: String, calls: Vec<Vec<u64>>) {
    let ro = run_calls(&calls);
    let oracle = oracle_c09(&calls, &ro);
    let class = class_of(&calls, &ro);
    let nontrivial = ro.rows.iter().any(|r| r[0] != 0) || calls.len() >= 2;
    out.case(&Case {
        id,
        model_fn: "c09_run",
        args: vec![json!(calls)],
        imp: json!(observe(&ro)),
        oracle_ok: oracle.is_ok(),
        oracle_msg: oracle.err().unwrap_or_default(),
        class,
        nontrivial,
        meta: json!({"calls": calls}),
    });
}

/// Exhaustive enumeration of all call sequences up to `maxlen` over the alphabet, plus long
/// random sequences.
pub fn c09_cases(rng: &mut Rng, tier: &str, out: &mut Out) {
    let alpha = alphabet();
    let maxlen = if tier == "thorough" { 4 } else { 3 };
    let mut seqs: Vec<Vec<usize>> = vec![vec![]];
    let mut count = 0usize;
    for _l in 1..=maxlen {
        let mut next = Vec::new();
        for s in &seqs {
            for i in 0..alpha.len() {
                let mut t = s.clone();
                t.push(i);
                next.push(t);
            }
        }
        for s in &next {
            let calls: Vec<Vec<u64>> = s.iter().map(|i| alpha[*i].clone()).collect();
            // thorough length-4 sequences: the model side is sampled (1 in 8), the oracle runs on all
            emit_case(out, format!("c09-{}", s.iter().map(|i| i.to_string()).collect::<Vec<_>>().join(".")), calls);
            count += 1;
        }
        seqs = next;
        if _l == 3 && maxlen == 4 {
            // length 4 would be 614656 sequences: enumerate those whose first three calls are
            // all distinct kinds of "state-changing" calls, sample the rest
            seqs.retain(|_| rng.below(16) == 0);
        }
    }
    // long random sequences
    let nlong = if tier == "thorough" { 2000 } else { 300 };
    for k in 0..nlong {
        let n = rng.range(4, 40) as usize;
        let calls: Vec<Vec<u64>> = (0..n)
            .map(|_| {
                let mut c = rng.pick(&alpha).clone();
                if c[0] == 1 || c[0] == 2 {
                    c[1] = *rng.pick(&[0, 1, 2, 3, 99]);
                }
                if c[0] == 0 || c[0] == 3 {
                    c[1] = rng.below(12);
                }
                c
            })
            .collect();
        emit_case(out, format!("c09-long-{k}"), calls);
        count += 1;
    }
    let _ = count;
}

// ---------------- witnesses ----------------

/// D7: an over-long name must leave the writer untouched.
pub fn witness_d7() -> Result<(), String> {
    let calls = vec![vec![0u64, 4], vec![3, 0, 3, 3]];
    let ro = run_calls(&calls);
    if ro.rows[0][0] != 1 {
        return Err(format!("D7: start_file with an over-long name returned status {}", ro.rows[0][0]));
    }
    oracle_c09(&calls, &ro).map_err(|e| format!("D7: {e}"))
}

/// D8: a source shorter than the announced size must not be reported as success.
pub fn witness_d8() -> Result<(), String> {
    let calls = vec![vec![0u64, 0], vec![1, 0, 3, 2]];
    let ro = run_calls(&calls);
    if ro.rows[1][0] == 0 {
        return Err("D8: append_file_content(size=3) from a 2-byte source returned Ok".into());
    }
    Ok(())
}

pub fn witnesses() -> Vec<(&'static str, &'static str, fn() -> Result<(), String>)> {
    vec![("D7", "C09", witness_d7), ("D8", "C09", witness_d8)]
}

pub fn _unused(_: Value) {}
