//! Compression layer and raw layer readers (C11): builders over the real layers, an
//! independent footer parser / brotli decoder for the model's inputs, op runner, oracle
//! (std::io::Cursor over the plaintext), case generation, witnesses D11 / D13.
#![allow(dead_code)]
#[allow(unused_imports)]
use crate::util::*;
#[allow(unused_imports)]
use serde_json::{json, Value};
#[allow(unused_imports)]
use std::io::{Cursor, Read, Seek, SeekFrom, Write};

#[cfg(feature = "scaled")]
pub use scaled::*;

#[cfg(feature = "scaled")]
mod scaled {
    use super::*;
    use crate::enc::{fix_ops_for_oracle, gen_ops, op_to_seek, KEY, NONCE};
    use mla::layers::compress::{CompressionConfig, CompressionLayerReader, CompressionLayerWriter, VERIF_CONSTANTS};
    use mla::layers::encrypt::{EncryptionConfig, EncryptionLayerReader, EncryptionLayerWriter, EncryptionReaderConfig};
    use mla::layers::raw::{RawLayerReader, RawLayerWriter};
    use mla::layers::traits::{LayerReader, LayerWriter};

    pub fn block() -> u64 {
        VERIF_CONSTANTS.0
    }

    fn write_pieces<W: Write>(w: &mut W, plain: &[u8], piece: usize) {
        if piece == 0 {
            w.write_all(plain).unwrap();
        } else {
            for c in plain.chunks(piece) {
                w.write_all(c).unwrap();
            }
        }
    }

    /// The compression layer's inner bytes for `plain`, written in the given pieces.
    pub fn comp_layer_bytes(plain: &[u8], piece: usize, level: u32) -> Vec<u8> {
        comp_layer_bytes_ext(plain, piece, level, false)
    }

    /// `empty_write`: hand the writer one empty buffer before finalize (a direct `write(&[])`,
    /// which write_all never issues): after a full block, or first, this leaves one more, empty,
    /// compressed block — a legal but non-canonical wire form.
    pub fn comp_layer_bytes_ext(plain: &[u8], piece: usize, level: u32, empty_write: bool) -> Vec<u8> {
        let mut w = Box::new(CompressionLayerWriter::new(
            Box::new(RawLayerWriter::new(Vec::new())),
            &CompressionConfig::verif_new(level),
        ));
        write_pieces(&mut w, plain, piece);
        if empty_write {
            let _ = w.write(&[]).unwrap();
        }
        w.finalize().unwrap();
        w.into_raw()
    }

    pub type CompR = CompressionLayerReader<'static, Cursor<Vec<u8>>>;

    /// Reader over raw over a cursor, as the tests of compress.rs build it (+ reset_position).
    pub fn comp_reader(wire: Vec<u8>) -> Result<CompR, String> {
        let mut raw = RawLayerReader::new(Cursor::new(wire));
        raw.reset_position().map_err(|e| format!("{e:?}"))?;
        let mut r = CompressionLayerReader::new(Box::new(raw)).map_err(|e| format!("{e:?}"))?;
        r.initialize().map_err(|e| format!("{e:?}"))?;
        Ok(r)
    }

    /// Independent parser of `[blocks][SizesInfo][len u32 LE]` (bincode fixint, little endian).
    pub fn parse_footer(wire: &[u8]) -> Option<(Vec<u32>, u32, usize)> {
        let n = wire.len();
        if n < 4 {
            return None;
        }
        let flen = u32::from_le_bytes(wire[n - 4..].try_into().ok()?) as usize;
        if flen + 4 > n || flen < 12 {
            return None;
        }
        let f = &wire[n - 4 - flen..n - 4];
        let count = u64::from_le_bytes(f[..8].try_into().ok()?) as usize;
        if 8 + 4 * count + 4 > flen {
            return None;
        }
        let sizes: Vec<u32> = (0..count).map(|i| u32::from_le_bytes(f[8 + 4 * i..12 + 4 * i].try_into().unwrap())).collect();
        let last = u32::from_le_bytes(f[8 + 4 * count..12 + 4 * count].try_into().ok()?);
        Some((sizes, last, n - 4 - flen))
    }

    /// Per block (compressed bytes, plaintext) — decoded with the brotli crate, never through mla.
    pub fn decode_table(wire: &[u8]) -> Result<(Vec<(Vec<u8>, Vec<u8>)>, u32), String> {
        let (sizes, last, body_len) = parse_footer(wire).ok_or("footer")?;
        let mut off = 0usize;
        let mut tab = Vec::new();
        for s in &sizes {
            let s = *s as usize;
            if off + s > body_len {
                return Err("sizes exceed the body".into());
            }
            let cb = &wire[off..off + s];
            let mut out = Vec::new();
            brotli::Decompressor::new(cb, 4096).read_to_end(&mut out).map_err(|e| format!("brotli: {e}"))?;
            tab.push((cb.to_vec(), out));
            off += s;
        }
        if off != body_len {
            return Err(format!("blocks end at {off}, footer starts at {body_len}"));
        }
        Ok((tab, last))
    }

    pub fn jtable(tab: &[(Vec<u8>, Vec<u8>)]) -> Value {
        Value::Array(tab.iter().map(|(c, p)| json!([jbytes(c), jbytes(p)])).collect())
    }

    /// Run a history on a real reader; one row per op: [status, value, pos_after, bytes...]
    /// (read = read until n bytes or end of stream; pos_after = stream_position()+1, 0 on error).
    pub fn run_ops<R: Read + Seek>(r: &mut R, ops: &[Vec<u64>]) -> Vec<Vec<u64>> {
        let mut rows = Vec::new();
        for op in ops {
            let row = catch(|| {
                let (st, val, bytes) = if op[0] == 0 {
                    let n = op[1] as usize;
                    let mut buf = vec![0u8; n];
                    let mut got = 0usize;
                    let mut err = false;
                    if n == 0 {
                        // a zero-length read is issued as such (a cursor answers Ok(0) and nothing changes)
                        err = r.read(&mut []).is_err();
                    }
                    while got < n {
                        match r.read(&mut buf[got..]) {
                            Ok(0) => break,
                            Ok(k) => got += k,
                            Err(_) => {
                                err = true;
                                break;
                            }
                        }
                    }
                    if err {
                        (1u64, 0u64, vec![])
                    } else {
                        (0, got as u64, buf[..got].to_vec())
                    }
                } else {
                    match r.seek(op_to_seek(op).unwrap()) {
                        Ok(p) => (0, p, vec![]),
                        Err(_) => (1, 0, vec![]),
                    }
                };
                let pc = match r.stream_position() {
                    Ok(p) => p + 1,
                    Err(_) => 0,
                };
                let mut row = vec![st, val, pc];
                row.extend(bytes.iter().map(|b| *b as u64));
                row
            });
            match row {
                Ok(row) => rows.push(row),
                Err(_) => {
                    rows.push(vec![2]);
                    break;
                }
            }
        }
        rows
    }

    /// The property's own oracle: std::io::Cursor over the plaintext — same returned
    /// positions, same bytes (after read-until-n-or-EOF), end of stream at the same place.
    pub fn oracle_cursor(plain: &[u8], ops: &[Vec<u64>], rows: &[Vec<u64>]) -> Result<(), String> {
        let mut c = Cursor::new(plain.to_vec());
        if rows.len() != ops.len() {
            return Err(format!("crash at op {}", rows.len().saturating_sub(1)));
        }
        for (i, (op, row)) in ops.iter().zip(rows).enumerate() {
            if row[0] != 0 {
                return Err(format!("op {i} {op:?}: status {}", row[0]));
            }
            if op[0] == 0 {
                let mut exp = Vec::new();
                (&mut c).take(op[1]).read_to_end(&mut exp).unwrap();
                let got: Vec<u8> = row[3..].iter().map(|x| *x as u8).collect();
                if row[1] as usize != exp.len() {
                    return Err(format!("op {i} {op:?}: {} bytes, cursor gives {}", row[1], exp.len()));
                }
                if got != exp {
                    return Err(format!("op {i} {op:?}: bytes differ"));
                }
            } else {
                let p = c.seek(op_to_seek(op).unwrap()).map_err(|e| format!("oracle seek: {e}"))?;
                if p != row[1] {
                    return Err(format!("op {i} {op:?}: position {} expected {p}", row[1]));
                }
            }
            if row[2] != c.position() + 1 {
                return Err(format!("op {i} {op:?}: stream_position {} expected {}", row[2] as i64 - 1, c.position()));
            }
        }
        Ok(())
    }

    pub fn gen_plain(rng: &mut Rng, class: usize, len: usize) -> Vec<u8> {
        match class {
            0 => vec![0u8; len],
            1 => {
                let words: [&[u8]; 8] = [b"the ", b"archive ", b"layer ", b"of ", b"block ", b"seek ", b"stream ", b"and\n"];
                let mut v = Vec::new();
                while v.len() < len {
                    v.extend_from_slice(*rng.pick(&words));
                }
                v.truncate(len);
                v
            }
            _ => rng.bytes(len),
        }
    }

    /// Replace a few ops by out-of-range ones (model correspondence only, no oracle).
    fn sprinkle_out_of_range(rng: &mut Rng, ops: &mut Vec<Vec<u64>>, len: u64, unit: u64) {
        let n = ops.len();
        for _ in 0..3 {
            let i = rng.below(n as u64) as usize;
            let o = match rng.below(7) {
                0 => vec![1, len + 1 + rng.below(unit), 0],
                1 => vec![1, (len / unit + 1) * unit + rng.below(2 * unit), 0],
                2 => vec![3, 0, 1 + rng.below(5)],
                3 => vec![3, 1, len + 1 + rng.below(unit)],
                4 => vec![2, 1, len + 1 + rng.below(unit)],
                5 => vec![2, 0, len + 1 + rng.below(2 * unit)],
                _ => vec![1, len + 1, 0],
            };
            ops[i] = o;
        }
    }

    fn lengths(tier: &str, bl: u64) -> Vec<u64> {
        let maxlen = 3 * bl + 20;
        if tier == "thorough" {
            return (0..=maxlen).collect();
        }
        let mut v: Vec<u64> = (0..=maxlen).step_by(23).collect();
        for k in 0..=3u64 {
            for d in -2i64..=2 {
                let x = (k * bl) as i64 + d;
                if x >= 0 && x as u64 <= maxlen {
                    v.push(x as u64);
                }
            }
        }
        v.push(maxlen);
        v.sort();
        v.dedup();
        v
    }

    fn len_class(len: u64, bl: u64) -> String {
        format!(
            "len%block={} blocks={}",
            match len % bl {
                0 => "0".to_string(),
                1 => "1".into(),
                r if r == bl - 1 => "block-1".into(),
                _ => "mid".into(),
            },
            len / bl
        )
    }

    pub fn c11_comp_cases(rng: &mut Rng, tier: &str, out: &mut Out) {
        let bl = block();
        for len in lengths(tier, bl) {
            for class in 0..3usize {
                let plain = gen_plain(rng, class, len as usize);
                let piece = *rng.pick(&[0usize, 1, 7, 100, 255, 256, 257, 300, 512]);
                let piece = if piece == 1 && len > 300 { 13 } else { piece };
                let level = *rng.pick(&[0u32, 1, 5, 9, 11]);
                let empty_write = len % bl == 0 && rng.below(2) == 0;
                let wire = comp_layer_bytes_ext(&plain, piece, level, empty_write);
                let (tab, _last) = match decode_table(&wire) {
                    Ok(t) => t,
                    Err(e) => {
                        out.case(&Case {
                            id: format!("c11-comp-L{len}-c{class}"), model_fn: "", args: vec![], imp: json!([]),
                            oracle_ok: false, oracle_msg: format!("the layer's inner bytes do not parse: {e}"),
                            class: "unparsable".into(), nontrivial: false, meta: json!({"len": len}),
                        });
                        continue;
                    }
                };
                // the independent brotli decode of the blocks must give the plaintext back
                let cat: Vec<u8> = tab.iter().flat_map(|(_, p)| p.iter().copied()).collect();
                let oor = rng.below(5) == 0;
                let mut ops = gen_ops(rng, len, bl, 30, 3 * bl);
                fix_ops_for_oracle(&mut ops, len, |_pos, n| n);
                if oor {
                    sprinkle_out_of_range(rng, &mut ops, len, bl);
                }
                let (rows, open_err) = match comp_reader(wire.clone()) {
                    Ok(mut r) => {
                        let mut rows = vec![{
                            let mut v = vec![0u64];
                            v.extend(r.sizes_info.as_ref().map(|s| s.compressed_sizes.clone()).unwrap_or_default().iter().map(|x| *x as u64));
                            v
                        }];
                        rows.extend(run_ops(&mut r, &ops));
                        (rows, None)
                    }
                    Err(e) => (vec![vec![1u64]], Some(e)),
                };
                let oracle = if cat != plain {
                    Err("brotli decode of the blocks differs from the plaintext written".to_string())
                } else if let Some(e) = &open_err {
                    Err(format!("open failed: {e}"))
                } else if oor {
                    // out-of-range histories are outside the property's text: no oracle, only the
                    // model correspondence (a panic shows as a [2] row the model must reproduce)
                    Ok(())
                } else {
                    oracle_cursor(&plain, &ops, &rows[1..])
                };
                out.case(&Case {
                    id: format!("c11-comp-L{len}-c{class}"),
                    model_fn: "c11_comp",
                    args: vec![jbytes(&wire), jtable(&tab), json!(ops)],
                    imp: json!(rows),
                    oracle_ok: oracle.is_ok(),
                    oracle_msg: oracle.err().unwrap_or_default(),
                    class: format!("{} {}{}{}", len_class(len, bl), ["zeros", "text", "random"][class], if oor { " out-of-range" } else { "" }, if empty_write { " empty-trailing-block" } else { "" }),
                    nontrivial: len > 0,
                    meta: json!({"len": len, "wire_len": wire.len(), "piece": piece, "level": level, "blocks": tab.len()}),
                });
            }
        }
    }

    pub fn c11_raw_cases(rng: &mut Rng, tier: &str, out: &mut Out) {
        let n = if tier == "thorough" { 600 } else { 150 };
        for i in 0..n {
            let hl = *rng.pick(&[0u64, 1, 3, 8, 40]);
            let len = match rng.below(4) {
                0 => rng.below(4),
                _ => rng.below(200),
            };
            let header = rng.bytes(hl as usize);
            let body = rng.bytes(len as usize);
            let oor = rng.below(4) == 0;
            let mut ops = gen_ops(rng, len, 16, 30, 64);
            fix_ops_for_oracle(&mut ops, len, |_pos, n| n);
            if oor {
                sprinkle_out_of_range(rng, &mut ops, len, 16);
            }
            let mut all = header.clone();
            all.extend_from_slice(&body);
            let mut r = RawLayerReader::new(Cursor::new(all));
            let mut hb = vec![0u8; hl as usize];
            r.read_exact(&mut hb).unwrap();
            r.reset_position().unwrap();
            let mut rows = vec![vec![0u64, hl]];
            rows.extend(run_ops(&mut r, &ops));
            let oracle = if oor { Ok(()) } else { oracle_cursor(&body, &ops, &rows[1..]) };
            out.case(&Case {
                id: format!("c11-raw-{i}"),
                model_fn: "c11_raw",
                args: vec![jbytes(&header), jbytes(&body), json!(ops)],
                imp: json!(rows),
                oracle_ok: oracle.is_ok(),
                oracle_msg: oracle.err().unwrap_or_default(),
                class: format!("raw offset={} {}{}", hl, if len < 4 { "tiny" } else { "body" }, if oor { " out-of-range" } else { "" }),
                nontrivial: len > 0,
                meta: json!({"len": len, "offset": hl}),
            });
        }
    }

    /// compression over encryption over raw over a cursor over header ++ layers' bytes
    pub fn c11_stack_cases(rng: &mut Rng, tier: &str, out: &mut Out) {
        let bl = block();
        let n = if tier == "thorough" { 240 } else { 60 };
        for i in 0..n {
            let hl = *rng.pick(&[0usize, 5, 31]);
            let len = match rng.below(3) {
                0 => (rng.below(4) * bl) as i64 + rng.below(5) as i64 - 2,
                _ => rng.below(3 * bl + 20) as i64,
            }
            .max(0) as u64;
            let class = rng.below(3) as usize;
            let plain = gen_plain(rng, class, len as usize);
            let piece = *rng.pick(&[0usize, 7, 100, 256, 300]);
            let level = *rng.pick(&[1u32, 5, 9]);
            let header = rng.bytes(hl);
            let mut w = Box::new(CompressionLayerWriter::new(
                Box::new(
                    EncryptionLayerWriter::new(Box::new(RawLayerWriter::new(header.clone())), &EncryptionConfig::verif_new(KEY, NONCE)).unwrap(),
                ),
                &CompressionConfig::verif_new(level),
            ));
            write_pieces(&mut w, &plain, piece);
            w.finalize().unwrap();
            let arch = w.into_raw();
            // brotli is deterministic: the same pieces give the same compression-layer bytes
            let compwire = comp_layer_bytes(&plain, piece, level);
            let tab = match decode_table(&compwire) {
                Ok((t, _)) => t,
                Err(e) => panic!("decode_table: {e}"),
            };
            let mut ops = gen_ops(rng, len, bl, 24, 3 * bl);
            fix_ops_for_oracle(&mut ops, len, |_pos, n| n);
            let open = || -> Result<CompressionLayerReader<'static, Cursor<Vec<u8>>>, String> {
                let mut raw = RawLayerReader::new(Cursor::new(arch.clone()));
                let mut hb = vec![0u8; hl];
                raw.read_exact(&mut hb).map_err(|e| e.to_string())?;
                raw.reset_position().map_err(|e| e.to_string())?;
                let enc = EncryptionLayerReader::new(Box::new(raw), &EncryptionReaderConfig::verif_new(KEY, NONCE, false))
                    .map_err(|e| format!("{e:?}"))?;
                let mut r = CompressionLayerReader::new(Box::new(enc)).map_err(|e| format!("{e:?}"))?;
                r.initialize().map_err(|e| format!("{e:?}"))?;
                Ok(r)
            };
            let (rows, open_err) = match open() {
                Ok(mut r) => {
                    let mut rows = vec![{
                        let mut v = vec![0u64];
                        v.extend(r.sizes_info.as_ref().map(|s| s.compressed_sizes.clone()).unwrap_or_default().iter().map(|x| *x as u64));
                        v
                    }];
                    rows.extend(run_ops(&mut r, &ops));
                    (rows, None)
                }
                Err(e) => (vec![vec![1u64]], Some(e)),
            };
            let oracle = match &open_err {
                Some(e) => Err(format!("open failed: {e}")),
                None => oracle_cursor(&plain, &ops, &rows[1..]),
            };
            out.case(&Case {
                id: format!("c11-stack-{i}"),
                model_fn: "c11_stack",
                args: vec![jbytes(&header), jbytes(&compwire), jtable(&tab), json!(ops)],
                imp: json!(rows),
                oracle_ok: oracle.is_ok(),
                oracle_msg: oracle.err().unwrap_or_default(),
                class: format!("stack {} {}", len_class(len, bl), ["zeros", "text", "random"][class]),
                nontrivial: len > 0,
                meta: json!({"len": len, "arch_len": arch.len(), "compwire_len": compwire.len(), "header": hl}),
            });
        }
        // sequential reads across many block boundaries of incompressible data (stored brotli
        // blocks end in a lone empty last meta-block; where it falls relative to the encryption
        // chunks below varies from stream to stream): oracle only
        let nseq = if tier == "thorough" { 3000 } else { 400 };
        for i in 0..nseq {
            let len = (2 * bl + rng.below(3 * bl)) as usize;
            let plain = if i % 4 == 3 { gen_plain(rng, 1, len) } else { rng.bytes(len) };
            let piece = *rng.pick(&[0usize, 7, 100, 256, 300]);
            let level = *rng.pick(&[0u32, 1, 5]);
            let mut w = Box::new(CompressionLayerWriter::new(
                Box::new(EncryptionLayerWriter::new(Box::new(RawLayerWriter::new(Vec::new())), &EncryptionConfig::verif_new(KEY, NONCE)).unwrap()),
                &CompressionConfig::verif_new(level),
            ));
            write_pieces(&mut w, &plain, piece);
            w.finalize().unwrap();
            let arch = w.into_raw();
            let bufsz = *rng.pick(&[1usize, 64, 257, 100_000]);
            let res = crate::util::catch(|| -> Result<Vec<u8>, String> {
                let mut raw = RawLayerReader::new(Cursor::new(arch.clone()));
                raw.reset_position().map_err(|e| e.to_string())?;
                let enc = EncryptionLayerReader::new(Box::new(raw), &EncryptionReaderConfig::verif_new(KEY, NONCE, false)).map_err(|e| format!("{e:?}"))?;
                let mut r = CompressionLayerReader::new(Box::new(enc)).map_err(|e| format!("{e:?}"))?;
                r.initialize().map_err(|e| format!("{e:?}"))?;
                let mut got = Vec::new();
                let mut buf = vec![0u8; bufsz];
                loop {
                    let n = r.read(&mut buf).map_err(|e| format!("read at {}: {e}", got.len()))?;
                    if n == 0 {
                        break;
                    }
                    got.extend_from_slice(&buf[..n]);
                }
                Ok(got)
            });
            let msg = match res {
                Err(p) => Some(format!("sequential read of compression over encryption panicked: {p}")),
                Ok(Err(e)) => Some(format!("sequential read of compression over encryption ({len} bytes, buffer {bufsz}): {e}")),
                Ok(Ok(g)) if g != plain => Some(format!("sequential read of compression over encryption returns {} bytes, {} written, or bytes differ", g.len(), plain.len())),
                _ => None,
            };
            out.case(&Case {
                id: format!("c11-stack-seq-{i}"),
                model_fn: "",
                args: vec![],
                imp: json!([]),
                oracle_ok: msg.is_none(),
                oracle_msg: msg.unwrap_or_default(),
                class: format!("stack-seq level={level} buf={}", bufsz.min(1000)),
                nontrivial: true,
                meta: json!({"len": len, "level": level, "buf": bufsz, "piece": piece, "arch_len": arch.len()}),
            });
        }
    }

    /// C08 at the layer level: compression over encryption over raw where some chunks of the
    /// encrypted wire do not verify (a tag byte altered): the inner error leaves the compression
    /// reader in its `Empty` state; the history continues with reads and seeks of every kind
    /// (stream lengths that are multiples of the block size and seeks to exactly the end
    /// included). Oracle: no panic, and every successful read returns the bytes written at the
    /// position the reader reports. (No model comparison: the model's decoder is a function of
    /// the whole compressed block, the real one streams, so the model reports the inner error
    /// at the seek that creates the decompressor and the code at the first read that reaches
    /// the unverifiable chunk — CompLayer.v says so at its head.)
    pub fn c08_stack_cases(rng: &mut Rng, tier: &str, out: &mut Out) {
        let bl = block();
        let (ch, tg) = (crate::enc::chunk() as usize, crate::enc::tag() as usize);
        let n = if tier == "thorough" { 900 } else { 220 };
        for i in 0..n {
            let hl = *rng.pick(&[0usize, 5]);
            let len = match rng.below(4) {
                0 | 1 => rng.range(1, 3) * bl,
                2 => (rng.below(4) * bl) as u64 + rng.below(5),
                _ => rng.below(3 * bl + 20),
            };
            let class = rng.below(3) as usize;
            let plain = gen_plain(rng, class, len as usize);
            let piece = *rng.pick(&[0usize, 7, 100, 256, 300]);
            let level = *rng.pick(&[1u32, 5]);
            let header = rng.bytes(hl);
            let mut w = Box::new(CompressionLayerWriter::new(
                Box::new(
                    EncryptionLayerWriter::new(Box::new(RawLayerWriter::new(header.clone())), &EncryptionConfig::verif_new(KEY, NONCE)).unwrap(),
                ),
                &CompressionConfig::verif_new(level),
            ));
            write_pieces(&mut w, &plain, piece);
            w.finalize().unwrap();
            let mut arch = w.into_raw();
            let compwire = comp_layer_bytes(&plain, piece, level);
            // alter the last tag byte of 1-2 chunks (never the one holding the compression footer
            // alone: the reader must still open in most cases; when it does not, both sides say so)
            let nch = (compwire.len() + ch - 1) / ch;
            let mut offs: Vec<u64> = Vec::new();
            for _ in 0..rng.range(1, 2) {
                let j = rng.below(nch.max(1) as u64) as usize;
                let clen = (compwire.len() - j * ch).min(ch);
                let o = j * (ch + tg) + clen + tg - 1;
                if o < arch.len() - hl && !offs.contains(&(o as u64)) {
                    offs.push(o as u64);
                    arch[hl + o] ^= 1;
                }
            }
            let mut ops = gen_ops(rng, len, bl, 20, 3 * bl);
            // explicit seeks to exactly the end, in both spellings, after something else has run
            let at = rng.range(1, ops.len() as u64) as usize;
            ops.insert(at, if rng.below(2) == 0 { vec![1, len, 0] } else { vec![3, 0, 0] });
            ops.push(vec![1, len, 0]);
            ops.push(vec![0, 7, 0]);
            let open = || -> Result<CompressionLayerReader<'static, Cursor<Vec<u8>>>, String> {
                let mut raw = RawLayerReader::new(Cursor::new(arch.clone()));
                let mut hb = vec![0u8; hl];
                raw.read_exact(&mut hb).map_err(|e| e.to_string())?;
                raw.reset_position().map_err(|e| e.to_string())?;
                let enc = EncryptionLayerReader::new(Box::new(raw), &EncryptionReaderConfig::verif_new(KEY, NONCE, false))
                    .map_err(|e| format!("{e:?}"))?;
                let mut r = CompressionLayerReader::new(Box::new(enc)).map_err(|e| format!("{e:?}"))?;
                r.initialize().map_err(|e| format!("{e:?}"))?;
                Ok(r)
            };
            let opened = crate::util::catch(open);
            let (rows, note) = match opened {
                Err(p) => (vec![vec![2u64]], Some(format!("opening panicked: {p}"))),
                Ok(Err(_)) => (vec![vec![1u64]], None),
                Ok(Ok(mut r)) => {
                    let mut rows = vec![{
                        let mut v = vec![0u64];
                        v.extend(r.sizes_info.as_ref().map(|s| s.compressed_sizes.clone()).unwrap_or_default().iter().map(|x| *x as u64));
                        v
                    }];
                    rows.extend(run_ops(&mut r, &ops));
                    let mut note = if rows.iter().any(|r| r == &vec![2u64]) {
                        Some(format!("a call on the compression reader over an encrypted stream with an unverifiable chunk panicked (operation {} of the history)", rows.len() - 1))
                    } else {
                        None
                    };
                    for (op, row) in ops.iter().zip(rows.iter().skip(1)) {
                        if op[0] == 0 && row.len() >= 3 && row[0] == 0 && row[2] > 0 {
                            let end = (row[2] - 1) as usize;
                            let got: Vec<u8> = row[3..].iter().map(|x| *x as u8).collect();
                            if end > plain.len() || got.len() > end || plain[end - got.len()..end] != got[..] {
                                note = Some(format!("a read that succeeded returned {} bytes that are not the bytes written before position {end}", got.len()));
                            }
                        }
                    }
                    (rows, note)
                }
            };
            let errs = rows.iter().filter(|r| r.first() == Some(&1)).count();
            out.case(&Case {
                id: format!("c08-stack-{i}"),
                model_fn: "",
                args: vec![],
                imp: json!([]),
                oracle_ok: note.is_none(),
                oracle_msg: note.unwrap_or_default(),
                class: format!("stack-bad {} errors={}", len_class(len, bl), errs.min(3)),
                nontrivial: errs > 0,
                meta: json!({"len": len, "arch_len": arch.len(), "offs": offs, "header": hl}),
            });
        }
    }

    /// The writer's block roll-over: single `write` calls of chosen sizes (0 = empty buffer),
    /// then finalize; observed: bytes accepted per call, number of compressed sizes and
    /// last_block_size in the footer.  Oracle: the blocks, decoded with the brotli crate, give
    /// back exactly the accepted bytes.
    pub fn c11_cw_cases(rng: &mut Rng, tier: &str, out: &mut Out) {
        let bl = block();
        let n = if tier == "thorough" { 600 } else { 150 };
        for i in 0..n {
            let ncalls = rng.below(7) as usize;
            let mut sizes: Vec<u64> = Vec::new();
            for _ in 0..ncalls {
                let s = match rng.below(8) {
                    0 => 0,
                    1 => bl,
                    2 => bl - 1,
                    3 => bl + 1,
                    4 => 2 * bl + 5,
                    5 => 1,
                    _ => rng.below(bl + 40),
                };
                sizes.push(s);
            }
            let level = *rng.pick(&[1u32, 5, 9]);
            let mut w = Box::new(CompressionLayerWriter::new(
                Box::new(RawLayerWriter::new(Vec::new())),
                &CompressionConfig::verif_new(level),
            ));
            let mut rows: Vec<Vec<u64>> = Vec::new();
            let mut accepted: Vec<u8> = Vec::new();
            for s in &sizes {
                let buf = gen_plain(rng, 1, *s as usize);
                match w.write(&buf) {
                    Ok(k) => {
                        accepted.extend_from_slice(&buf[..k]);
                        rows.push(vec![0, k as u64]);
                    }
                    Err(_) => rows.push(vec![1, 0]),
                }
            }
            let fin = w.finalize();
            let wire = w.into_raw();
            let mut oracle: Result<(), String> = Ok(());
            match (&fin, decode_table(&wire)) {
                (Ok(()), Ok((tab, last))) => {
                    rows.push(vec![0, tab.len() as u64, last as u64]);
                    let cat: Vec<u8> = tab.iter().flat_map(|(_, p)| p.iter().copied()).collect();
                    if cat != accepted {
                        oracle = Err("the decoded blocks differ from the accepted bytes".into());
                    }
                }
                (Ok(()), Err(e)) => {
                    rows.push(vec![0]);
                    oracle = Err(format!("the writer's output does not parse: {e}"));
                }
                (Err(e), _) => {
                    rows.push(vec![1]);
                    oracle = Err(format!("finalize failed: {e:?}"));
                }
            }
            let total: u64 = accepted.len() as u64;
            out.case(&Case {
                id: format!("c11-cw-{i}"),
                model_fn: "c11_cw",
                args: vec![json!(sizes)],
                imp: json!(rows),
                oracle_ok: oracle.is_ok(),
                oracle_msg: oracle.err().unwrap_or_default(),
                class: format!("writer calls={} {} empty-writes={}", sizes.len(), len_class(total, bl), sizes.iter().filter(|s| **s == 0).count().min(2)),
                nontrivial: total > 0,
                meta: json!({"accepted": total, "level": level}),
            });
        }
    }

    // ---------------- witnesses of repaired defects ----------------

    /// D11: the end of a stream whose length is a multiple of BLOCK is a legal seek target.
    pub fn witness_d11() -> Result<(), String> {
        let bl = block() as usize;
        for len in [0usize, bl, 2 * bl, 3 * bl] {
            let plain: Vec<u8> = (0..len).map(|i| (i * 7) as u8).collect();
            let mut r = comp_reader(comp_layer_bytes(&plain, 0, 5))?;
            for w in [SeekFrom::End(0), SeekFrom::Start(len as u64)] {
                let p = catch(|| r.seek(w)).map_err(|e| format!("D11: panic {e}"))?.map_err(|e| format!("D11: seek({w:?}) on a {len}-byte stream: {e}"))?;
                if p != len as u64 {
                    return Err(format!("D11: seek({w:?}) on a {len}-byte stream returned {p}"));
                }
                let mut b = [0u8; 8];
                let k = catch(|| r.read(&mut b)).map_err(|e| format!("D11: panic {e}"))?.map_err(|e| format!("D11: read at the end: {e}"))?;
                if k != 0 {
                    return Err(format!("D11: read at the end returned {k} bytes"));
                }
                let p = catch(|| r.seek(SeekFrom::Start(0))).map_err(|e| format!("D11: panic {e}"))?.map_err(|e| format!("D11: seek after the end: {e}"))?;
                if p != 0 {
                    return Err("D11: seek(Start(0)) after the end".into());
                }
                let mut got = Vec::new();
                r.read_to_end(&mut got).map_err(|e| e.to_string())?;
                if got != plain {
                    return Err("D11: bytes after coming back from the end differ".into());
                }
            }
        }
        Ok(())
    }

    /// A Read + Seek source whose operations fail while the shared flag is set.
    pub struct Flaky {
        pub inner: Cursor<Vec<u8>>,
        pub fail: std::sync::Arc<std::sync::atomic::AtomicBool>,
    }
    impl Flaky {
        fn check(&self) -> std::io::Result<()> {
            if self.fail.load(std::sync::atomic::Ordering::SeqCst) {
                Err(std::io::Error::new(std::io::ErrorKind::Other, "flaky source"))
            } else {
                Ok(())
            }
        }
    }
    impl Read for Flaky {
        fn read(&mut self, buf: &mut [u8]) -> std::io::Result<usize> {
            self.check()?;
            self.inner.read(buf)
        }
    }
    impl Seek for Flaky {
        fn seek(&mut self, pos: SeekFrom) -> std::io::Result<u64> {
            self.check()?;
            self.inner.seek(pos)
        }
    }

    /// D13: a seek after a failed operation returns Err (no panic on the Empty state).
    pub fn witness_d13() -> Result<(), String> {
        use std::sync::atomic::{AtomicBool, Ordering};
        let bl = block();
        let len = 2 * bl + 40;
        let plain: Vec<u8> = (0..len).map(|i| (i * 3) as u8).collect();
        for failing_op in 0..2 {
            let fail = std::sync::Arc::new(AtomicBool::new(false));
            let src = Flaky { inner: Cursor::new(comp_layer_bytes(&plain, 0, 5)), fail: fail.clone() };
            let mut r = CompressionLayerReader::new(Box::new(RawLayerReader::new(src))).map_err(|e| format!("{e:?}"))?;
            r.initialize().map_err(|e| format!("{e:?}"))?;
            // an operation fails midway (the source errs): the reader has lost its inner layer
            fail.store(true, Ordering::SeqCst);
            let failed = if failing_op == 0 {
                let mut b = [0u8; 8];
                r.read(&mut b).is_err()
            } else {
                r.seek(SeekFrom::Start(bl + 3)).is_err()
            };
            fail.store(false, Ordering::SeqCst);
            if !failed {
                return Err("D13 setup: the operation on a failing source did not fail".into());
            }
            for w in [SeekFrom::Start(0), SeekFrom::End(0), SeekFrom::Current(-1), SeekFrom::Start(len)] {
                match catch(|| r.seek(w)) {
                    Err(e) => return Err(format!("D13: seek({w:?}) after a failed operation panicked: {e}")),
                    Ok(Ok(p)) => return Err(format!("D13: seek({w:?}) after a failed operation returned Ok({p})")),
                    Ok(Err(_)) => {}
                }
            }
            let mut b = [0u8; 8];
            match catch(|| r.read(&mut b)) {
                Err(e) => return Err(format!("D13: read after a failed operation panicked: {e}")),
                Ok(Ok(k)) => return Err(format!("D13: read after a failed operation returned Ok({k})")),
                Ok(Err(_)) => {}
            }
        }
        Ok(())
    }
}

pub fn witnesses() -> Vec<(&'static str, &'static str, fn() -> Result<(), String>)> {
    #[allow(unused_mut)]
    let mut v: Vec<(&'static str, &'static str, fn() -> Result<(), String>)> = Vec::new();
    #[cfg(feature = "scaled")]
    {
        v.push(("D11", "C11", witness_d11));
        v.push(("D13", "C08", witness_d13));
    }
    v
}
