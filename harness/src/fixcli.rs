//! Work package fixcli (job c16, cases `c16b-*`): the real `mlar extract` on layer-less archives whose block
//! stream and footer are written BY HAND — hostile re-use of a file id among them — and on every state of the
//! `-o` argument the prologue of `extract` distinguishes; model-compared (Coq: RunC16Bytes.c16b_run reads the
//! same archive bytes through the model's reader and runs CliExtractOut.cmd_extract_*_o on the same initial
//! sandbox), the WHOLE sandbox snapshot and the exit status must be equal.
//!
//! Oracle (independent of the model): nothing outside the directory the output argument resolves to is
//! created or changed (C16), and for the re-used-id archive in the whole-archive form the bytes of the block
//! whose id was first bound to `b` and then "re-bound" by a refused FileStart land in `out/b` (the source's
//! behaviour the repaired model has to reproduce).
use crate::cli::{mlar_bin, snapshot};
use crate::util::*;
use serde_json::json;
use sha2::{Digest, Sha256};
use std::collections::BTreeMap;
use std::fs;
use std::process::Command;

#[derive(Clone)]
enum Blk {
    Start(u64, &'static str),
    Content(u64, &'static [u8]),
    Eof(u64),
}

/// A layer-less MLA archive from explicit blocks and explicit footer entries (name -> indices of the blocks whose
/// offsets are listed for it, in order). Layout as in FORMAT.md / harness `format::indep::encode`.
fn craft(blocks: &[Blk], footer: &[(&str, Vec<usize>)]) -> Vec<u8> {
    let mut data: Vec<u8> = Vec::new();
    let mut offs: Vec<u64> = Vec::new();
    let mut acc: BTreeMap<u64, Vec<u8>> = BTreeMap::new();
    for b in blocks {
        offs.push(data.len() as u64);
        match b {
            Blk::Start(id, name) => {
                data.push(0x00);
                data.extend_from_slice(&id.to_le_bytes());
                data.extend_from_slice(&(name.len() as u64).to_le_bytes());
                data.extend_from_slice(name.as_bytes());
            }
            Blk::Content(id, d) => {
                data.push(0x01);
                data.extend_from_slice(&id.to_le_bytes());
                data.extend_from_slice(&(d.len() as u64).to_le_bytes());
                data.extend_from_slice(d);
                acc.entry(*id).or_default().extend_from_slice(d);
            }
            Blk::Eof(id) => {
                data.push(0xFF);
                data.extend_from_slice(&id.to_le_bytes());
                data.extend_from_slice(Sha256::digest(acc.get(id).cloned().unwrap_or_default()).as_slice());
            }
        }
    }
    data.push(0xFE);
    let mut entries: Vec<&(&str, Vec<usize>)> = footer.iter().collect();
    entries.sort_by(|a, b| a.0.cmp(b.0));
    let mut ft: Vec<u8> = Vec::new();
    ft.extend_from_slice(&(entries.len() as u64).to_le_bytes());
    for (name, idx) in entries {
        ft.extend_from_slice(&(name.len() as u64).to_le_bytes());
        ft.extend_from_slice(name.as_bytes());
        ft.extend_from_slice(&(idx.len() as u64).to_le_bytes());
        for i in idx {
            ft.extend_from_slice(&offs[*i].to_le_bytes());
        }
        ft.extend_from_slice(&4u64.to_le_bytes()); // size (not used by extract)
        ft.extend_from_slice(&offs[*idx.last().unwrap()].to_le_bytes()); // eof_offset
    }
    data.extend_from_slice(&ft);
    data.extend_from_slice(&(ft.len() as u32).to_le_bytes());
    let mut ar: Vec<u8> = b"MLA".to_vec();
    ar.extend_from_slice(&1u32.to_le_bytes());
    ar.push(0); // no layer
    ar.push(0); // Option<encryption config> = None
    ar.extend_from_slice(&data);
    ar
}

struct Arch {
    tag: &'static str,
    bytes: Vec<u8>,
    names: Vec<&'static str>,
}

fn archives() -> Vec<Arch> {
    use Blk::*;
    let mk = |tag, blocks: Vec<Blk>, footer: Vec<(&'static str, Vec<usize>)>| Arch {
        tag,
        bytes: craft(&blocks, &footer),
        names: footer.iter().map(|e| e.0).collect(),
    };
    vec![
        // (a) of the work package: id 0 bound to "b", then a FileStart with the same id and a refused name
        mk("reuse-dotdot", vec![Start(0, "b"), Start(0, "../x"), Content(0, b"DATA"), Eof(0)], vec![("b", vec![0, 2, 3]), ("../x", vec![1, 2, 3])]),
        // both names accepted: the second FileStart re-binds the id
        mk("reuse-both", vec![Start(0, "a"), Start(0, "b"), Content(0, b"DATA"), Eof(0)], vec![("a", vec![0, 2, 3]), ("b", vec![1, 2, 3])]),
        // the refused name first
        mk("reuse-refused-first", vec![Start(0, "../x"), Start(0, "b"), Content(0, b"DATA"), Eof(0)], vec![("../x", vec![0, 2, 3]), ("b", vec![1, 2, 3])]),
        // id re-used after its EndOfFile (a second file with the same id)
        mk("reuse-after-eof", vec![Start(0, "a"), Content(0, b"1"), Eof(0), Start(0, "b"), Content(0, b"22"), Eof(0)], vec![("a", vec![0]), ("b", vec![3])]),
        // two ids interleaved, one of them re-bound by a refused name
        mk(
            "reuse-two-ids",
            vec![Start(0, "b"), Start(1, "c"), Start(0, "../../y"), Content(1, b"CC"), Content(0, b"DATA"), Eof(0), Eof(1)],
            vec![("b", vec![0, 4]), ("c", vec![1, 3, 6]), ("../../y", vec![2, 4])],
        ),
        // a well-formed archive written by hand (control; used for the states of the -o argument)
        mk("plain", vec![Start(0, "a"), Content(0, b"A"), Eof(0), Start(1, "d/e"), Content(1, b"EE"), Eof(1)], vec![("a", vec![0]), ("d/e", vec![3])]),
    ]
}

fn snapshot_rows(status_ok: bool, snap: &BTreeMap<Vec<u8>, (u8, Vec<u8>)>) -> Vec<Vec<u64>> {
    let mut rows = vec![vec![u64::from(status_ok)]];
    for (kind, marker) in [(0u8, 256u64), (1, 257), (2, 258)] {
        for (p, v) in snap {
            if v.0 != kind {
                continue;
            }
            let path = p.iter().map(|b| *b as u64);
            let row: Vec<u64> = if kind == 0 {
                path.chain(std::iter::once(marker)).chain(v.1.iter().map(|b| *b as u64)).collect()
            } else {
                std::iter::once(marker).chain(path).collect()
            };
            rows.push(row);
        }
    }
    rows
}

const OUT_STATES: [&str; 6] = ["missing", "dir", "file", "link-to-dir", "dangling-link", "missing-parent"];

pub fn c16_bytes_cases(_rng: &mut Rng, _tier: &str, out: &mut Out) {
    let work = std::env::current_dir().unwrap();
    let archs = archives();
    let mut k = 0usize;
    for (ai, a) in archs.iter().enumerate() {
        // every archive in the three forms with an existing output directory; the re-used-id archive of (a) and the
        // control archive also in every state of the -o argument (forms 0 and 2)
        // (form, state of -o, index of the one name given as argument in form 2: clap takes exactly one)
        let mut plan: Vec<(u64, u64, usize)> = vec![(0, 1, 0), (1, 1, 0)];
        for i in 0..a.names.len() {
            plan.push((2, 1, i));
        }
        if ai == 0 || a.tag == "plain" {
            for st in [0u64, 2, 3, 4, 5] {
                plan.push((0, st, 0));
                plan.push((2, st, 0));
            }
        }
        for (form, st, listed) in plan {
            k += 1;
            let sb = work.join(format!("fx{k}"));
            let arc = work.join(format!("fx{k}.mla"));
            let _ = fs::remove_dir_all(&sb);
            fs::create_dir_all(&sb).unwrap();
            fs::write(&arc, &a.bytes).unwrap();
            match st {
                1 => fs::create_dir(sb.join("out")).unwrap(),
                2 => fs::write(sb.join("out"), b"old").unwrap(),
                3 => {
                    fs::create_dir(sb.join("real")).unwrap();
                    std::os::unix::fs::symlink("real", sb.join("out")).unwrap();
                }
                4 => std::os::unix::fs::symlink("nowhere", sb.join("out")).unwrap(),
                _ => {}
            }
            let before = snapshot(&sb);
            let outarg = if st == 5 { "missing/out" } else { "out" };
            let wanted: Vec<Vec<u8>> = if form == 2 { vec![a.names[listed].as_bytes().to_vec()] } else { vec![] };
            let mut cmd = Command::new(mlar_bin());
            cmd.current_dir(&sb).arg("extract").arg("-i").arg(&arc).arg("-o").arg(outarg);
            match form {
                1 => {
                    cmd.arg("-g").arg("*");
                }
                2 => {
                    cmd.arg("--");
                    for w in &wanted {
                        cmd.arg(String::from_utf8_lossy(w).into_owned());
                    }
                }
                _ => {}
            }
            let o = cmd.output().expect("run mlar");
            let after = snapshot(&sb);
            // ---- oracle: confinement to the directory the argument resolves to
            let root: &[u8] = match st {
                3 => b"real",
                5 => b"missing/out",
                _ => b"out",
            };
            let mut bad: Vec<String> = Vec::new();
            for (p, v) in &after {
                let beneath = p.starts_with(root) && (p.len() == root.len() || p[root.len()] == b'/');
                if beneath || before.get(p) == Some(v) {
                    continue;
                }
                // the prologue may create the output directory itself (beneath = itself): covered above
                bad.push(format!("{} {}", String::from_utf8_lossy(p), if before.contains_key(p) { "modified" } else { "created" }));
            }
            for p in before.keys() {
                if !after.contains_key(p) {
                    bad.push(format!("{} removed", String::from_utf8_lossy(p)));
                }
            }
            let mut msg = if bad.is_empty() { None } else { Some(format!("extraction touched the sandbox outside {}: {}", String::from_utf8_lossy(root), bad.join(", "))) };
            if o.status.code() == Some(2) && msg.is_none() {
                msg = Some(format!("mlar refused the command line: {}", String::from_utf8_lossy(&o.stderr).chars().take(120).collect::<String>()));
            }
            // ---- oracle: the re-used id, whole-archive form: DATA reaches out/b (the source binds the id to the accepted name)
            if msg.is_none() && ai == 0 && form == 0 && matches!(st, 0 | 1 | 3) {
                let key: Vec<u8> = [root, b"/b"].concat();
                let got = after.get(&key).map(|v| v.1.clone());
                if got.as_deref() != Some(b"DATA".as_slice()) || !o.status.success() {
                    msg = Some(format!(
                        "re-used file id: FileStart(0,\"b\") FileStart(0,\"../x\") FileContent(0,\"DATA\"): {}/b holds {:?}, exit ok = {}",
                        String::from_utf8_lossy(root),
                        got.map(|g| String::from_utf8_lossy(&g).into_owned()),
                        o.status.success()
                    ));
                }
            }
            let _ = fs::remove_dir_all(&sb);
            let _ = fs::remove_file(&arc);
            out.case(&Case {
                id: format!("c16b-{}-form{}-{}-{}", a.tag, form, OUT_STATES[st as usize], listed),
                model_fn: "c16b_run",
                args: vec![json!(form), json!(a.bytes), json!(wanted), json!(st)],
                imp: json!(snapshot_rows(o.status.success(), &after)),
                oracle_ok: msg.is_none(),
                oracle_msg: msg.unwrap_or_default(),
                class: format!("bytes archive={} form={} out={} status_ok={}", a.tag, form, OUT_STATES[st as usize], o.status.success()),
                nontrivial: true,
                meta: json!({"archive": a.tag, "form": form, "out_state": OUT_STATES[st as usize], "listed": if form == 2 { a.names[listed] } else { "" }}),
            });
        }
    }
}
