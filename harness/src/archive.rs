//! Whole archives through the public API: building from plans, reading histories
//! (C01, C10, C12), canonical rows shared with the Coq entry points hist_plain / hist_enc.
#![allow(dead_code)]
use crate::util::*;
use mla::config::{ArchiveReaderConfig, ArchiveWriterConfig};
use mla::helpers::linear_extract;
use mla::{ArchiveHeader, ArchiveReader, ArchiveWriter, Layers};
use serde_json::{json, Value};
use sha2::{Digest, Sha256};
use std::collections::HashMap;
use std::io::{Cursor, Read};
use x25519_dalek::{PublicKey, StaticSecret};

pub const L_ENC: u8 = 1;
pub const L_COMP: u8 = 2;

/// A writing plan: files and the interleaved order of their pieces.
#[derive(Clone)]
pub struct Plan {
    pub names: Vec<Vec<u8>>,
    /// (file index, piece) in writing order; files are started just before their first piece
    /// (or at `start_at`), ended after their last.
    pub pieces: Vec<(usize, Vec<u8>)>,
    pub layers: u8,
    pub level: u32,
    pub recipients: usize,
    pub reader_key: usize,
}

pub struct Built {
    pub bytes: Vec<u8>,
    pub header_len: usize,
    pub key: [u8; 32],
    pub nonce: [u8; 8],
    pub privs: Vec<StaticSecret>,
    pub contents: Vec<Vec<u8>>,
}

pub fn layers_of(bits: u8) -> Layers {
    let mut l = Layers::EMPTY;
    if bits & L_ENC != 0 {
        l |= Layers::ENCRYPT;
    }
    if bits & L_COMP != 0 {
        l |= Layers::COMPRESS;
    }
    l
}

pub fn build(rng: &mut Rng, plan: &Plan) -> Result<Built, String> {
    let mut cfg = ArchiveWriterConfig::new();
    cfg.set_layers(layers_of(plan.layers));
    cfg.with_compression_level(plan.level).map_err(|e| format!("{e:?}"))?;
    let mut privs = Vec::new();
    let mut pubs = Vec::new();
    for _ in 0..plan.recipients.max(1) {
        let mut b = [0u8; 32];
        b.copy_from_slice(&rng.bytes(32));
        let s = StaticSecret::from(b);
        pubs.push(PublicKey::from(&s));
        privs.push(s);
    }
    if plan.layers & L_ENC != 0 {
        // recipients may be handed over in several calls (one per key file): the list is extended each time
        if pubs.len() >= 2 && (pubs.len() + plan.pieces.len()) % 2 == 0 {
            cfg.add_public_keys(&pubs[..1]);
            cfg.add_public_keys(&pubs[1..]);
        } else {
            cfg.add_public_keys(&pubs);
        }
    }
    let key = *cfg.encryption_key();
    let nonce = *cfg.encryption_nonce();
    let mut w = ArchiveWriter::from_config(Vec::new(), cfg).map_err(|e| format!("writer: {e:?}"))?;
    let n = plan.names.len();
    let mut ids: Vec<Option<u64>> = vec![None; n];
    let mut contents: Vec<Vec<u8>> = vec![Vec::new(); n];
    let last_piece: Vec<Option<usize>> = (0..n).map(|f| plan.pieces.iter().rposition(|p| p.0 == f)).collect();
    for (k, (f, piece)) in plan.pieces.iter().enumerate() {
        if ids[*f].is_none() {
            let name = String::from_utf8(plan.names[*f].clone()).map_err(|_| "name not utf8")?;
            ids[*f] = Some(w.start_file(&name).map_err(|e| format!("start: {e:?}"))?);
        }
        if !piece.is_empty() && (k + piece.len()) % 5 == 0 {
            // the same append through helpers::StreamWriter (one write call = one append)
            use std::io::Write;
            mla::helpers::StreamWriter::new(&mut w, ids[*f].unwrap()).write_all(piece).map_err(|e| format!("stream writer: {e:?}"))?;
        } else if (k + piece.len()) % 5 == 1 {
            // a source holding MORE than the announced size (a prefix of a longer buffer): only `size` bytes belong to the file
            let mut longer = piece.clone();
            longer.extend(std::iter::repeat(0xEEu8).take(1 + (k * 37 + piece.len()) % 97));
            w.append_file_content(ids[*f].unwrap(), piece.len() as u64, longer.as_slice())
                .map_err(|e| format!("append from a longer source: {e:?}"))?;
        } else {
            w.append_file_content(ids[*f].unwrap(), piece.len() as u64, piece.as_slice())
                .map_err(|e| format!("append: {e:?}"))?;
        }
        contents[*f].extend_from_slice(piece);
        if last_piece[*f] == Some(k) {
            w.end_file(ids[*f].unwrap()).map_err(|e| format!("end: {e:?}"))?;
        }
    }
    for f in 0..n {
        if ids[f].is_none() {
            let name = String::from_utf8(plan.names[f].clone()).map_err(|_| "name not utf8")?;
            let id = w.start_file(&name).map_err(|e| format!("start: {e:?}"))?;
            w.end_file(id).map_err(|e| format!("end: {e:?}"))?;
        }
    }
    w.finalize().map_err(|e| format!("finalize: {e:?}"))?;
    let bytes = w.into_raw();
    let mut c = Cursor::new(bytes.as_slice());
    ArchiveHeader::from(&mut c).map_err(|e| format!("header: {e:?}"))?;
    let header_len = c.position() as usize;
    Ok(Built { bytes, header_len, key, nonce, privs, contents })
}

pub fn open_reader<'a>(bytes: &'a [u8], privs: &[StaticSecret]) -> Result<ArchiveReader<'a, Cursor<&'a [u8]>>, String> {
    let mut cfg = ArchiveReaderConfig::new();
    cfg.add_private_keys(privs);
    failsafe_flag_noise(&mut cfg, bytes.len());
    ArchiveReader::from_config(Cursor::new(bytes), cfg).map_err(|e| format!("{e:?}"))
}

/// The fail-safe decryption mode is documented as FailSafeReader-only: whatever it is set to,
/// the NORMAL reader must behave the same. Set it one way or the other (by the parity of a
/// number the caller has at hand), so that a dependence shows up as a property failure.
pub fn failsafe_flag_noise(cfg: &mut ArchiveReaderConfig, n: usize) {
    match n % 3 {
        0 => {
            cfg.failsafe_return_data_even_unauthenticated();
        }
        1 => {
            cfg.failsafe_return_only_authenticated_data();
        }
        _ => {}
    }
}

fn status_row<T, E>(r: &Result<Result<T, E>, String>) -> Vec<u64> {
    match r {
        Ok(Ok(_)) => vec![0],
        Ok(Err(_)) => vec![1],
        Err(_) => vec![2],
    }
}

/// Run a history on the real reader. `single` = compare single read calls (deterministic for
/// no layer / encryption only); otherwise each read is "read until n bytes or end".
pub fn run_history(bytes: &[u8], privs: &[StaticSecret], names: &[Vec<u8>], ops: &[Vec<u64>], single: bool) -> Vec<Vec<u64>> {
    run_history_src(Cursor::new(bytes), bytes.len(), privs, names, ops, single)
}

/// The same over any source (C13: sources that return fewer bytes than asked).
pub fn run_history_src<R: Read + std::io::Seek>(src: R, src_len: usize, privs: &[StaticSecret], names: &[Vec<u8>], ops: &[Vec<u64>], single: bool) -> Vec<Vec<u64>> {
    let mut rows: Vec<Vec<u64>> = Vec::new();
    let opened = catch(|| {
        let mut cfg = ArchiveReaderConfig::new();
        cfg.add_private_keys(privs);
        failsafe_flag_noise(&mut cfg, src_len);
        ArchiveReader::from_config(src, cfg).map_err(|e| format!("{e:?}"))
    });
    let mut rd = match opened {
        Ok(Ok(r)) => r,
        Ok(Err(_)) => return vec![vec![1]],
        Err(_) => return vec![vec![2]],
    };
    rows.push(vec![0]);
    let name_at = |i: u64| -> String { String::from_utf8_lossy(names.get(i as usize).map(|v| v.as_slice()).unwrap_or(b"")).into_owned() };
    for op in ops {
        match op[0] {
            0 => {
                let r = catch(|| rd.list_files().map(|it| it.cloned().collect::<Vec<String>>()));
                match r {
                    Ok(Ok(mut v)) => {
                        v.sort_by(|a, b| a.as_bytes().cmp(b.as_bytes()));
                        for n in v {
                            let mut row = vec![5u64];
                            row.extend(n.as_bytes().iter().map(|b| *b as u64));
                            rows.push(row);
                        }
                    }
                    other => rows.push(status_row(&other)),
                }
            }
            1 => {
                let r = catch(|| rd.get_hash(&name_at(op[1])));
                match r {
                    Ok(Ok(Some(h))) => {
                        let mut row = vec![0u64];
                        row.extend(h.iter().map(|b| *b as u64));
                        rows.push(row);
                    }
                    Ok(Ok(None)) => rows.push(vec![4]),
                    other => rows.push(status_row(&other)),
                }
            }
            2 | 3 => {
                let r = catch(|| {
                    let mut out: Vec<Vec<u64>> = Vec::new();
                    match rd.get_file(name_at(op[1])) {
                        Ok(Some(mut f)) => {
                            out.push(vec![7, f.size]);
                            let limit_extra = f.size.min(1 << 26) as usize; // compressed archives are shorter than their files
                            let sizes: Vec<u64> = if op[0] == 2 { op[2..].to_vec() } else { vec![op[2]] };
                            let mut k = 0usize;
                            loop {
                                if op[0] == 2 && k >= sizes.len() {
                                    break;
                                }
                                let n = sizes[k.min(sizes.len() - 1)] as usize;
                                let mut buf = vec![0u8; n];
                                let res = if single || n == 0 {
                                    // (a zero-length read is issued as such: it must return Ok(0) and change nothing)
                                    f.data.read(&mut buf)
                                } else {
                                    // read until n or end
                                    let mut got = 0usize;
                                    let mut e = None;
                                    while got < n {
                                        match f.data.read(&mut buf[got..]) {
                                            Ok(0) => break,
                                            Ok(m) => got += m,
                                            Err(x) => {
                                                e = Some(x);
                                                break;
                                            }
                                        }
                                    }
                                    match e {
                                        Some(x) => Err(x),
                                        None => Ok(got),
                                    }
                                };
                                match res {
                                    Ok(m) => {
                                        let mut row = vec![0u64];
                                        row.extend(buf[..m].iter().map(|b| *b as u64));
                                        out.push(row);
                                        if op[0] == 3 && m == 0 {
                                            break;
                                        }
                                    }
                                    Err(_) => {
                                        out.push(vec![1]);
                                        break;
                                    }
                                }
                                k += 1;
                                if k > src_len + 64 + limit_extra {
                                    out.push(vec![9]);
                                    break;
                                }
                            }
                        }
                        Ok(None) => out.push(vec![4]),
                        Err(_) => out.push(vec![1]),
                    }
                    out
                });
                match r {
                    Ok(v) => rows.extend(v),
                    Err(_) => rows.push(vec![2]),
                }
            }
            4 => {
                let chosen: Vec<String> = op[1..].iter().map(|i| name_at(*i)).collect();
                let r = catch(|| {
                    // sinks that accept only part of each write (a different amount per sink; the
                    // first one everything): what they collect must not depend on it
                    let mut export: HashMap<&String, ThrottledWriter> = HashMap::new();
                    for (j, n) in chosen.iter().enumerate() {
                        let sched = if j == 0 { vec![] } else { vec![(j * 37) % 97 + 1] };
                        export.insert(n, ThrottledWriter::new(sched, if j % 3 == 2 { 4 } else { 0 }));
                    }
                    match linear_extract(&mut rd, &mut export) {
                        Ok(()) => {
                            let mut out = vec![vec![0u64]];
                            for n in &chosen {
                                let mut row = vec![6u64];
                                row.extend(export.get(n).unwrap().data.iter().map(|b| *b as u64));
                                out.push(row);
                            }
                            out
                        }
                        Err(_) => vec![vec![1]],
                    }
                });
                match r {
                    Ok(v) => rows.extend(v),
                    Err(_) => rows.push(vec![2]),
                }
            }
            _ => rows.push(vec![9, 9]),
        }
        rows.push(vec![88]);
    }
    rows
}

/// split the rows of a history into per-op groups (after the leading open row)
pub fn per_op(rows: &[Vec<u64>]) -> Vec<Vec<Vec<u64>>> {
    let mut out = Vec::new();
    let mut cur = Vec::new();
    for r in rows.iter().skip(1) {
        if r == &vec![88] {
            out.push(std::mem::take(&mut cur));
        } else {
            cur.push(r.clone());
        }
    }
    out
}

pub fn sha256(b: &[u8]) -> Vec<u8> {
    Sha256::digest(b).to_vec()
}

// ---------------------------------------------------------------- generators

pub fn boundary_sizes(rng: &mut Rng) -> usize {
    // scaled: CHUNK 64, CIPHERBUF 24, BLOCK 256; prod: 128 KiB, 4 KiB, 4 MiB
    let (cb, ch, bl): (usize, usize, usize) = if cfg!(feature = "scaled") { (24, 64, 256) } else { (4096, 131072, 4 * 1024 * 1024) };
    let c: Vec<usize> = vec![
        0, 0, 1, 2, 3, cb - 1, cb, cb + 1, ch - 17, ch - 16, ch - 1, ch, ch + 1, ch + 16, ch + 17, 2 * ch - 1, 2 * ch, 2 * ch + 1,
        bl - 1, bl, bl + 1, 2 * bl + 1,
    ];
    let limit = if cfg!(feature = "scaled") { 600 } else { 300_000 };
    let v = if rng.below(4) == 0 { rng.below(limit as u64 / 4) as usize } else { *rng.pick(&c) };
    v.min(limit)
}

pub fn gen_names(rng: &mut Rng, n: usize) -> Vec<Vec<u8>> {
    let maxn = crate::writer::fnmax();
    let pool: Vec<Vec<u8>> = vec![
        b"a".to_vec(),
        b"dir/b.txt".to_vec(),
        Vec::new(),
        "h\u{e9}\u{4e16}/\u{1F600}".as_bytes().to_vec(),
        vec![b'x'; maxn],
        b"../up".to_vec(),
        b"c c".to_vec(),
        b"/abs".to_vec(),
    ];
    let mut out: Vec<Vec<u8>> = Vec::new();
    while out.len() < n {
        let c = rng.pick(&pool).clone();
        if !out.contains(&c) {
            out.push(c);
        }
    }
    out
}

pub fn gen_plan(rng: &mut Rng, layers: u8) -> Plan {
    let nfiles = rng.range(1, 4) as usize;
    let names = gen_names(rng, nfiles);
    let mut pieces = Vec::new();
    let npieces = rng.range(0, 7) as usize;
    let entropy = rng.below(3);
    for _ in 0..npieces {
        let f = rng.below(nfiles as u64) as usize;
        let n = boundary_sizes(rng);
        let data: Vec<u8> = match entropy {
            0 => vec![0u8; n],
            1 => (0..n).map(|i| b"the quick brown fox "[i % 20]).collect(),
            _ => rng.bytes(n),
        };
        pieces.push((f, data));
    }
    Plan { names, pieces, layers, level: *rng.pick(&[0u32, 1, 5, 9, 11]), recipients: rng.range(1, 3) as usize, reader_key: rng.below(3) as usize }
}

fn plan_class(plan: &Plan, total: usize) -> String {
    let (ch, bl) = if cfg!(feature = "scaled") { (64usize, 256usize) } else { (131072, 4194304) };
    format!("layers={} files={} chunks={} blocks={} interleaved={}", plan.layers, plan.names.len(), (total / ch).min(9), (total / bl).min(3),
            plan.pieces.windows(2).any(|w| w[0].0 != w[1].0))
}

/// C01: generated archives, read back completely (list, hash, full read with a random buffer size).
pub fn c01_cases(rng: &mut Rng, tier: &str, out: &mut Out) {
    let n = if tier == "thorough" { 1200 } else { 160 };
    for k in 0..n {
        let layers = (k % 4) as u8;
        let plan = gen_plan(rng, layers);
        emit_read_case(rng, out, &format!("c01-{k}"), &plan, "c01");
    }
    // EVERY interleaving of up to 5 (quick) / 6 (thorough) pieces of two files with piece sizes
    // {0, 3}: empty pieces given to the file that is / is not the one being written, runs
    // interrupted and resumed (layer-less: the model evaluates all of them)
    let maxlen = if tier == "thorough" { 6 } else { 5 };
    let names = vec![b"a".to_vec(), b"b".to_vec()];
    let mut count = 0usize;
    for len in 1..=maxlen {
        for code in 0..(4usize.pow(len as u32)) {
            let mut c = code;
            let mut pieces = Vec::new();
            for j in 0..len {
                let f = c & 1;
                let sz = if c & 2 != 0 { 3 } else { 0 };
                c >>= 2;
                pieces.push((f, (0..sz).map(|i| (16 * j + i + 1) as u8).collect::<Vec<u8>>()));
            }
            if len < maxlen {
                // files started lazily, just before their first piece
                let plan = Plan { names: names.clone(), pieces: pieces.clone(), layers: 0, level: 5, recipients: 1, reader_key: 0 };
                emit_read_case(rng, out, &format!("c01-x{len}-{code}"), &plan, "c01");
            }
            // both files started up front (an empty piece starts a file and emits no content block)
            let mut started = vec![(0usize, Vec::new()), (1usize, Vec::new())];
            started.extend(pieces);
            let plan = Plan { names: names.clone(), pieces: started, layers: 0, level: 5, recipients: 1, reader_key: 0 };
            emit_read_case(rng, out, &format!("c01-s{len}-{code}"), &plan, "c01");
            count += 1;
        }
    }
    let _ = count;
    // compressed archives whose inner stream puts a foreign block's header / a run's end at
    // every offset around a compression-block boundary: two files started up front, a first run
    // of `a` swept over a window around (compression block - framing), then a short run of `b`,
    // then `a` again inside the next compression block (scaled constants: the whole window;
    // production: a few sizes around the 4 MiB boundary)
    let bl: usize = if cfg!(feature = "scaled") { 256 } else { 4 * 1024 * 1024 };
    let framing = 2 * 18 + 2 * 17;
    let sweep: Vec<usize> = if cfg!(feature = "scaled") {
        let w = if tier == "thorough" { 40 } else { 20 };
        (bl - framing - w..=bl - framing + w).collect()
    } else if tier == "thorough" {
        (bl - framing - 2..=bl - framing + 2).collect()
    } else {
        vec![bl - framing]
    };
    for (k, n1) in sweep.iter().enumerate() {
        for layers in [L_COMP, L_COMP | L_ENC] {
            if !cfg!(feature = "scaled") && layers != L_COMP && tier != "thorough" {
                continue;
            }
            let a1 = rng.bytes(*n1);
            let nb = 1 + rng.below(40) as usize;
            let b1 = rng.bytes(nb);
            let na = 20 + rng.below(200) as usize;
            let a2 = rng.bytes(na);
            let pieces = vec![(0usize, Vec::new()), (1usize, Vec::new()), (0, a1), (1, b1), (0, a2)];
            let plan = Plan { names: names.clone(), pieces, layers, level: *rng.pick(&[0u32, 1, 5]), recipients: 1, reader_key: 0 };
            emit_read_case(rng, out, &format!("c01-edge{k}-{layers}"), &plan, "c01");
        }
    }
}

pub fn full_read_ops(rng: &mut Rng, nfiles: usize) -> Vec<Vec<u64>> {
    let mut ops = vec![vec![0u64]];
    for i in 0..nfiles {
        ops.push(vec![1, i as u64]);
        let n = *rng.pick(&[1u64, 7, 13, 64, 100, 4099, 100_000]);
        ops.push(vec![3, i as u64, n]);
    }
    ops
}

pub fn emit_read_case(rng: &mut Rng, out: &mut Out, id: &str, plan: &Plan, kind: &str) {
    let built = match build(rng, plan) {
        Ok(b) => b,
        Err(e) => {
            out.case(&Case { id: id.into(), model_fn: "", args: vec![], imp: json!([]), oracle_ok: false, oracle_msg: format!("valid writer calls failed: {e}"),
                             class: "build-failed".into(), nontrivial: true, meta: json!({"layers": plan.layers}) });
            return;
        }
    };
    let nfiles = plan.names.len();
    let mut ops = full_read_ops(rng, nfiles);
    if kind == "c12" {
        // linear extraction into subsets: empty, each singleton, all, one random
        ops.push(vec![4]);
        for i in 0..nfiles {
            ops.push(vec![4, i as u64]);
        }
        let mut all = vec![4u64];
        all.extend((0..nfiles as u64).rev());
        ops.push(all);
        let mut some = vec![4u64];
        for i in 0..nfiles as u64 {
            if rng.below(2) == 0 {
                some.push(i);
            }
        }
        ops.push(some);
    }
    let single = plan.layers & L_COMP == 0;
    let privs = vec![built.privs[plan.reader_key.min(built.privs.len() - 1)].clone()];
    let rows = run_history(&built.bytes, &privs, &plan.names, &ops, single);
    // oracle
    let oracle = oracle_read(plan, &built, &ops, &rows);
    let total: usize = built.contents.iter().map(|c| c.len()).sum();
    let body = &built.bytes[built.header_len..];
    let small = built.bytes.len() < 6000;
    let (model_fn, args): (&'static str, Vec<Value>) = if !small {
        ("", vec![])
    } else if plan.layers == 0 {
        ("hist_plain", vec![jbytes(body), json!(plan.names), json!(ops)])
    } else if plan.layers == L_ENC && cfg!(feature = "scaled") {
        ("hist_enc", vec![jbytes(&built.key), jbytes(&built.nonce), jbytes(body), json!(plan.names), json!(ops)])
    } else {
        crate::histstack::model_call(plan, &built, &privs[0], &ops, 6000)
    };
    out.case(&Case {
        id: id.into(),
        model_fn,
        args,
        imp: json!(rows),
        oracle_ok: oracle.is_ok(),
        oracle_msg: oracle.err().unwrap_or_default(),
        class: plan_class(plan, total),
        nontrivial: total > 0,
        meta: json!({"layers": plan.layers, "level": plan.level, "files": nfiles, "total": total, "archive_len": built.bytes.len(),
                     "pieces": plan.pieces.iter().map(|p| (p.0, p.1.len())).collect::<Vec<_>>()}),
    });
}

/// bytes read = bytes written; names; size; hash; linear extraction = content for chosen names
pub fn oracle_read(plan: &Plan, built: &Built, ops: &[Vec<u64>], rows: &[Vec<u64>]) -> Result<(), String> {
    if rows.first() != Some(&vec![0]) {
        return Err(format!("a valid archive does not open: {:?}", rows.first()));
    }
    let groups = per_op(rows);
    if groups.len() != ops.len() {
        return Err("history stopped early".into());
    }
    for (op, g) in ops.iter().zip(&groups) {
        match op[0] {
            0 => {
                let mut exp: Vec<Vec<u8>> = plan.names.clone();
                exp.sort();
                let got: Vec<Vec<u8>> = g.iter().map(|r| r[1..].iter().map(|x| *x as u8).collect()).collect();
                if g.iter().any(|r| r[0] != 5) || got != exp {
                    return Err(format!("list_files returned {} names, expected {}", got.len(), exp.len()));
                }
            }
            1 => {
                let exp = sha256(&built.contents[op[1] as usize]);
                let got: Vec<u8> = g.first().map(|r| r[1..].iter().map(|x| *x as u8).collect()).unwrap_or_default();
                if g.len() != 1 || g[0][0] != 0 || got != exp {
                    return Err(format!("get_hash of file {} differs from the SHA-256 of its bytes", op[1]));
                }
            }
            2 | 3 => {
                let exp = &built.contents[op[1] as usize];
                if g.is_empty() || g[0][0] != 7 {
                    return Err(format!("get_file {} failed: {:?}", op[1], g.first()));
                }
                if g[0][1] != exp.len() as u64 {
                    return Err(format!("size of file {} is {} expected {}", op[1], g[0][1], exp.len()));
                }
                let mut got = Vec::new();
                for r in &g[1..] {
                    if r[0] != 0 {
                        return Err(format!("read of file {} failed with status {}", op[1], r[0]));
                    }
                    got.extend(r[1..].iter().map(|x| *x as u8));
                }
                if op[0] == 3 && &got != exp {
                    return Err(format!("file {}: {} bytes read, {} written, or bytes differ", op[1], got.len(), exp.len()));
                }
                if op[0] == 2 && !exp.starts_with(&got) {
                    return Err(format!("file {}: partial read is not a prefix of what was written", op[1]));
                }
            }
            4 => {
                if g.first() != Some(&vec![0]) {
                    return Err(format!("linear_extract failed on a valid archive: {:?}", g.first()));
                }
                for (i, r) in op[1..].iter().zip(&g[1..]) {
                    let got: Vec<u8> = r[1..].iter().map(|x| *x as u8).collect();
                    if got != built.contents[*i as usize] {
                        return Err(format!("linear extraction of file {i} differs from its content"));
                    }
                }
            }
            _ => {}
        }
    }
    Ok(())
}
