//! C03 / C04: integrity of encrypted archives under alteration.
//!   c03: every kind of alteration of an encrypted archive, opened with the NORMAL reader:
//!        no foreign name is listed, no byte differing from the original is returned.
//!   c04: corruption / truncation of every chunk of multi-chunk encrypted archives, repaired in
//!        both modes: authenticated repair only uses the chunks before the first failing one,
//!        every recovered file is a prefix of the original, authenticated ⊑ unauthenticated.
//! The oracles use only the plan (what was written) — never `mla` itself.
#![allow(dead_code)]
use crate::archive::*;
use crate::repair::{expected_recovery, repair_bytes, Repaired};
use crate::util::*;
use serde_json::{json, Value};
use std::io::Read;
use x25519_dalek::StaticSecret;

const CH: usize = if cfg!(feature = "scaled") { 64 } else { 131072 };
const TAG: usize = 16;
const CTS: usize = CH + TAG;

// ------------------------------------------------------------------ reading an altered archive

#[derive(Default)]
struct Obs {
    opened: bool,
    list_err: bool,
    names: Vec<Vec<u8>>,
    /// (order, name, bytes returned before the end or the first error, ended with an error)
    reads: Vec<(u8, Vec<u8>, Vec<u8>, bool)>,
}

/// Open with the normal reader, list, read every listed file completely in three orders
/// (sorted / reverse / rotated, buffer sizes 7 / 100000 / CHUNK+1) on the same reader.
fn observe(bytes: &[u8], privs: &[StaticSecret]) -> Result<Obs, String> {
    catch(|| {
        let mut o = Obs::default();
        let mut rd = match open_reader(bytes, privs) {
            Ok(r) => r,
            Err(_) => return o,
        };
        o.opened = true;
        let mut names: Vec<String> = match rd.list_files() {
            Ok(it) => it.cloned().collect(),
            Err(_) => {
                o.list_err = true;
                Vec::new()
            }
        };
        names.sort_by(|a, b| a.as_bytes().cmp(b.as_bytes()));
        o.names = names.iter().map(|s| s.as_bytes().to_vec()).collect();
        for order in 0..3u8 {
            let mut seq: Vec<String> = names.clone();
            match order {
                1 => seq.reverse(),
                2 => {
                    if !seq.is_empty() {
                        seq.rotate_left(1);
                    }
                }
                _ => {}
            }
            let bufsize = [7usize, 100_000, CH + 1][order as usize];
            for n in seq {
                let mut data = Vec::new();
                let mut errored = false;
                match rd.get_file(n.clone()) {
                    Ok(Some(mut f)) => {
                        let mut buf = vec![0u8; bufsize];
                        let mut guard = 0usize;
                        // a consumer that ignores an error and reads on must not get wrong bytes
                        // either: up to 3 more reads after the first error, their data counts
                        let mut after_err = 0;
                        loop {
                            match f.data.read(&mut buf) {
                                Ok(0) => break,
                                Ok(m) => data.extend_from_slice(&buf[..m]),
                                Err(_) => {
                                    errored = true;
                                    after_err += 1;
                                    if after_err > 3 {
                                        break;
                                    }
                                }
                            }
                            guard += 1;
                            if guard > bytes.len() + 1000 {
                                errored = true;
                                break;
                            }
                        }
                    }
                    Ok(None) => errored = true,
                    Err(_) => errored = true,
                }
                o.reads.push((order, n.as_bytes().to_vec(), data, errored));
            }
        }
        o
    })
}

/// The property, exactly: names ⊆ original names; every returned byte equals the original
/// byte at that position (returned data is a prefix of the original content); no panic.
fn oracle_c03(plan: &Plan, built: &Built, obs: &Result<Obs, String>) -> (Result<(), String>, String) {
    let o = match obs {
        Err(p) => return (Err(format!("the reader panicked: {p}")), "panic".into()),
        Ok(o) => o,
    };
    if !o.opened {
        return (Ok(()), "open-error".into());
    }
    for n in &o.names {
        if !plan.names.contains(n) {
            return (Err(format!("list_files returns {:?}, which was never added", String::from_utf8_lossy(n))), "forged-name".into());
        }
    }
    let mut all_complete = o.names.len() == plan.names.len() && !o.list_err;
    let mut any_err = o.list_err;
    for (order, n, data, errored) in &o.reads {
        let idx = plan.names.iter().position(|x| x == n).unwrap();
        let orig = &built.contents[idx];
        if !orig.starts_with(data) {
            let at = data.iter().zip(orig.iter()).position(|(a, b)| a != b).unwrap_or(orig.len());
            return (Err(format!("file {idx} (read order {order}): byte {at} returned differs from the original (or data beyond its end)")), "wrong-byte".into());
        }
        if data.len() != orig.len() {
            all_complete = false;
        }
        any_err |= *errored;
    }
    let outcome = if all_complete && !any_err { "original-data" } else if any_err { "read-error" } else { "short-without-error" };
    (Ok(()), outcome.into())
}

// ------------------------------------------------------------------ alterations

struct Alt {
    kind: String,
    bytes: Vec<u8>,
}

fn flip_bit(b: &[u8], i: usize, bit: u8) -> Vec<u8> {
    let mut v = b.to_vec();
    v[i] ^= 1 << bit;
    v
}

fn body_chunks(body: &[u8]) -> Vec<&[u8]> {
    body.chunks(CTS).collect()
}

fn join(header: &[u8], chunks: &[&[u8]]) -> Vec<u8> {
    let mut v = header.to_vec();
    for c in chunks {
        v.extend_from_slice(c);
    }
    v
}

/// chunk-level edits of the body (chunks taken with their tags)
fn chunk_edits(built: &Built, other: Option<&Built>) -> Vec<Alt> {
    let (h, body) = built.bytes.split_at(built.header_len);
    let cs = body_chunks(body);
    let n = cs.len();
    let mut out = Vec::new();
    for i in 0..n {
        for j in i + 1..n {
            let mut v = cs.clone();
            v.swap(i, j);
            out.push(Alt { kind: format!("swap{}", if cs[i].len() == cs[j].len() { "" } else { "-with-last" }), bytes: join(h, &v) });
        }
        let mut v = cs.clone();
        v.insert(i, cs[i]);
        out.push(Alt { kind: "duplicate".into(), bytes: join(h, &v) });
        let mut v = cs.clone();
        v.remove(i);
        out.push(Alt { kind: if i + 1 == n { "drop-tail".into() } else { "delete".into() }, bytes: join(h, &v) });
        if let Some(o) = other {
            let ob = &o.bytes[o.header_len..];
            let ocs = body_chunks(ob);
            if i < ocs.len() {
                let mut v = cs.clone();
                v[i] = ocs[i];
                out.push(Alt { kind: "splice-other-key".into(), bytes: join(h, &v) });
            }
        }
    }
    // several trailing chunks dropped
    for keep in 1..n.saturating_sub(1) {
        out.push(Alt { kind: "drop-tail".into(), bytes: join(h, &cs[..keep]) });
    }
    // chunk i moved to the end / rotation
    if n >= 2 {
        let mut v = cs.clone();
        v.rotate_left(1);
        out.push(Alt { kind: "rotate".into(), bytes: join(h, &v) });
    }
    out
}

/// header regions (one recipient): ... ephemeral public key (32) | u64 count | wrapped key (32) tag (16) | nonce (8)
fn header_regions(hl: usize) -> Vec<(&'static str, usize, usize)> {
    let mut v = Vec::new();
    if hl >= 8 + 48 + 8 + 32 {
        v.push(("nonce", hl - 8, hl));
        v.push(("wrapped-key", hl - 8 - 48, hl - 8 - 16));
        v.push(("wrapped-key-tag", hl - 8 - 16, hl - 8));
        v.push(("ephemeral-key", hl - 8 - 48 - 8 - 32, hl - 8 - 48 - 8));
    }
    v
}

fn alterations(rng: &mut Rng, tier: &str, built: &Built, other: Option<&Built>) -> Vec<Alt> {
    let b = &built.bytes;
    let hl = built.header_len;
    let mut out = Vec::new();
    // every byte: one random bit (quick) / all 8 bits (thorough)
    for i in 0..b.len() {
        let region = if i < hl { "header" } else { "body" };
        if tier == "thorough" {
            for bit in 0..8 {
                out.push(Alt { kind: format!("flip-{region}"), bytes: flip_bit(b, i, bit) });
            }
        } else {
            out.push(Alt { kind: format!("flip-{region}"), bytes: flip_bit(b, i, rng.below(8) as u8) });
        }
    }
    // byte replaced
    for _ in 0..(if tier == "thorough" { 200 } else { 40 }) {
        let i = rng.range(hl as u64, b.len() as u64 - 1) as usize;
        let mut v = b.clone();
        v[i] = v[i].wrapping_add(rng.range(1, 255) as u8);
        out.push(Alt { kind: "byte-replaced".into(), bytes: v });
    }
    out.extend(chunk_edits(built, other));
    // truncation at every length (a cut at a chunk edge past the first chunk = whole trailing chunks dropped)
    for cut in 0..b.len() {
        let kind = if cut < hl {
            "truncate-header"
        } else if cut > hl && (cut - hl) % CTS == 0 {
            "drop-tail"
        } else {
            "truncate-body"
        };
        out.push(Alt { kind: kind.into(), bytes: b[..cut].to_vec() });
    }
    // header fields overwritten with random bytes
    for (name, lo, hi) in header_regions(hl) {
        let mut v = b.clone();
        let r = rng.bytes(hi - lo);
        v[lo..hi].copy_from_slice(&r);
        out.push(Alt { kind: format!("header-{name}"), bytes: v });
    }
    // bytes appended
    let mut v = b.clone();
    let extra = 1 + rng.below(100) as usize;
    v.extend(rng.bytes(extra));
    out.push(Alt { kind: "append".into(), bytes: v });
    out
}

/// D17 adversarial archive: one file whose content holds, ending exactly at the end of
/// plaintext chunk 1, the serialization of a footer naming "evil".
fn d17_plan() -> Plan {
    let mut fake: Vec<u8> = Vec::new();
    fake.extend(1u64.to_le_bytes()); // one entry
    fake.extend(4u64.to_le_bytes());
    fake.extend(b"evil");
    fake.extend(0u64.to_le_bytes()); // offsets: empty
    fake.extend(0u64.to_le_bytes()); // size
    fake.extend(0u64.to_le_bytes()); // eof_offset
    let l = fake.len() as u32;
    fake.extend(l.to_le_bytes());
    // block stream: FileStart (17 + 1) + FileContent header (17) = 35 bytes before the content
    let start = 35usize;
    let end_target = 2 * CH; // end of plaintext chunk 1
    let mut content = vec![0x41u8; end_target - start - fake.len()];
    content.extend(&fake);
    content.extend(vec![0x42u8; 40]);
    Plan { names: vec![b"a".to_vec()], pieces: vec![(0, content)], layers: L_ENC, level: 5, recipients: 1, reader_key: 0 }
}

fn c03_archives(rng: &mut Rng, tier: &str) -> Vec<(Plan, Built, &'static str)> {
    let n = if tier == "thorough" { 20 } else { 6 };
    let maxlen = if tier == "thorough" { 900 } else { 560 };
    let mut v = Vec::new();
    let mut k = 0usize;
    let mut guard = 0;
    while v.len() < n && guard < 10_000 {
        guard += 1;
        let layers = if k % 2 == 0 { L_ENC } else { L_ENC | L_COMP };
        let mut plan = gen_plan(rng, layers);
        plan.recipients = 1;
        plan.reader_key = 0;
        let total: usize = plan.pieces.iter().map(|p| p.1.len()).sum();
        if total == 0 {
            continue;
        }
        let Ok(b) = build(rng, &plan) else { continue };
        let body = b.bytes.len() - b.header_len;
        // multi-chunk bodies, small enough to sweep every byte
        if b.bytes.len() > maxlen || (k % 4 < 3 && body < 2 * CTS + 20) {
            continue;
        }
        k += 1;
        v.push((plan, b, "generated"));
    }
    let plan = d17_plan();
    if let Ok(b) = build(rng, &plan) {
        v.push((plan, b, "d17-adversarial"));
    }
    v
}

/// "Unaltered archives always open", for EVERY length of the encryption layer's plaintext around
/// the chunk boundaries. Scaled (CHUNK = 64): one file whose size is swept byte by byte from 0 to
/// beyond three chunks, layers ENCRYPT and ENCRYPT|COMPRESS (incompressible content). Production
/// (job c03-lengths): the plaintext of the layer takes every length in [k*CHUNK-8, k*CHUNK+24],
/// k = 1, 2 - an archive of one chunk plus a few bytes exists only at production constants (the
/// smallest non-empty scaled archive is already larger than a chunk).
pub fn c03_unaltered_sweep(rng: &mut Rng, tier: &str, out: &mut Out) {
    let mut sizes: Vec<(u8, usize)> = Vec::new();
    if cfg!(feature = "scaled") {
        let span = if tier == "thorough" { 4 * CH + 20 } else { 3 * CH + 8 };
        for layers in [L_ENC, L_ENC | L_COMP] {
            sizes.extend((0..span).map(|s| (layers, s)));
        }
    } else {
        // overhead of the block stream and footer around one file named "f"
        let probe = Plan { names: vec![b"f".to_vec()], pieces: vec![(0, vec![7u8; 100])], layers: L_ENC, level: 1, recipients: 1, reader_key: 0 };
        let Ok(b) = build(rng, &probe) else { return };
        let body = b.bytes.len() - b.header_len;
        let overhead = body - TAG * ((body + CTS - 1) / CTS) - 100;
        for k in if tier == "thorough" { vec![1usize, 2, 3] } else { vec![1usize, 2] } {
            for d in 0..33usize {
                sizes.push((L_ENC, k * CH - 8 + d - overhead));
            }
        }
    }
    for (layers, size) in sizes {
        let plan = Plan { names: vec![b"f".to_vec()], pieces: vec![(0, rng.bytes(size))], layers, level: 1, recipients: 1, reader_key: 0 };
        let Ok(built) = build(rng, &plan) else { continue };
        let obs = observe(&built.bytes, &built.privs);
        let (r, outcome) = oracle_c03(&plan, &built, &obs);
        let ok = r.is_ok() && outcome == "original-data";
        let body = built.bytes.len() - built.header_len;
        out.case(&Case {
            id: format!("c03-unaltered-l{layers}-s{size}"),
            model_fn: "",
            args: vec![],
            imp: json!([]),
            oracle_ok: ok,
            oracle_msg: if ok { String::new() } else { format!("unaltered archive (one file of {size} bytes, layers {layers}, encrypted stream of {body} bytes): {} {}", outcome, r.err().unwrap_or_default()) },
            class: format!("layers={layers} unaltered-length-sweep {outcome}"),
            nontrivial: true,
            meta: json!({"size": size, "len": built.bytes.len(), "layers": layers, "body_mod_cts": body % CTS}),
        });
    }
}

/// A source whose bytes can be altered while a reader holds it (a file on a shared medium).
struct SharedSrc {
    data: std::sync::Arc<std::sync::Mutex<Vec<u8>>>,
    pos: u64,
}
impl Read for SharedSrc {
    fn read(&mut self, buf: &mut [u8]) -> std::io::Result<usize> {
        let d = self.data.lock().unwrap();
        let p = (self.pos as usize).min(d.len());
        let n = buf.len().min(d.len() - p);
        buf[..n].copy_from_slice(&d[p..p + n]);
        self.pos += n as u64;
        Ok(n)
    }
}
impl std::io::Seek for SharedSrc {
    fn seek(&mut self, s: std::io::SeekFrom) -> std::io::Result<u64> {
        let len = self.data.lock().unwrap().len() as i128;
        let t = match s {
            std::io::SeekFrom::Start(n) => n as i128,
            std::io::SeekFrom::Current(d) => self.pos as i128 + d as i128,
            std::io::SeekFrom::End(d) => len + d as i128,
        };
        if t < 0 {
            return Err(std::io::Error::new(std::io::ErrorKind::InvalidInput, "negative position"));
        }
        self.pos = t as u64;
        Ok(self.pos)
    }
}

/// Alteration WHILE a reader is open: every file is read once intact, then one bit of the stored archive is
/// flipped (each chunk in turn) and the same reader reads every file again: every byte it returns must be
/// the original byte (or the read must fail) - a chunk that verified once is not trusted the second time.
fn c03_alter_while_open(rng: &mut Rng, tier: &str, out: &mut Out) {
    let n = if tier == "thorough" { 12 } else { 4 };
    for (ai, (plan, built, _)) in c03_archives(rng, tier).iter().take(n).enumerate() {
        let hl = built.header_len;
        let body = built.bytes.len() - hl;
        let nch = (body + CTS - 1) / CTS;
        let mut msg: Option<String> = None;
        for j in 0..nch {
            let shared = std::sync::Arc::new(std::sync::Mutex::new(built.bytes.clone()));
            let r = catch(|| -> Result<(), String> {
                let mut cfg = mla::config::ArchiveReaderConfig::new();
                cfg.add_private_keys(&built.privs);
                let mut rd = mla::ArchiveReader::from_config(SharedSrc { data: shared.clone(), pos: 0 }, cfg).map_err(|e| format!("open: {e:?}"))?;
                let read_all = |rd: &mut mla::ArchiveReader<SharedSrc>, pass: u8| -> Result<(), String> {
                    for (i, name) in plan.names.iter().enumerate() {
                        let nm = String::from_utf8_lossy(name).into_owned();
                        let Ok(Some(mut f)) = rd.get_file(nm) else {
                            if pass == 0 { return Err(format!("file {i} cannot be opened on the unaltered archive")); }
                            continue;
                        };
                        let mut got = Vec::new();
                        let mut buf = [0u8; 37];
                        loop {
                            match f.data.read(&mut buf) {
                                Ok(0) => break,
                                Ok(k) => got.extend_from_slice(&buf[..k]),
                                Err(_) => {
                                    if pass == 0 { return Err(format!("file {i}: read error on the unaltered archive")); }
                                    break;
                                }
                            }
                        }
                        if !built.contents[i].starts_with(&got) || (pass == 0 && got != built.contents[i]) {
                            return Err(format!("file {i}: a byte returned on pass {pass} differs from the original"));
                        }
                    }
                    Ok(())
                };
                read_all(&mut rd, 0)?;
                {
                    let mut d = shared.lock().unwrap();
                    let at = hl + j * CTS + (j * 7) % (CTS.min(body - j * CTS).saturating_sub(TAG).max(1));
                    d[at] ^= 0x10;
                }
                read_all(&mut rd, 1)
            });
            match r {
                Ok(Ok(())) => {}
                Ok(Err(e)) => { msg = Some(format!("one bit of chunk {j} altered after the reader had read the archive once: {e}")); break; }
                Err(p) => { msg = Some(format!("panic: {p}")); break; }
            }
        }
        out.case(&Case {
            id: format!("c03-alter-while-open-{ai}"),
            model_fn: "",
            args: vec![],
            imp: json!([]),
            oracle_ok: msg.is_none(),
            oracle_msg: msg.unwrap_or_default(),
            class: format!("layers={} altered-while-open", plan.layers),
            nontrivial: true,
            meta: json!({"archive": ai, "chunks": nch, "layers": plan.layers}),
        });
    }
}

pub fn c03_cases(rng: &mut Rng, tier: &str, out: &mut Out) {
    let model_stride = if tier == "thorough" { 61 } else { 19 };
    let mut counter = 0usize;
    if cfg!(feature = "scaled") {
        c03_unaltered_sweep(rng, tier, out);
        c03_alter_while_open(rng, tier, out);
    }
    for (ai, (plan, built, akind)) in c03_archives(rng, tier).iter().enumerate() {
        // the unaltered archive must open and give everything back
        let obs0 = observe(&built.bytes, &built.privs);
        let (r0, outcome0) = oracle_c03(plan, built, &obs0);
        let ok0 = r0.is_ok() && outcome0 == "original-data";
        out.case(&Case {
            id: format!("c03-a{ai}-unaltered"),
            model_fn: "",
            args: vec![],
            imp: json!([]),
            oracle_ok: ok0,
            oracle_msg: if ok0 { String::new() } else { format!("unaltered archive: {} {}", outcome0, r0.err().unwrap_or_default()) },
            class: format!("layers={} unaltered {}", plan.layers, outcome0),
            nontrivial: true,
            meta: json!({"archive": ai, "len": built.bytes.len(), "layers": plan.layers, "kind": akind}),
        });
        // the same plan written again: other key, other nonce
        let other = build(rng, plan).ok();
        let names_ops = {
            let mut ops = vec![vec![0u64]];
            for i in 0..plan.names.len() as u64 {
                ops.push(vec![1, i]);
                ops.push(vec![3, i, 100_000]);
            }
            ops
        };
        for (k, alt) in alterations(rng, tier, built, other.as_ref()).iter().enumerate() {
            if alt.bytes == built.bytes {
                continue;
            }
            counter += 1;
            let obs = observe(&alt.bytes, &built.privs);
            let (res, outcome) = oracle_c03(plan, built, &obs);
            let hl = built.header_len;
            let header_intact = alt.bytes.len() >= hl && alt.bytes[..hl] == built.bytes[..hl];
            // whole trailing chunks dropped (known class D17 when a forged name comes out)
            // (optionally followed by exactly TAG more bytes, which the reader takes for the tag of an empty last chunk)
            let tail_dropped = header_intact && alt.bytes.len() < built.bytes.len() && alt.bytes.len() > hl + TAG && {
                let rest = (alt.bytes.len() - hl) % CTS;
                let whole = alt.bytes.len() - rest;
                (rest == 0 || rest == TAG) && built.bytes[..whole] == alt.bytes[..whole]
            };
            let send_model = cfg!(feature = "scaled") && plan.layers == L_ENC && header_intact
                && (counter % model_stride == 0 || res.is_err() || (tail_dropped && *akind == "d17-adversarial"));
            let (model_fn, args, imp): (&'static str, Vec<Value>, Value) = if send_model {
                let rows = run_history(&alt.bytes, &built.privs, &plan.names, &names_ops, true);
                ("c03_enc", vec![jbytes(&built.key), jbytes(&built.nonce), jbytes(&alt.bytes[hl..]), json!(plan.names), json!(names_ops)], json!(rows))
            } else {
                ("", vec![], json!([]))
            };
            let mut case = Case {
                id: format!("c03-a{ai}-{k}-{}", alt.kind),
                model_fn,
                args,
                imp,
                oracle_ok: res.is_ok(),
                oracle_msg: res.clone().err().unwrap_or_default(),
                class: format!("layers={} {} -> {}", plan.layers, alt.kind, outcome),
                nontrivial: true,
                meta: json!({"archive": ai, "kind": alt.kind, "len": alt.bytes.len(), "orig_len": built.bytes.len(), "layers": plan.layers,
                             "archive_kind": akind, "header_len": hl}),
            }
            .to_json();
            if res.is_err() && tail_dropped && outcome == "forged-name" {
                case["known"] = json!("D17");
            }
            out.raw(&case);
        }
    }
}

// ------------------------------------------------------------------ C04

/// 3-6 chunk encrypt-only archives with interleaved files; the last one is adversarial: every
/// chunk edge is a block edge and the blocks after it belong to files already started, so
/// that a reader stepping over a failed chunk would parse valid FileContent blocks.
fn c04_archives(rng: &mut Rng, tier: &str) -> Vec<(Plan, Built, &'static str)> {
    let mut v = Vec::new();
    let n = if tier == "thorough" { 6 } else { 2 };
    let mut guard = 0;
    while v.len() < n && guard < 10_000 {
        guard += 1;
        let nfiles = rng.range(2, 3) as usize;
        let names: Vec<Vec<u8>> = (0..nfiles).map(|i| format!("f{i}").into_bytes()).collect();
        let mut pieces = Vec::new();
        for _ in 0..rng.range(4, 8) {
            let f = rng.below(nfiles as u64) as usize;
            let len = *rng.pick(&[0usize, 1, 13, 29, 47, 48, 63, 64, 65, 90]);
            pieces.push((f, rng.bytes(len)));
        }
        let plan = Plan { names, pieces, layers: L_ENC, level: 5, recipients: 1, reader_key: 0 };
        let Ok(b) = build(rng, &plan) else { continue };
        let body = b.bytes.len() - b.header_len;
        let nch = (body + CTS - 1) / CTS;
        if !(3..=6).contains(&nch) {
            continue;
        }
        v.push((plan, b, "generated"));
    }
    // adversarial tail: FileStart a (18) + content 29 -> 64 | content a 47 -> 128 | content a 47 -> 192 |
    // FileStart b (18) + content b 29 -> 256 | content a 47 -> 320 | ...
    let sizes: [(usize, usize); 6] = [(0, CH - 35), (0, CH - 17), (0, CH - 17), (1, CH - 35), (0, CH - 17), (1, CH - 17)];
    let plan = Plan {
        names: vec![b"a".to_vec(), b"b".to_vec()],
        pieces: sizes.iter().map(|(f, n)| (*f, rng.bytes(*n))).collect(),
        layers: L_ENC,
        level: 5,
        recipients: 1,
        reader_key: 0,
    };
    if let Ok(b) = build(rng, &plan) {
        v.push((plan, b, "adversarial-tail"));
    }
    // adversarial content: ONE content block spanning several chunks whose bytes, at every later chunk
    // boundary of the plaintext stream, look like the header of a FileContent block of the same file
    // (type 1, id 0, length 10): a reader that steps over a failed chunk resumes on something that parses.
    // FileStart a = 18 bytes, FileContent header = 17 bytes: the content starts at plaintext offset 35.
    let mut content = rng.bytes(4 * CH + 20);
    for m in 2..=4usize {
        let at = m * CH - 35;
        let mut fake = vec![1u8];
        fake.extend_from_slice(&0u64.to_le_bytes());
        fake.extend_from_slice(&10u64.to_le_bytes());
        content[at..at + 17].copy_from_slice(&fake);
    }
    let plan = Plan { names: vec![b"a".to_vec()], pieces: vec![(0, content)], layers: L_ENC, level: 5, recipients: 1, reader_key: 0 };
    if let Ok(b) = build(rng, &plan) {
        v.push((plan, b, "adversarial-content"));
    }
    v
}

fn file_of<'a>(r: &'a Repaired, name: &[u8]) -> Option<&'a Vec<u8>> {
    r.files.iter().find(|f| f.0 == name).map(|f| &f.1)
}

/// C04 on one damaged archive. `fail_chunk` = index of the first chunk that cannot verify,
/// `usable` = number of plaintext bytes lying in the chunks before it (authenticated mode).
/// Returns (result, in the D2 class and failing for that reason).
fn oracle_c04(plan: &Plan, built: &Built, auth: &Repaired, unauth: &Repaired, fail_chunk: usize, usable: usize, chunk0_altered: bool) -> Result<(), String> {
    for (m, r) in [("authenticated", auth), ("unauthenticated", unauth)] {
        if let Some(p) = &r.crashed {
            return Err(format!("{m} repair panicked: {p}"));
        }
        if r.status.is_none() {
            return Err(format!("{m} repair returned an error although the header is intact"));
        }
    }
    let _ = fail_chunk;
    // authenticated: names are original, every file is a prefix of the original
    for (name, data) in &auth.files {
        let Some(idx) = plan.names.iter().position(|n| n == name) else {
            return Err(format!("authenticated repair wrote a file {:?} that was never added", String::from_utf8_lossy(name)));
        };
        if !built.contents[idx].starts_with(data) {
            return Err(format!("authenticated repair: file {idx} is not a prefix of the original"));
        }
    }
    // nothing after the first failing chunk is used
    if !chunk0_altered {
        let limit = expected_recovery(plan, built, usable);
        for (i, n) in plan.names.iter().enumerate() {
            let got = file_of(auth, n).map(|d| d.len()).unwrap_or(0);
            if got > limit[i] {
                return Err(format!("authenticated repair: file {i} has {got} bytes, only {} lie in the chunks before the failing chunk {fail_chunk}", limit[i]));
            }
        }
    }
    // authenticated ⊑ unauthenticated, per file
    for (name, data) in &auth.files {
        let u = file_of(unauth, name);
        if !data.is_empty() && !u.map(|d| d.starts_with(data)).unwrap_or(false) {
            return Err(format!("file {:?}: the authenticated result is not a prefix of the unauthenticated result", String::from_utf8_lossy(name)));
        }
        if u.is_none() {
            return Err(format!("file {:?} recovered in authenticated mode is missing from the unauthenticated result", String::from_utf8_lossy(name)));
        }
    }
    Ok(())
}

/// A seekable source that fails ONCE with a hard I/O error at the `at`-th read counted from the moment it is armed.
struct ErrOnceSeek {
    data: Vec<u8>,
    pos: u64,
    /// at most this many bytes per read (a chunk load then takes several reads, and the failure can fall between them)
    q: usize,
    armed: std::sync::Arc<std::sync::atomic::AtomicIsize>,
}
impl Read for ErrOnceSeek {
    fn read(&mut self, buf: &mut [u8]) -> std::io::Result<usize> {
        use std::sync::atomic::Ordering;
        let left = self.armed.load(Ordering::Relaxed);
        if left >= 0 {
            self.armed.store(left - 1, Ordering::Relaxed);
            if left == 0 {
                return Err(std::io::Error::new(std::io::ErrorKind::Other, "medium error"));
            }
        }
        let p = (self.pos as usize).min(self.data.len());
        let n = buf.len().min(self.data.len() - p).min(self.q.max(1));
        buf[..n].copy_from_slice(&self.data[p..p + n]);
        self.pos += n as u64;
        Ok(n)
    }
}
impl std::io::Seek for ErrOnceSeek {
    fn seek(&mut self, s: std::io::SeekFrom) -> std::io::Result<u64> {
        let t = match s {
            std::io::SeekFrom::Start(n) => n as i128,
            std::io::SeekFrom::Current(d) => self.pos as i128 + d as i128,
            std::io::SeekFrom::End(d) => self.data.len() as i128 + d as i128,
        };
        if t < 0 {
            return Err(std::io::Error::new(std::io::ErrorKind::InvalidInput, "negative position"));
        }
        self.pos = t as u64;
        Ok(self.pos)
    }
}

/// Reading CONTINUED after the source failed once inside a chunk (normal reader, encrypted archives): whatever
/// bytes the reads return, concatenated, are a prefix of the file - never undecrypted or misplaced bytes.
fn c04_read_after_source_error(rng: &mut Rng, tier: &str, out: &mut Out) {
    let n = if tier == "thorough" { 6 } else { 2 };
    for (ai, (plan, built, _)) in c04_archives(rng, tier).iter().take(n).enumerate() {
        let mut msg: Option<String> = None;
        'k: for k in 0..48isize {
            let q = [7usize, 16, 33, 100_000][(k % 4) as usize];
            for fi in 0..plan.names.len() {
                let armed = std::sync::Arc::new(std::sync::atomic::AtomicIsize::new(-1));
                let r = catch(|| -> Result<(), String> {
                    let mut cfg = mla::config::ArchiveReaderConfig::new();
                    cfg.add_private_keys(&built.privs);
                    let mut rd = mla::ArchiveReader::from_config(ErrOnceSeek { data: built.bytes.clone(), pos: 0, q, armed: armed.clone() }, cfg).map_err(|e| format!("open: {e:?}"))?;
                    let nm = String::from_utf8_lossy(&plan.names[fi]).into_owned();
                    armed.store(k, std::sync::atomic::Ordering::Relaxed);
                    let Ok(Some(mut f)) = rd.get_file(nm) else { return Ok(()) };
                    let mut got = Vec::new();
                    let mut buf = [0u8; 29];
                    let mut errors = 0;
                    for _ in 0..400 {
                        match f.data.read(&mut buf) {
                            Ok(0) => break,
                            Ok(m) => got.extend_from_slice(&buf[..m]),
                            Err(_) => {
                                errors += 1;
                                if errors > 3 {
                                    break;
                                }
                            }
                        }
                    }
                    if !built.contents[fi].starts_with(&got) {
                        return Err(format!("file {fi}: the bytes returned by reads continued after a source error at read {k} are not a prefix of the file ({} bytes returned)", got.len()));
                    }
                    Ok(())
                });
                match r {
                    Ok(Ok(())) => {}
                    Ok(Err(e)) => { msg = Some(e); break 'k; }
                    Err(p) => { msg = Some(format!("panic: {p}")); break 'k; }
                }
            }
        }
        out.case(&Case {
            id: format!("c04-read-after-source-error-{ai}"),
            model_fn: "",
            args: vec![],
            imp: json!([]),
            oracle_ok: msg.is_none(),
            oracle_msg: msg.unwrap_or_default(),
            class: "reads continued after a source error".into(),
            nontrivial: true,
            meta: json!({"archive": ai}),
        });
    }
}

pub fn c04_cases(rng: &mut Rng, tier: &str, out: &mut Out) {
    c04_read_after_source_error(rng, tier, out);
    let model_stride = if tier == "thorough" { 31 } else { 23 };
    let mut counter = 0usize;
    for (ai, (plan, built, akind)) in c04_archives(rng, tier).iter().enumerate() {
        let hl = built.header_len;
        let body_len = built.bytes.len() - hl;
        let nch = (body_len + CTS - 1) / CTS;
        // (kind, altered archive, first failing chunk, usable plaintext bytes in authenticated mode, chunk 0 altered)
        let mut alts: Vec<(String, Vec<u8>, usize, usize, bool)> = Vec::new();
        for o in 0..body_len {
            let j = o / CTS;
            let chunk_len = (body_len - j * CTS).min(CTS);
            let in_tag = o % CTS >= chunk_len - TAG;
            let bits: Vec<u8> = if tier == "thorough" { vec![0, rng.range(1, 7) as u8] } else { vec![rng.below(8) as u8] };
            for bit in bits {
                let v = flip_bit(&built.bytes, hl + o, bit);
                alts.push((format!("corrupt-{}-chunk{}", if in_tag { "tag" } else { "payload" }, if j == 0 { "0".to_string() } else if j + 1 == nch { "last".into() } else { "mid".into() }), v, j, j * CH, j == 0));
            }
        }
        let step = if tier == "thorough" { 1 } else { 3 };
        for cut in (0..body_len).step_by(step) {
            let j = cut / CTS;
            // chunk 0 is read without tag check: what is present of it is delivered
            let usable = if j == 0 { cut.min(CH) } else { j * CH };
            alts.push((format!("truncate-chunk{}", if j == 0 { "0".to_string() } else if j + 1 == nch { "last".into() } else { "mid".into() }), built.bytes[..hl + cut].to_vec(), j, usable, false));
        }
        for (k, (kind, bytes, j, usable, c0)) in alts.iter().enumerate() {
            counter += 1;
            let ra = repair_bytes(bytes, &built.privs, false);
            let ru = repair_bytes(bytes, &built.privs, true);
            let res = oracle_c04(plan, built, &ra, &ru, *j, *usable, *c0);
            let equal_limit = {
                let limit = expected_recovery(plan, built, *usable);
                plan.names.iter().enumerate().all(|(i, n)| file_of(&ra, n).map(|d| d.len()).unwrap_or(0) == limit[i])
            };
            for (unauth, r) in [(false, &ra), (true, &ru)] {
                let send = cfg!(feature = "scaled") && ((counter + usize::from(unauth)) % model_stride == 0 || res.is_err());
                let (f, args): (&'static str, Vec<Value>) = if send {
                    ("repair_enc", vec![jbytes(&built.key), jbytes(&built.nonce), jbytes(&bytes[hl..]), json!(u64::from(unauth))])
                } else {
                    ("", vec![])
                };
                let mut case = Case {
                    id: format!("c04-a{ai}-{k}-{kind}-u{}", u8::from(unauth)),
                    model_fn: f,
                    args,
                    imp: if send { json!(r.rows) } else { json!([]) },
                    oracle_ok: res.is_ok(),
                    oracle_msg: res.clone().err().unwrap_or_default(),
                    class: format!("{akind} {kind} unauth={unauth} {} auth-recovers-exactly-the-chunks-before:{equal_limit}", if r.status == Some(12) { "end-of-data-reached" } else { "stopped-early" }),
                    nontrivial: true,
                    meta: json!({"archive": ai, "kind": kind, "fail_chunk": j, "usable": usable, "chunks": nch, "unauth": unauth, "len": bytes.len(),
                                 "pieces": plan.pieces.iter().map(|p| (p.0, p.1.len())).collect::<Vec<_>>()}),
                }
                .to_json();
                // known finding D2: alteration confined to chunk 0 (ciphertext or tag), authenticated mode
                if res.is_err() && *c0 && ra.crashed.is_none() && ru.crashed.is_none() {
                    case["known"] = json!("D2");
                }
                out.raw(&case);
            }
            // an UNALTERED archive delivered by a source that fails once with a hard I/O error inside a chunk: whatever the
            // layers do with the error, what is written must be a prefix of the original files (nothing undecrypted,
            // nothing from a later position)
            if k % 97 == 0 {
                // the same plan also under compression + encryption (the fail-safe decompressor reads its inner layer again
                // after an error while it still holds input)
                let mut plan2 = plan.clone();
                plan2.layers = L_ENC | L_COMP;
                let built2 = build(rng, &plan2).ok();
                for layers_variant in [0usize, 1, 2, 3] {
                    let b: &Built = if layers_variant >= 1 { match &built2 { Some(b2) => b2, None => continue } } else { built };
                    let q = *rng.pick(&[5usize, 16, 33, 80, 100_000]);
                    let at = 2 + rng.below((b.bytes.len() / q.min(80)) as u64 + 2) as usize;
                    for unauth in [false, true] {
                        let r = crate::repair::repair_with(crate::repair::ErrOnceReader { data: &b.bytes, pos: 0, q, calls: 0, at }, &b.privs, unauth);
                        let mut e: Option<String> = r.crashed.clone().map(|p| format!("panic: {p}"));
                        for (n, d) in &r.files {
                            if let Some(i) = plan.names.iter().position(|x| x == n) {
                                if !b.contents[i].starts_with(d) {
                                    e = Some(format!("file {i} is not a prefix of the original ({} bytes recovered)", d.len()));
                                }
                            } else {
                                e = Some("a name that is not in the original".into());
                            }
                        }
                        out.case(&Case {
                            id: format!("c04-a{ai}-{k}-erronce{layers_variant}-q{q}-at{at}-u{}", u8::from(unauth)),
                            model_fn: "",
                            args: vec![],
                            imp: json!([]),
                            oracle_ok: e.is_none(),
                            oracle_msg: e.map(|m| format!("unaltered archive from a source failing once (read {at}, reads of {q} bytes), unauth={unauth}: {m}")).unwrap_or_default(),
                            class: format!("{akind} source-fails-once unauth={unauth}"),
                            nontrivial: true,
                            meta: json!({"archive": ai, "q": q, "at": at}),
                        });
                    }
                }
            }
            // the same two repairs from a source that delivers the archive in short reads (a pipe,
            // a socket): the two modes must still relate as the property says
            if counter % (if tier == "thorough" { 2 } else { 5 }) == 0 {
                let sched: Vec<usize> = (0..4000).map(|_| *rng.pick(&[1usize, 2, 3, 5, 7, 11, 16, 17, 40, 64, 81])).collect();
                let ta = crate::repair::repair_with(crate::util::ThrottledReader::new(std::io::Cursor::new(bytes.clone()), sched.clone()), &built.privs, false);
                let tu = crate::repair::repair_with(crate::util::ThrottledReader::new(std::io::Cursor::new(bytes.clone()), sched.clone()), &built.privs, true);
                let rest = oracle_c04(plan, built, &ta, &tu, *j, *usable, *c0);
                let mut case = Case {
                    id: format!("c04-a{ai}-{k}-{kind}-short-reads"),
                    model_fn: "",
                    args: vec![],
                    imp: json!([]),
                    oracle_ok: rest.is_ok(),
                    oracle_msg: rest.clone().err().map(|e| format!("source delivering short reads: {e}")).unwrap_or_default(),
                    class: format!("{akind} {kind} short-reads"),
                    nontrivial: true,
                    meta: json!({"archive": ai, "kind": kind, "fail_chunk": j, "usable": usable, "chunks": nch, "len": bytes.len(), "sched": sched[..8].to_vec()}),
                }
                .to_json();
                if rest.is_err() && *c0 && ta.crashed.is_none() && tu.crashed.is_none() {
                    case["known"] = json!("D2");
                }
                out.raw(&case);
            }
        }
    }
}
