//! Work package "wrows": direct model=implementation rows for the WRITER side
//! (COVERAGE.md "modelled but only oracle-compared").  Model entry points: coq/theories/RunWRows.v.
//!
//!  * `c01-encw`     the real `EncryptionLayerWriter` (fixed key/nonce through `verif_new`) driven call
//!                   by call (`write` with its accepted count, `write_all`, `flush`, `finalize`, also
//!                   writes after a finalize) over a probe that shows what the inner writer holds
//!                   after every call  ==  `EncLayer.ew_write / ew_write_all / ew_finalize` under the
//!                   concrete AES-256-GCM.  Oracle (no model, no `mla`): the wire is cut into chunks
//!                   by the accepted counts alone and every chunk must authenticate and decrypt under
//!                   `aes-gcm` with nonce = archive nonce ++ BE32(chunk index) to the bytes accepted.
//!  * `c01-aw`       whole archives of the real `ArchiveWriter` (4 layer combinations, generated
//!                   plans)  ==  `Archive.archive_write`, byte for byte INCLUDING the footer (the
//!                   HashMap iteration order observed in the real footer is the model's `order`).
//!                   Oracle: the independent FORMAT.md decoder returns exactly the files written.
//!  * `c06-gcmdec`   `AesGcm256::{decrypt, decrypt_unauthenticated, encrypt, into_tag}` in any
//!                   sequence on one object  ==  `Gcm.gcm_decrypt / gcm_decrypt_unauth / …` threaded
//!                   through one `gstate`.  Oracle: against `aes-gcm` where GCM defines the answer.
//!  * `c13-sinkrows` `PositionLayerWriter` + std `write_all` (and single `write` calls) over a scripted
//!                   sink that logs (offered length, outcome)  ==  `Sink.write_all / pos_write /
//!                   sink_write` on the same schedule.
#![allow(dead_code)]
use crate::util::*;
use serde_json::{json, Value};
use std::io::{self, Write};
use std::sync::{Arc, Mutex};

fn row_bytes(tag: u64, b: &[u8]) -> Vec<u64> {
    let mut r = vec![tag];
    r.extend(b.iter().map(|x| *x as u64));
    r
}

// ====================================================================================== (c)

fn key_nonce(rng: &mut Rng) -> ([u8; 32], [u8; 12]) {
    let mut key = [0u8; 32];
    key.copy_from_slice(&rng.bytes(32));
    let mut nonce = [0u8; 12];
    nonce.copy_from_slice(&rng.bytes(12));
    (key, nonce)
}

/// Run the calls on ONE real AesGcm256 object; rows as RunWRows.gcm_calls prints them.
fn gcm_run(key: &[u8; 32], nonce: &[u8; 12], aad: &[u8], calls: &[Vec<u64>]) -> Result<Vec<Vec<u64>>, String> {
    use mla::crypto::aesgcm::{AesGcm256, ConstantTimeEq};
    catch(|| {
        let mut c = AesGcm256::new(key, nonce, aad).expect("new");
        let mut rows = Vec::new();
        for call in calls {
            let arg: Vec<u8> = call[1..].iter().map(|x| *x as u8).collect();
            match call[0] {
                0 => {
                    let mut buf = arg.clone();
                    let tag = c.decrypt(&mut buf);
                    rows.push(row_bytes(0, &buf));
                    rows.push(row_bytes(5, tag.as_slice()));
                }
                1 => {
                    let mut buf = arg.clone();
                    c.decrypt_unauthenticated(&mut buf);
                    rows.push(row_bytes(1, &buf));
                }
                2 => {
                    let (expected, ct) = arg.split_at(16.min(arg.len()));
                    let mut buf = ct.to_vec();
                    let tag = c.decrypt(&mut buf);
                    rows.push(row_bytes(0, &buf));
                    rows.push(row_bytes(5, tag.as_slice()));
                    // the caller's comparison, as load_in_cache does it (ConstantTimeEq)
                    rows.push(vec![6, tag.as_slice().ct_eq(expected).unwrap_u8() as u64]);
                }
                _ => {
                    let mut buf = arg.clone();
                    c.encrypt(&mut buf);
                    rows.push(row_bytes(3, &buf));
                }
            }
        }
        rows.push(row_bytes(7, c.into_tag().as_slice()));
        rows
    })
}

fn call(op: u64, b: &[u8]) -> Vec<u64> {
    row_bytes(op, b)
}

pub fn c06_gcmdec_cases(rng: &mut Rng, tier: &str, out: &mut Out) {
    use aes_gcm::aead::{Aead, KeyInit, Payload};
    let thorough = tier == "thorough";
    let emit = |out: &mut Out, id: String, class: &str, key: &[u8; 32], nonce: &[u8; 12], aad: &[u8], calls: Vec<Vec<u64>>,
                    oracle: &dyn Fn(&[Vec<u64>]) -> Result<(), String>| {
        let (rows, orc) = match gcm_run(key, nonce, aad, &calls) {
            Ok(rows) => {
                let o = oracle(&rows);
                (rows, o)
            }
            Err(p) => (vec![vec![2]], Err(format!("panic: {p}"))),
        };
        out.case(&Case {
            id, model_fn: "c06_gcmdec", args: vec![jbytes(key), jbytes(nonce), jbytes(aad), json!(calls)], imp: json!(rows),
            oracle_ok: orc.is_ok(), oracle_msg: orc.err().unwrap_or_default(), class: class.into(), nontrivial: true,
            meta: json!({"aad": aad.len(), "calls": calls.iter().map(|c| (c[0], c.len() - 1)).collect::<Vec<_>>()}),
        });
    };
    let lens: Vec<usize> = if thorough { (0..=40).collect() } else { vec![0, 1, 2, 15, 16, 17, 20, 31, 32, 33, 40] };
    for len in lens {
        let (key, nonce) = key_nonce(rng);
        let aadl = *rng.pick(&[0usize, 0, 1, 16, 20]);
        let aad = rng.bytes(aadl);
        let msg = rng.bytes(len);
        let std = aes_gcm::Aes256Gcm::new((&key).into()).encrypt((&nonce).into(), Payload { msg: &msg, aad: &aad }).expect("aes-gcm");
        let (ct, stag) = std.split_at(len);
        let (ct, stag) = (ct.to_vec(), stag.to_vec());
        let with_tag = |t: &[u8], c: &[u8]| -> Vec<u64> {
            let mut v = t.to_vec();
            v.extend_from_slice(c);
            call(2, &v)
        };
        // one call on a fresh object, right tag
        {
            let (m, t) = (msg.clone(), stag.clone());
            emit(out, format!("gcmdec-one-{len}"), "decrypt, one call, right tag", &key, &nonce, &aad, vec![with_tag(&stag, &ct)], &move |rows| {
                if rows[0][1..].iter().map(|x| *x as u8).collect::<Vec<_>>() != m { return Err("decrypt does not return the message".into()); }
                if rows[1][1..].iter().map(|x| *x as u8).collect::<Vec<_>>() != t { return Err("decrypt does not return the standard tag".into()); }
                if rows[2] != vec![6, 1] { return Err("the right tag does not compare equal".into()); }
                Ok(())
            });
        }
        // wrong tag / altered ciphertext: the comparison must fail (aes-gcm rejects them too)
        let nbad = if thorough { 4 } else { 2 };
        for j in 0..nbad {
            let mut t = stag.clone();
            let mut c = ct.clone();
            let what = if j % 2 == 0 || len == 0 {
                t[rng.below(16) as usize] ^= 1 << rng.below(8);
                "tag altered"
            } else {
                c[rng.below(len as u64) as usize] ^= 1 << rng.below(8);
                "ciphertext altered"
            };
            let mut both = c.clone();
            both.extend_from_slice(&t);
            let std_rejects = aes_gcm::Aes256Gcm::new((&key).into()).decrypt((&nonce).into(), Payload { msg: &both, aad: &aad }).is_err();
            emit(out, format!("gcmdec-bad-{len}-{j}"), &format!("decrypt, one call, {what}"), &key, &nonce, &aad, vec![with_tag(&t, &c)], &move |rows| {
                if !std_rejects { return Err("harness: aes-gcm accepts the altered message".into()); }
                if rows[2] != vec![6, 0] { return Err("an altered message / tag compares equal".into()); }
                Ok(())
            });
        }
        // every split into two pieces: decrypt_unauthenticated in pieces (= the message), and
        // decrypt called twice (second call: model rows only — not a GCM operation)
        for i in 0..=len {
            if !thorough && !(i % 5 == 0 || i == len || [15, 16, 17].contains(&i)) {
                continue;
            }
            let m = msg.clone();
            emit(out, format!("gcmdec-un-{len}-{i}"), "decrypt_unauthenticated, two pieces", &key, &nonce, &aad, vec![call(1, &ct[..i]), call(1, &ct[i..])], &move |rows| {
                let mut got: Vec<u8> = rows[0][1..].iter().map(|x| *x as u8).collect();
                got.extend(rows[1][1..].iter().map(|x| *x as u8));
                if got != m { Err("decrypt_unauthenticated in two pieces does not return the message".into()) } else { Ok(()) }
            });
            let m = msg.clone();
            emit(out, format!("gcmdec-two-{len}-{i}"), "decrypt, two calls on one object", &key, &nonce, &aad, vec![call(0, &ct[..i]), call(0, &ct[i..])], &move |rows| {
                // the first call is a GCM decryption of the first piece alone: its plaintext is the message prefix
                let got: Vec<u8> = rows[0][1..].iter().map(|x| *x as u8).collect();
                if got != m[..i] { Err("first decrypt call does not return the message prefix".into()) } else { Ok(()) }
            });
        }
    }
    // random mixed sequences on one object (model rows only: no standard defines them)
    let n = if thorough { 300 } else { 50 };
    for j in 0..n {
        let (key, nonce) = key_nonce(rng);
        let aadl = *rng.pick(&[0usize, 0, 3, 16, 33]);
        let aad = rng.bytes(aadl);
        let ncalls = rng.range(1, 5);
        let mut calls = Vec::new();
        for _ in 0..ncalls {
            let l = *rng.pick(&[0usize, 1, 5, 15, 16, 17, 24, 31, 32, 33, 48, 64]);
            let op = *rng.pick(&[0u64, 1, 1, 3, 3, 2]);
            let b = rng.bytes(if op == 2 { l + 16 } else { l });
            calls.push(call(op, &b));
        }
        emit(out, format!("gcmdec-mix-{j}"), "mixed encrypt / decrypt / decrypt_unauthenticated calls on one object", &key, &nonce, &aad, calls, &|_| Ok(()));
    }
}

// ====================================================================================== (d)

#[derive(Clone, Copy, Debug)]
enum Ev {
    Accept(usize),
    Zero,
    Intr,
    Fail,
}

/// A destination following a script (then accepting everything), logging what it is offered.
struct ScriptSink {
    data: Vec<u8>,
    sched: std::collections::VecDeque<Ev>,
    log: Vec<Vec<u64>>,
}
impl Write for ScriptSink {
    fn write(&mut self, buf: &[u8]) -> io::Result<usize> {
        let n = buf.len();
        match self.sched.pop_front() {
            None => {
                self.data.extend_from_slice(buf);
                self.log.push(vec![n as u64, 0, n as u64]);
                Ok(n)
            }
            Some(Ev::Accept(k)) => {
                let a = k.max(1).min(n);
                self.data.extend_from_slice(&buf[..a]);
                self.log.push(vec![n as u64, 0, a as u64]);
                Ok(a)
            }
            Some(Ev::Zero) => {
                self.log.push(vec![n as u64, 0, 0]);
                Ok(0)
            }
            Some(Ev::Intr) => {
                self.log.push(vec![n as u64, 1, 0]);
                Err(io::Error::new(io::ErrorKind::Interrupted, "interrupted"))
            }
            Some(Ev::Fail) => {
                self.log.push(vec![n as u64, 2, 0]);
                Err(io::Error::new(io::ErrorKind::Other, "sink failure"))
            }
        }
    }
    fn flush(&mut self) -> io::Result<()> {
        Ok(())
    }
}

fn ev_json(e: &Ev) -> Vec<u64> {
    match e {
        Ev::Accept(k) => vec![0, *k as u64],
        Ev::Zero => vec![1],
        Ev::Intr => vec![2],
        Ev::Fail => vec![3],
    }
}

pub fn c13_sinkrows_cases(rng: &mut Rng, tier: &str, out: &mut Out) {
    use mla::layers::position::PositionLayerWriter;
    use mla::layers::raw::RawLayerWriter;
    use mla::layers::traits::LayerWriter;
    let n = if tier == "thorough" { 1500 } else { 240 };
    for k in 0..n {
        let mode = (k % 3 == 2) as u64; // 0: write_all per buffer; 1: single write calls
        let faulty = k % 4 == 3; // schedules with Ok(0) / hard failures
        let nev = match rng.below(4) { 0 => 0, 1 => rng.range(1, 4), _ => rng.range(4, 40) } as usize;
        let kind = rng.below(4);
        let sched: Vec<Ev> = (0..nev)
            .map(|_| {
                let r = rng.below(20);
                if faulty && r == 0 { Ev::Zero }
                else if faulty && r == 1 { Ev::Fail }
                else if r < 6 { Ev::Intr }
                else {
                    Ev::Accept(match kind { 0 => 1, 1 => rng.range(0, 3) as usize, 2 => rng.range(1, 40) as usize, _ => *rng.pick(&[0usize, 1, 7, 100_000]) })
                }
            })
            .collect();
        let nb = rng.range(1, 5) as usize;
        let bufs: Vec<Vec<u8>> = (0..nb).map(|_| { let l = *rng.pick(&[0usize, 1, 2, 3, 9, 17, 40, 64, 100]); rng.bytes(l) }).collect();
        let run = catch(|| {
            let sink = ScriptSink { data: Vec::new(), sched: sched.iter().copied().collect(), log: Vec::new() };
            let mut w = Box::new(PositionLayerWriter::new(Box::new(RawLayerWriter::new(sink))));
            let mut rows: Vec<Vec<u64>> = Vec::new();
            let mut all_ok = true;
            for b in &bufs {
                if mode == 0 {
                    let code = match w.write_all(b) {
                        Ok(()) => 0,
                        Err(e) if e.kind() == io::ErrorKind::WriteZero => 1,
                        Err(_) => 2,
                    };
                    all_ok &= code == 0;
                    rows.push(vec![code, w.position()]);
                } else {
                    let r = match w.write(b) {
                        Ok(m) => vec![0, m as u64, w.position()],
                        Err(e) if e.kind() == io::ErrorKind::Interrupted => vec![1, 0, w.position()],
                        Err(_) => vec![2, 0, w.position()],
                    };
                    rows.push(r);
                }
            }
            let pos = w.position();
            let sink = w.into_raw();
            (rows, sink.log, sink.data, pos, all_ok)
        });
        let (rows, orc): (Vec<Vec<u64>>, Result<(), String>) = match run {
            Err(p) => (vec![vec![2]], Err(format!("panic: {p}"))),
            Ok((mut rows, log, data, pos, all_ok)) => {
                // the property's side: the position is the number of bytes in the destination, the
                // destination holds a prefix of what was given, everything when every call succeeded
                let given: Vec<u8> = bufs.concat();
                let o = if pos != data.len() as u64 { Err(format!("position() = {pos} with {} bytes in the destination", data.len())) }
                        else if mode == 0 && all_ok && data != given { Err("every write_all returned Ok but the destination does not hold the concatenation".into()) }
                        else { Ok(()) };
                rows.push(vec![77]);
                rows.extend(log);
                rows.push(row_bytes(8, &data));
                (rows, o)
            }
        };
        out.case(&Case {
            id: format!("c13-sink-{k}"), model_fn: "c13_sinkrows",
            args: vec![json!(mode), json!(sched.iter().map(ev_json).collect::<Vec<_>>()), Value::Array(bufs.iter().map(|b| jbytes(b)).collect())],
            imp: json!(rows), oracle_ok: orc.is_ok(), oracle_msg: orc.err().unwrap_or_default(),
            class: format!("{} events={} faulty={}", if mode == 0 { "write_all" } else { "write" }, match nev { 0 => "0", 1..=3 => "1-3", _ => "4+" }, faulty),
            nontrivial: bufs.iter().any(|b| !b.is_empty()),
            meta: json!({"mode": mode, "events": nev, "bufs": bufs.iter().map(|b| b.len()).collect::<Vec<_>>()}),
        });
    }
}

// ====================================================================================== (a)

/// What the inner writer of the encryption layer holds; shared so that the test can look at it
/// while the layer owns the writer.
#[derive(Clone)]
struct Probe(Arc<Mutex<Vec<u8>>>);
impl Write for Probe {
    fn write(&mut self, buf: &[u8]) -> io::Result<usize> {
        self.0.lock().unwrap().extend_from_slice(buf);
        Ok(buf.len())
    }
    fn flush(&mut self) -> io::Result<()> {
        Ok(())
    }
}

fn chunk_nonce(nonce: &[u8; 8], i: u32) -> [u8; 12] {
    let mut n = [0u8; 12];
    n[..8].copy_from_slice(nonce);
    n[8..].copy_from_slice(&i.to_be_bytes());
    n
}

/// Remove the encryption layer with `aes-gcm` alone, given the plaintext length of every chunk.
fn open_chunks(key: &[u8; 32], nonce: &[u8; 8], wire: &[u8], chunk_lens: &[usize]) -> Result<Vec<u8>, String> {
    use aes_gcm::aead::{Aead, KeyInit, Payload};
    let c = aes_gcm::Aes256Gcm::new(key.into());
    let mut p = 0usize;
    let mut plain = Vec::new();
    for (i, l) in chunk_lens.iter().enumerate() {
        if wire.len() < p + l + 16 {
            return Err(format!("the wire ends inside chunk {i} ({} bytes, chunk of {l} + tag expected at {p})", wire.len()));
        }
        let m = c
            .decrypt((&chunk_nonce(nonce, i as u32)).into(), Payload { msg: &wire[p..p + l + 16], aad: b"" })
            .map_err(|_| format!("chunk {i} ({l} bytes at {p}) does not authenticate under nonce ++ BE32({i})"))?;
        plain.extend_from_slice(&m);
        p += l + 16;
    }
    if p != wire.len() {
        return Err(format!("{} bytes on the wire after the last chunk", wire.len() - p));
    }
    Ok(plain)
}

#[cfg(feature = "scaled")]
pub fn c01_encw_cases(rng: &mut Rng, tier: &str, out: &mut Out) {
    use mla::layers::encrypt::{EncryptionConfig, EncryptionLayerWriter, VERIF_CONSTANTS};
    use mla::layers::raw::RawLayerWriter;
    use mla::layers::traits::LayerWriter;
    let (ch, cb) = (VERIF_CONSTANTS.0 as usize, VERIF_CONSTANTS.1 as usize);
    let n = if tier == "thorough" { 900 } else { 150 };
    let sizes: Vec<usize> = vec![0, 1, 2, cb - 1, cb, cb + 1, 2 * cb, ch - cb, ch - 1, ch, ch + 1, ch + cb, 2 * ch - 1, 2 * ch, 2 * ch + 1, 3 * ch, 3 * ch + 5];
    for k in 0..n {
        let mut key = [0u8; 32];
        key.copy_from_slice(&rng.bytes(32));
        let mut nonce = [0u8; 8];
        nonce.copy_from_slice(&rng.bytes(8));
        // the calls
        let mut ops: Vec<Vec<u64>> = Vec::new();
        let style = k % 5; // 0: single writes only; 1: write_all only; others: mixed
        let phases = if k % 7 == 6 { 2 } else { 1 }; // writes after a finalize, finalized again
        for ph in 0..phases {
            let ncalls = if k < sizes.len() * 2 { 1 } else { rng.range(0, 6) as usize };
            for c in 0..ncalls {
                let l = if k < sizes.len() * 2 && ph == 0 && c == 0 { sizes[k / 2] } else if rng.below(5) == 0 { rng.below(3 * ch as u64 + 10) as usize } else { *rng.pick(&sizes) };
                let data = rng.bytes(l);
                let single = match style { 0 => true, 1 => false, _ => rng.below(2) == 0 };
                ops.push(row_bytes(if single { 0 } else { 1 }, &data));
                if rng.below(4) == 0 {
                    ops.push(vec![2]);
                }
            }
            ops.push(vec![3]);
        }
        // the real layer
        let probe = Probe(Arc::new(Mutex::new(Vec::new())));
        let seen = probe.0.clone();
        let run = catch(|| {
            let mut w = EncryptionLayerWriter::new(Box::new(RawLayerWriter::new(probe)), &EncryptionConfig::verif_new(key, nonce)).expect("new");
            let mut rows: Vec<Vec<u64>> = Vec::new();
            // the oracle's bookkeeping, from the accepted counts alone
            let mut accepted: Vec<u8> = Vec::new();
            let mut chunk_lens: Vec<usize> = Vec::new();
            let mut off = 0usize;
            let mut note = |n: usize, off: &mut usize, chunk_lens: &mut Vec<usize>| {
                // one Write::write call that accepted n bytes: a full chunk is closed by the NEXT write
                if *off == ch {
                    chunk_lens.push(ch);
                    *off = 0;
                }
                *off += n;
            };
            let mut failed = false;
            for op in &ops {
                let data: Vec<u8> = op[1..].iter().map(|x| *x as u8).collect();
                let inner_len = |s: &Arc<Mutex<Vec<u8>>>| s.lock().unwrap().len() as u64;
                match op[0] {
                    0 => match w.write(&data) {
                        Ok(m) => {
                            note(m, &mut off, &mut chunk_lens);
                            accepted.extend_from_slice(&data[..m.min(data.len())]);
                            rows.push(vec![0, m as u64, inner_len(&seen)]);
                        }
                        Err(_) => { rows.push(vec![1]); failed = true; }
                    },
                    1 => match w.write_all(&data) {
                        Ok(()) => {
                            // all of it was accepted; chunks are CHUNK long and closed lazily
                            let mut rest = data.len();
                            while rest > 0 {
                                if off == ch {
                                    chunk_lens.push(ch);
                                    off = 0;
                                }
                                let take = rest.min(ch - off);
                                off += take;
                                rest -= take;
                            }
                            accepted.extend_from_slice(&data);
                            rows.push(vec![0, inner_len(&seen)]);
                        }
                        Err(_) => { rows.push(vec![1]); failed = true; }
                    },
                    2 => match w.flush() {
                        Ok(()) => rows.push(vec![0, inner_len(&seen)]),
                        Err(_) => { rows.push(vec![1]); failed = true; }
                    },
                    _ => match w.finalize() {
                        Ok(()) => {
                            chunk_lens.push(off);
                            off = 0;
                            rows.push(vec![0, inner_len(&seen)]);
                        }
                        Err(_) => { rows.push(vec![1]); failed = true; }
                    },
                }
                if failed {
                    break;
                }
            }
            (rows, accepted, chunk_lens, failed)
        });
        let wire = seen.lock().unwrap().clone();
        let (rows, orc): (Vec<Vec<u64>>, Result<(), String>) = match run {
            Err(p) => (vec![vec![2], row_bytes(9, &wire)], Err(format!("the encryption layer writer panicked: {p}"))),
            Ok((mut rows, accepted, chunk_lens, failed)) => {
                rows.push(row_bytes(9, &wire));
                let o = if failed { Err("a call of the encryption layer writer failed over a destination that accepts everything".to_string()) }
                        else {
                            match open_chunks(&key, &nonce, &wire, &chunk_lens) {
                                Err(e) => Err(e),
                                Ok(p) if p != accepted => Err("the chunks decrypt to something else than the bytes the writer accepted".into()),
                                Ok(_) => Ok(()),
                            }
                        };
                (rows, o)
            }
        };
        let total: usize = ops.iter().map(|o| o.len() - 1).sum();
        let ntab = total / ch + 2 * phases + 2;
        out.case(&Case {
            id: format!("c01-encw-{k}"), model_fn: "c01_encw",
            args: vec![jbytes(&key), jbytes(&nonce), json!(ntab), json!(ops)], imp: json!(rows),
            oracle_ok: orc.is_ok(), oracle_msg: orc.err().unwrap_or_default(),
            class: format!("calls={} style={} phases={} chunks={}", match ops.len() { 0..=2 => "1-2", 3..=6 => "3-6", _ => "7+" }, ["write", "write_all", "mixed", "mixed", "mixed"][style], phases, (total / ch).min(6)),
            nontrivial: total > 0,
            meta: json!({"ops": ops.iter().map(|o| (o[0], o.len() - 1)).collect::<Vec<_>>(), "wire_len": wire.len()}),
        });
    }
}

// ====================================================================================== (d')

/// The scripted destination, shared: the test looks at it while the layer owns it.
#[derive(Clone)]
struct SharedScript(Arc<Mutex<ScriptSink>>);
impl Write for SharedScript {
    fn write(&mut self, buf: &[u8]) -> io::Result<usize> {
        self.0.lock().unwrap().write(buf)
    }
    fn flush(&mut self) -> io::Result<()> {
        Ok(())
    }
}

/// C13, the encryption layer writer over a destination that accepts part of each write and
/// reports interruptions: what the destination holds and how many scripted events it has used
/// after every call of the layer == EncLayer.ew_* pushed through Sink.push_outs.
/// Oracle: the destination ends up with the bytes the same calls leave in memory.
#[cfg(feature = "scaled")]
pub fn c13_encsink_cases(rng: &mut Rng, tier: &str, out: &mut Out) {
    use mla::layers::encrypt::{EncryptionConfig, EncryptionLayerWriter, VERIF_CONSTANTS};
    use mla::layers::raw::RawLayerWriter;
    use mla::layers::traits::LayerWriter;
    let (ch, cb) = (VERIF_CONSTANTS.0 as usize, VERIF_CONSTANTS.1 as usize);
    let n = if tier == "thorough" { 600 } else { 100 };
    let sizes: Vec<usize> = vec![0, 1, cb - 1, cb, cb + 1, ch - 1, ch, ch + 1, 2 * ch, 2 * ch + 1, 3 * ch + 5];
    for k in 0..n {
        let mut key = [0u8; 32];
        key.copy_from_slice(&rng.bytes(32));
        let mut nonce = [0u8; 8];
        nonce.copy_from_slice(&rng.bytes(8));
        let mut ops: Vec<Vec<u64>> = Vec::new();
        let ncalls = rng.range(1, 5) as usize;
        for _ in 0..ncalls {
            let l = if rng.below(4) == 0 { rng.below(2 * ch as u64 + 10) as usize } else { *rng.pick(&sizes) };
            ops.push(row_bytes(rng.below(2), &rng.bytes(l)));
            if rng.below(5) == 0 {
                ops.push(vec![2]);
            }
        }
        ops.push(vec![3]);
        let nev = match rng.below(4) { 0 => rng.range(0, 3), 1 => rng.range(4, 30), _ => rng.range(30, 400) } as usize;
        let kind = rng.below(4);
        let sched: Vec<Ev> = (0..nev)
            .map(|_| if rng.below(4) == 0 { Ev::Intr } else { Ev::Accept(match kind { 0 => 1, 1 => rng.range(0, 3) as usize, 2 => rng.range(1, 30) as usize, _ => *rng.pick(&[1usize, 15, 16, 17, 100_000]) }) })
            .collect();
        let run_on = |dest: SharedScript| -> Result<Vec<Vec<u64>>, String> {
            let seen = dest.0.clone();
            let ops = &ops;
            catch(move || {
                let mut w = EncryptionLayerWriter::new(Box::new(RawLayerWriter::new(dest)), &EncryptionConfig::verif_new(key, nonce)).expect("new");
                let mut rows: Vec<Vec<u64>> = Vec::new();
                let state = |s: &Arc<Mutex<ScriptSink>>| { let g = s.lock().unwrap(); vec![g.data.len() as u64, g.sched.len() as u64] };
                for op in ops {
                    let data: Vec<u8> = op[1..].iter().map(|x| *x as u8).collect();
                    let r: Result<Vec<u64>, ()> = match op[0] {
                        0 => w.write(&data).map(|m| vec![0, m as u64]).map_err(|_| ()),
                        1 => w.write_all(&data).map(|_| vec![0]).map_err(|_| ()),
                        2 => w.flush().map(|_| vec![0]).map_err(|_| ()),
                        _ => w.finalize().map(|_| vec![0]).map_err(|_| ()),
                    };
                    match r {
                        Ok(mut row) => { row.extend(state(&seen)); rows.push(row); }
                        Err(()) => { rows.push(vec![1]); break; }
                    }
                }
                rows
            })
        };
        let scripted = SharedScript(Arc::new(Mutex::new(ScriptSink { data: Vec::new(), sched: sched.iter().copied().collect(), log: Vec::new() })));
        let memory = SharedScript(Arc::new(Mutex::new(ScriptSink { data: Vec::new(), sched: Default::default(), log: Vec::new() })));
        let (hs, hm) = (scripted.0.clone(), memory.0.clone());
        let r = run_on(scripted);
        let rmem = run_on(memory);
        let data = hs.lock().unwrap().data.clone();
        let mem = hm.lock().unwrap().data.clone();
        let (rows, orc): (Vec<Vec<u64>>, Result<(), String>) = match (r, rmem) {
            (Ok(mut rows), Ok(mrows)) => {
                let o = if rows.iter().any(|r| r == &vec![1]) { Err("a call failed over a destination that only throttles and interrupts".to_string()) }
                        else if data != mem { Err(format!("the throttled destination holds {} bytes, memory {} (or the bytes differ)", data.len(), mem.len())) }
                        else if rows.iter().zip(&mrows).any(|(a, b)| a.len() == 4 && a[1] != b[1]) { Err("a write accepted a different count than over memory".into()) }
                        else { Ok(()) };
                rows.push(row_bytes(8, &data));
                (rows, o)
            }
            (Err(p), _) | (_, Err(p)) => (vec![vec![2], row_bytes(8, &data)], Err(format!("panic: {p}"))),
        };
        let total: usize = ops.iter().map(|o| o.len() - 1).sum();
        out.case(&Case {
            id: format!("c13-encsink-{k}"), model_fn: "c13_encsink",
            args: vec![jbytes(&key), jbytes(&nonce), json!(total / ch + 4), json!(sched.iter().map(ev_json).collect::<Vec<_>>()), json!(ops)],
            imp: json!(rows), oracle_ok: orc.is_ok(), oracle_msg: orc.err().unwrap_or_default(),
            class: format!("events={} chunks={}", match nev { 0..=3 => "0-3", 4..=29 => "4-29", _ => "30+" }, (total / ch).min(5)),
            nontrivial: total > 0,
            meta: json!({"ops": ops.iter().map(|o| (o[0], o.len() - 1)).collect::<Vec<_>>(), "events": nev, "wire_len": data.len()}),
        });
    }
}

// ====================================================================================== (b)

/// The writer calls `archive::build` makes for a plan, in RunWRows.aw_call's encoding.
#[cfg(feature = "scaled")]
fn plan_calls(plan: &crate::archive::Plan) -> Vec<Vec<u64>> {
    let n = plan.names.len();
    let mut ids: Vec<Option<u64>> = vec![None; n];
    let mut next = 0u64;
    let mut calls = Vec::new();
    let last_piece: Vec<Option<usize>> = (0..n).map(|f| plan.pieces.iter().rposition(|p| p.0 == f)).collect();
    for (k, (f, piece)) in plan.pieces.iter().enumerate() {
        if ids[*f].is_none() {
            ids[*f] = Some(next);
            next += 1;
            calls.push(row_bytes(0, &plan.names[*f]));
        }
        let mut c = vec![1, ids[*f].unwrap()];
        c.extend(piece.iter().map(|b| *b as u64));
        calls.push(c);
        if last_piece[*f] == Some(k) {
            calls.push(vec![2, ids[*f].unwrap()]);
        }
    }
    for f in 0..n {
        if ids[f].is_none() {
            calls.push(row_bytes(0, &plan.names[f]));
            calls.push(vec![2, next]);
            next += 1;
        }
    }
    calls
}

/// The names of the footer (bincode HashMap<String, FileInfo>) of a block stream, in stored order.
fn footer_names(inner: &[u8]) -> Option<Vec<Vec<u8>>> {
    if inner.len() < 4 {
        return None;
    }
    let fl = u32::from_le_bytes(inner[inner.len() - 4..].try_into().ok()?) as usize;
    if fl + 4 > inner.len() {
        return None;
    }
    let f = &inner[inner.len() - 4 - fl..inner.len() - 4];
    let mut p = 0usize;
    let u64at = |p: &mut usize| -> Option<u64> {
        let v = u64::from_le_bytes(f.get(*p..*p + 8)?.try_into().ok()?);
        *p += 8;
        Some(v)
    };
    let n = u64at(&mut p)?;
    let mut names = Vec::new();
    for _ in 0..n {
        let nl = u64at(&mut p)? as usize;
        names.push(f.get(p..p + nl)?.to_vec());
        p += nl;
        let no = u64at(&mut p)? as usize;
        p += 8 * no + 16;
    }
    if p != fl {
        return None;
    }
    Some(names)
}

#[cfg(feature = "scaled")]
pub fn c01_aw_cases(rng: &mut Rng, tier: &str, out: &mut Out) {
    use crate::archive::{build, gen_plan, L_COMP, L_ENC};
    use crate::format::indep;
    use x25519_dalek::PublicKey;
    let n = if tier == "thorough" { 400 } else { 64 };
    let (ch, tg) = (64usize, 16usize);
    // config.check(): encryption without any recipient is refused before anything is written
    for layers in [L_ENC, L_ENC | L_COMP] {
        let r = catch(|| {
            let mut cfg = mla::config::ArchiveWriterConfig::new();
            cfg.set_layers(crate::archive::layers_of(layers));
            mla::ArchiveWriter::from_config(Vec::new(), cfg).map(|_| ())
        });
        let rows = match r { Ok(Ok(())) => vec![vec![0u64]], Ok(Err(_)) => vec![vec![1u64]], Err(_) => vec![vec![2u64]] };
        let none: Vec<Vec<u64>> = vec![];
        out.case(&Case {
            id: format!("c01-aw-nokey-{layers}"), model_fn: "c01_aw",
            args: vec![json!(1), json!((layers & L_COMP != 0) as u64), jbytes(&[0u8; 32]), json!(none), jbytes(&[1u8; 32]), jbytes(&[2u8; 8]), json!(2), json!(none), json!(none),
                       json!(none), json!(none), json!(none)],
            imp: json!(rows), oracle_ok: true, oracle_msg: String::new(), class: "encryption without recipient (refused)".into(), nontrivial: false, meta: json!({"layers": layers}),
        });
    }
    let mut k = 0usize;
    let mut tries = 0usize;
    while k < n && tries < 50 * n {
        tries += 1;
        let layers = (k % 4) as u8;
        let plan = gen_plan(rng, layers);
        let total: usize = plan.pieces.iter().map(|p| p.1.len()).sum();
        if total > 1400 {
            continue;
        }
        let id = format!("c01-aw-{k}");
        k += 1;
        let built = match build(rng, &plan) {
            Ok(b) => b,
            Err(e) => {
                out.case(&Case { id, model_fn: "", args: vec![], imp: json!([]), oracle_ok: false, oracle_msg: format!("valid writer calls failed: {e}"),
                                 class: "build-failed".into(), nontrivial: true, meta: json!({"layers": layers}) });
                continue;
            }
        };
        let enc = layers & L_ENC != 0;
        let comp = layers & L_COMP != 0;
        // the independent decoder: oracle, and the brotli table / inner stream for the model's inputs
        let cands: Vec<[u8; 32]> = built.privs.iter().map(|s| s.to_bytes()).collect();
        let dec = indep::decode(&built.bytes, &cands);
        let orc: Result<(), String> = match &dec {
            Err(e) => Err(format!("the independent decoder rejects the archive: {e}")),
            Ok(d) => {
                let mut got: Vec<(Vec<u8>, Vec<u8>)> = d.files.iter().map(|f| (f.name.clone(), f.content.clone())).collect();
                let mut exp: Vec<(Vec<u8>, Vec<u8>)> = plan.names.iter().cloned().zip(built.contents.iter().cloned()).collect();
                got.sort();
                exp.sort();
                if got != exp { Err("the independent decoder does not return exactly the files written".into()) } else { Ok(()) }
            }
        };
        let body = &built.bytes[built.header_len..];
        let (model_fn, args): (&'static str, Vec<Value>) = match &dec {
            Err(_) => ("", vec![]),
            Ok(d) => {
                // the block stream below all layers, to read the footer's iteration order
                let mid: Option<Vec<u8>> = if enc {
                    let nfull = body.len() / (ch + tg);
                    let rest = body.len() % (ch + tg);
                    let mut lens = vec![ch; nfull];
                    if rest >= tg { lens.push(rest - tg); }
                    open_chunks(&built.key, &built.nonce, body, &lens).ok()
                } else { Some(body.to_vec()) };
                let inner: Option<Vec<u8>> = if comp { Some(d.brotli.iter().flat_map(|b| b.1.clone()).collect()) } else { mid };
                match inner.as_deref().and_then(footer_names) {
                    None => ("", vec![]),
                    Some(names) => {
                        let hdr = crate::header::parse_header(&built.bytes).ok();
                        let epub = hdr.as_ref().and_then(|p| p.epub).unwrap_or([0; 32]);
                        let shared: Vec<Value> = if enc {
                            built.privs[..plan.recipients.max(1)].iter().map(|s| jbytes(s.diffie_hellman(&PublicKey::from(epub)).as_bytes())).collect()
                        } else { vec![] };
                        let cuts = |rng: &mut Rng| -> Vec<u64> { (0..rng.below(5)).map(|_| *rng.pick(&[0u64, 1, 23, 24, 25, 63, 64, 65, 100, 255, 256, 257, 700])).collect() };
                        let ntab = body.len() / (ch + tg) + 2;
                        ("c01_aw", vec![json!(enc as u64), json!(comp as u64), jbytes(&epub), Value::Array(shared), jbytes(&built.key), jbytes(&built.nonce),
                                        json!(ntab), json!(names), crate::histstack::jtable(&d.brotli), json!(cuts(rng)), json!(cuts(rng)), json!(plan_calls(&plan))])
                    }
                }
            }
        };
        let mut rows = vec![vec![0u64]];
        rows.push(built.bytes.iter().map(|b| *b as u64).collect());
        out.case(&Case {
            id, model_fn, args, imp: json!(rows), oracle_ok: orc.is_ok(), oracle_msg: orc.err().unwrap_or_default(),
            class: format!("layers={} files={} recipients={} bytes={}", layers, plan.names.len(), if enc { plan.recipients.max(1) } else { 0 }, match built.bytes.len() { 0..=199 => "<200", 200..=999 => "<1000", _ => "1000+" }),
            nontrivial: total > 0,
            meta: json!({"layers": layers, "level": plan.level, "archive_len": built.bytes.len(), "pieces": plan.pieces.iter().map(|p| (p.0, p.1.len())).collect::<Vec<_>>()}),
        });
    }
}
