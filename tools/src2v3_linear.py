#!/usr/bin/env python3
"""Tie A, level 1 for helpers::linear_extract and StreamWriter (work package linearT): regenerate
coq/gen/Src3l.v.

Translated statement by statement from /repo/mla/src/helpers.rs (parser: tools/rustmini.py) into Gallina over
an abstract `Stream`, the translated `ArchiveReader` record of gen/Src3d.v and a record standing for the
`export` map (its keys and, in order, what each writer received):

  linear_extract                       -> linear_extract_loop (the 'read_block loop, a Fixpoint on a fuel) and
                                          linear_extract : nat -> ArchiveReader -> Export -> Export * res unit
  StreamWriter::{new, write, flush}    -> StreamWriter_new, sw_write, sw_flush over an abstract ArchiveWriter

theories/SrcTie3Linear.v proves them equal to Reader.linear_extract / lx_loop (for every stream, export list
and fuel) and to Builders.stream_write, and carries the C12 theorems over to the translated function.

Trusted mapping of primitives:
  x.rewind()                                  -> sk S x (FromStart 0)                     (std: seek(SeekFrom::Start(0)))
  io::BufReader::new(&mut x)                  -> x         (TRANSPARENT: the same bytes in the same order; its read-ahead
                                                 is not visible to the function, which owns the reader until it returns)
  ArchiveFileBlock::from(x)                   -> Src3b.ArchiveFileBlock_from ... S x: the TRANSLATED block parser (tools/src2v3_block.py;
                                                 = Blocks.parse_block by SrcTie3Block.block_from_src — no longer a trusted link)
  (&mut x).take(n)                            -> a Take over x with limit n (a local: the limit left after a copy is n - copied)
  io::copy(take, w)                           -> io_copy_take fuel x limit [] (std's generic copy: reads of at most 8192 bytes,
                                                 each handed to w with write_all, until the limit or a read of 0 bytes; Take's
                                                 assertion `n <= limit` is the panic site 901); what had been copied when a read
                                                 fails HAS reached w
  HashMap<ArchiveFileID, String>::{new, insert, remove, get}   -> association list: hm_insert replaces, hm_remove, hm_get
  export: HashMap<&String, W1>                -> Export {ex_keys; ex_log}: contains_key / get_mut = membership in ex_keys; a
                                                 writer is the key it is registered under; a writer ACCEPTS every byte
                                                 (C12_linear_any_sink treats sinks that split writes); io::sink() drops
  loop { .. break 'l .. }                     -> Fixpoint on a fuel (Err EFuel when it runs out); `break` = what follows the loop

FAILS CLOSED per item: anything not recognised -> `Definition <name>_untranslatable : unit := tt.`
"""
import os
import re
import sys

sys.path.insert(0, os.path.dirname(os.path.abspath(__file__)))
import rustmini as R  # noqa: E402
from rustmini import ParseError, strip_paren, show  # noqa: E402

REPO = os.environ.get("VERIF_REPO", "/repo")
OUT = os.environ.get("VERIF_SRC3L_OUT") or os.path.join(os.path.dirname(os.path.abspath(__file__)), "..", "coq", "gen", "Src3l.v")

BLOCK_PATS = {"FileStart": ("PStart", ["id", "filename"]), "FileContent": ("PContent", ["id", "length"]),
              "EndOfFile": ("PEof", ["id", "hash"]), "EndOfArchiveData": ("PEnd", [])}
BLOCK_KINDS = {"id": "N", "length": "N", "filename": "bytes", "hash": "bytes"}


def read_file(rel):
    with open(os.path.join(REPO, rel), encoding="utf-8") as f:
        return f.read()


def strip_tests(src):
    i = src.find("#[cfg(test)]\nmod tests")
    return src if i < 0 else src[:i]


def unref(e):
    e = strip_paren(e)
    while True:
        if e[0] == "un" and e[1] in ("&", "&mut", "*"):
            e = strip_paren(e[2])
        elif e[0] == "mcall" and e[2] in ("by_ref", "clone") and not e[3]:
            e = strip_paren(e[1])
        else:
            return e


class V:
    def __init__(self, text, kind, extra=None):
        self.text, self.kind, self.extra = text, kind, extra


class Ctx:
    def __init__(self):
        self.locals = {}
        self.loop = None      # (label, coq name, [carried rust names], after-loop continuation)

    def copy(self):
        c = Ctx()
        c.locals = dict(self.locals)
        c.loop = self.loop
        return c


class LTr:
    """CPS translation of the body of linear_extract"""

    def __init__(self):
        self.n = 0
        self.loops = []       # emitted Fixpoints

    def fresh(self, base):
        self.n += 1
        return "%s%d" % (re.sub(r"\W", "", base) or "v", self.n)

    def exit(self, c, what):
        return "(%s, %s)" % (c.locals["export"].text, what)

    # ---- places and pure expressions
    def stream_local(self, e, c):
        e = unref(e)
        if e[0] == "path" and e[1] in c.locals and c.locals[e[1]].kind == "stream":
            return e[1]
        return None

    def stream_text(self, e, c):
        """Gallina text of a stream-valued place: a local, or archive.src"""
        u = unref(e)
        if u[0] == "field" and u[2] == "src" and strip_paren(u[1]) == ("path", "archive") and "archive" in c.locals:
            return "(ar_src S %s)" % c.locals["archive"].text
        nm = self.stream_local(e, c)
        if nm is not None:
            return c.locals[nm].text
        raise ParseError("stream place " + show(e)[:50])

    def pe(self, e, c):
        u = unref(e)
        if u[0] == "path" and u[1] in c.locals:
            return c.locals[u[1]]
        if u[0] == "path" and u[1] in ("true", "false"):
            return V(u[1], "bool")
        if u[0] == "un" and u[1] == "!":
            v = self.pe(u[2], c)
            if v.kind != "bool":
                raise ParseError("! on " + v.kind)
            return V("(negb %s)" % v.text, "bool")
        if u[0] == "mcall" and u[2] == "contains_key" and len(u[3]) == 1:
            m, k = self.pe(u[1], c), self.pe(u[3][0], c)
            if m.kind == "export" and k.kind == "bytes":
                return V("(hm_contains_key %s %s)" % (m.text, k.text), "bool")
        if u[0] == "call" and u[1] == ("path", "HashMap::new") and not u[2]:
            return V("[]", "newmap")
        raise ParseError("expression " + show(e)[:70])

    # ---- statements
    def stmts(self, items, tail, c, k):
        if not items:
            if tail is None:
                return k(c)
            return self.tail(strip_paren(tail), c, k)
        st, rest = items[0], items[1:]
        cont = lambda c2: self.stmts(rest, tail, c2, k)
        if st[0] == "let":
            return self.let(st, c, cont)
        return self.effect(strip_paren(st[1]), c, cont)

    def tail(self, t, c, k):
        if t[0] in ("if", "match", "loop", "break", "block"):
            return self.effect(t, c, k)
        if k is not None and t == ("unit",):
            return k(c)
        if t[0] == "call" and t[1] == ("path", "Ok") and len(t[2]) == 1 and strip_paren(t[2][0]) == ("unit",):
            return self.exit(c, "Ok tt")
        raise ParseError("tail expression " + show(t)[:60])

    def let(self, st, c, cont):
        _, pat, ty, e, els = st
        if e is None or els is not None:
            raise ParseError("let form " + R.show_stmt(st)[:60])
        name = re.sub(r"^mut ", "", pat)
        if not re.fullmatch(r"\w+", name):
            raise ParseError("let pattern " + pat)
        u = strip_paren(e)
        # io::BufReader::new(&mut <stream>)  -- transparent
        if u[0] == "call" and u[1][0] == "path" and u[1][1] in ("io::BufReader::new", "BufReader::new") and len(u[2]) == 1:
            c.locals[name] = V(self.stream_text(u[2][0], c), "stream")
            return cont(c)
        # &mut (&mut src).take(length)
        t = unref(u)
        if t[0] == "mcall" and t[2] == "take" and len(t[3]) == 1:
            sl = self.stream_local(t[1], c)
            lim = self.pe(t[3][0], c)
            if sl is None or lim.kind != "N":
                raise ParseError("take " + show(u)[:60])
            c.locals[name] = V("", "take", (sl, lim.text))
            return cont(c)
        v = self.pe(e, c)
        if v.kind == "newmap":
            if ty is None or re.sub(r"\s", "", ty) != "HashMap<ArchiveFileID,String>":
                raise ParseError("type of the map " + str(ty))
            g = name
            c.locals[name] = V(g, "idmap")
            return "let %s : IdMap := [] in\n    %s" % (g, cont(c))
        if v.kind == "bool" and (ty is None or ty.strip() == "bool"):
            c.locals[name] = V(v.text, "bool")
            return cont(c)
        raise ParseError("let value " + R.show_stmt(st)[:60])

    def try_(self, x, c, cont):
        """statement `x?;`"""
        if x[0] == "mcall" and x[2] == "rewind" and not x[3]:
            s1 = self.fresh("s")
            txt = self.stream_text(x[1], c)
            u = unref(x[1])
            c2 = c.copy()
            if u[0] == "field":
                a1 = self.fresh("archive")
                upd = "let %s := set_ar_src S %s %s in\n    " % (a1, c.locals["archive"].text, s1)
                c2.locals["archive"] = V(a1, "archive")
            else:
                upd = ""
                c2.locals[self.stream_local(x[1], c)] = V(s1, "stream")
            return ("match sk S %s (FromStart 0) with\n    | (%s, Ok _) =>\n    %s%s\n    | (_, Err e) => %s\n    | (_, Crash x) => %s\n    end"
                    % (txt, s1, upd, cont(c2), self.exit(c, "Err e"), self.exit(c, "Crash x")))
        if x[0] == "call" and x[1][0] == "path" and x[1][1] in ("io::copy", "std::io::copy") and len(x[2]) == 2:
            a = unref(x[2][0])
            if not (a[0] == "path" and a[1] in c.locals and c.locals[a[1]].kind == "take"):
                raise ParseError("io::copy source " + show(x[2][0]))
            sl, lim = c.locals[a[1]].extra
            b = unref(x[2][1])
            s2, d, r = self.fresh("s"), self.fresh("d"), self.fresh("r")
            c2 = c.copy()
            c2.locals[sl] = V(s2, "stream")
            c2.locals[a[1]] = V("", "take", (sl, "(%s - len %s)" % (lim, d)))
            if b[0] == "path" and b[1] in c.locals and c.locals[b[1]].kind == "writer":
                e1 = self.fresh("export")
                upd = "let %s := writer_receive %s %s %s in\n    " % (e1, c.locals["export"].text, c.locals[b[1]].text, d)
                c2.locals["export"] = V(e1, "export")
            elif b[0] == "call" and b[1][0] == "path" and b[1][1] in ("io::sink", "std::io::sink") and not b[2]:
                upd = ""
            else:
                raise ParseError("io::copy destination " + show(x[2][1]))
            return ("match io_copy_take fuel %s %s [] with\n    | (%s, %s, %s) =>\n    %smatch %s with\n    | Ok _ =>\n    %s\n    | Err e => %s\n    | Crash x => %s\n    end\n    end"
                    % (c.locals[sl].text, lim, s2, d, r, upd, r, cont(c2), self.exit(c2, "Err e"), self.exit(c2, "Crash x")))
        raise ParseError("`?` on " + show(x)[:70])

    def effect(self, e, c, cont):
        k = e[0]
        if k == "try":
            return self.try_(strip_paren(e[1]), c, cont)
        if k == "block":
            return self.stmts(list(e[1]), e[2], c, cont)
        if k == "if":
            return self.if_(e, c, cont)
        if k == "match":
            return self.match(e, c, cont)
        if k == "loop":
            return self.loop(e, c, cont)
        if k == "break":
            if c.loop is None or e[2] is not None or (e[1] is not None and e[1] != c.loop[0]):
                raise ParseError("break " + show(e))
            return c.loop[3](c)
        if k == "mcall":
            m = self.pe(e[1], c) if unref(e[1])[0] == "path" else None
            nm = unref(e[1])[1] if m is not None else None
            if m is not None and m.kind == "idmap" and e[2] == "insert" and len(e[3]) == 2:
                kk, vv = self.pe(e[3][0], c), self.pe(e[3][1], c)
                if kk.kind != "N" or vv.kind != "bytes":
                    raise ParseError("insert arguments")
                g = self.fresh(nm)
                c.locals[nm] = V(g, "idmap")
                return "let %s := hm_insert %s %s %s in\n    %s" % (g, m.text, kk.text, vv.text, cont(c))
            if m is not None and m.kind == "idmap" and e[2] == "remove" and len(e[3]) == 1:
                kk = self.pe(e[3][0], c)
                if kk.kind != "N":
                    raise ParseError("remove argument")
                g = self.fresh(nm)
                c.locals[nm] = V(g, "idmap")
                return "let %s := hm_remove %s %s in\n    %s" % (g, m.text, kk.text, cont(c))
        if k == "assign" and e[1] == "=":
            lhs = strip_paren(e[2])
            if lhs[0] == "path" and lhs[1] in c.locals and c.locals[lhs[1]].kind == "bool":
                v = self.pe(e[3], c)
                if v.kind != "bool":
                    raise ParseError("assignment value")
                c.locals[lhs[1]] = V(v.text, "bool")
                return cont(c)
        raise ParseError("statement " + show(e)[:70])

    def if_(self, e, c, cont):
        _, cond, th, el = e
        if cond[0] == "letcond":
            m = re.fullmatch(r"Some\((\w+)\)", cond[1])
            u = unref(cond[2])
            if not m or el is not None or u[0] != "mcall" or len(u[3]) != 1:
                raise ParseError("if let " + show(cond)[:60])
            recv, key = self.pe(u[1], c), self.pe(u[3][0], c)
            g = self.fresh(m.group(1))
            c1, c2 = c.copy(), c.copy()
            if recv.kind == "idmap" and u[2] == "get" and key.kind == "N":
                c1.locals[m.group(1)] = V(g, "bytes")
                op = "hm_get %s %s" % (recv.text, key.text)
            elif recv.kind == "export" and u[2] == "get_mut" and key.kind == "bytes":
                c1.locals[m.group(1)] = V(g, "writer")
                op = "export_get_mut %s %s" % (recv.text, key.text)
            else:
                raise ParseError("if let " + show(cond)[:60])
            a = self.stmts(list(th[1]), th[2], c1, cont)
            return "match %s with\n    | Some %s =>\n    %s\n    | None =>\n    %s\n    end" % (op, g, a, cont(c2))
        cv = self.pe(cond, c)
        if cv.kind != "bool":
            raise ParseError("condition " + show(cond)[:60])
        c1, c2 = c.copy(), c.copy()
        a = self.stmts(list(th[1]), th[2], c1, cont)
        if el is None:
            b = cont(c2)
        elif el[0] == "if":
            b = self.if_(el, c2, cont)
        else:
            b = self.stmts(list(el[1]), el[2], c2, cont)
        return "if %s then\n    %s\n    else\n    %s" % (cv.text, a, b)

    def match(self, e, c, cont):
        scrut = strip_paren(e[1])
        if not (scrut[0] == "try" and strip_paren(scrut[1])[0] == "call" and strip_paren(scrut[1])[1] == ("path", "ArchiveFileBlock::from")
                and len(strip_paren(scrut[1])[2]) == 1):
            raise ParseError("match on " + show(scrut)[:60])
        sl = self.stream_local(strip_paren(scrut[1])[2][0], c)
        if sl is None:
            raise ParseError("ArchiveFileBlock::from argument")
        s1, blk = self.fresh("s"), self.fresh("blk")
        c0 = c.copy()
        c0.locals[sl] = V(s1, "stream")
        out, seen = [], []
        for pat, guard, body in e[2]:
            if guard is not None:
                raise ParseError("match guard")
            mm = re.fullmatch(r"ArchiveFileBlock::(\w+)(?:\{([\w,.]*)\})?", pat)
            if not mm or mm.group(1) not in BLOCK_PATS:
                raise ParseError("block pattern " + pat)
            con, fl = BLOCK_PATS[mm.group(1)]
            parts = (mm.group(2) or "").split(",")
            named = [f for f in parts if f and f != ".."]
            if any(f not in fl for f in named) or (".." not in parts and sorted(named) != sorted(fl)):
                raise ParseError("fields of " + pat)
            c2 = c0.copy()
            args = []
            for f in fl:
                if f in named:
                    g = self.fresh(f)
                    c2.locals[f] = V(g, BLOCK_KINDS[f])
                    args.append(g)
                else:
                    args.append("_")
            seen.append(mm.group(1))
            b = strip_paren(body)
            if b[0] != "block":
                raise ParseError("arm body")
            out.append("| %s =>\n    %s" % (con + "".join(" " + a for a in args), self.stmts(list(b[1]), b[2], c2, cont)))
        if sorted(seen) != sorted(BLOCK_PATS):
            raise ParseError("match on the block not exhaustive / repeated arms")
        return ("match ArchiveFileBlock_from %s with\n    | (%s, Ok %s) =>\n    match %s with\n    %s\n    end\n    | (_, Err e) => %s\n    | (_, Crash x) => %s\n    end"
                % (c.locals[sl].text, s1, blk, blk, "\n    ".join(out), self.exit(c, "Err e"), self.exit(c, "Crash x")))

    def loop(self, e, c, cont):
        if c.loop is not None:
            raise ParseError("nested loop")
        carried = [n for n, v in c.locals.items() if v.kind in ("stream", "export", "idmap")]
        types = {"stream": "st S", "export": "Export", "idmap": "IdMap"}
        name = "linear_extract_loop"
        ci = Ctx()
        for n, v in c.locals.items():
            if n in carried:
                ci.locals[n] = V(n, v.kind)
            elif v.kind == "archive":
                pass      # borrowed by the BufReader for the rest of the function
            else:
                raise ParseError("local %s live at the loop" % n)
        def again(c2):
            return "%s fuel' %s" % (name, " ".join(c2.locals[n].text for n in carried))
        ci.loop = (e[1], name, carried, cont)
        body = self.stmts(list(e[2][1]), e[2][2], ci, again)
        self.loops.append(
            "Fixpoint %s (fuel : nat) %s {struct fuel} : Export * res unit :=\n    match fuel with\n    | O => (export, Err EFuel)\n    | Datatypes.S fuel' =>\n    %s\n    end."
            % (name, " ".join("(%s : %s)" % (n, types[c.locals[n].kind]) for n in carried), body))
        return "%s fuel %s" % (name, " ".join(c.locals[n].text for n in carried))


def fn_params(header):
    i = header.index("(")
    depth, j = 0, i
    while True:
        if header[j] == "(":
            depth += 1
        elif header[j] == ")":
            depth -= 1
            if depth == 0:
                break
        j += 1
    ps, depth, cur = [], 0, ""
    for ch in header[i + 1:j]:
        if ch in "<([":
            depth += 1
        elif ch in ">)]":
            depth -= 1
        if ch == "," and depth == 0:
            ps.append(cur)
            cur = ""
        else:
            cur += ch
    if cur.strip():
        ps.append(cur)
    out = []
    for p in ps:
        p = re.sub(r"\s+", " ", p.strip())
        if re.fullmatch(r"&?\s*(mut )?self", p) or p == "&mut self":
            out.append(("self", p))
        else:
            nm, ty = p.split(":", 1)
            out.append((re.sub(r"^mut ", "", nm.strip()), re.sub(r"\s+", "", ty)))
    return out


PREAMBLE = r"""
(* ---- mirrors of the Rust data ---- *)
(* HashMap<ArchiveFileID, String>: `insert` replaces, `remove`, `get` *)
Definition IdMap := list (N * bytes).
Fixpoint hm_get (m : IdMap) (k : N) : option bytes :=
  match m with [] => None | (k', v) :: r => if k' =? k then Some v else hm_get r k end.
Fixpoint hm_remove (m : IdMap) (k : N) : IdMap :=
  match m with [] => [] | (k', v) :: r => if k' =? k then hm_remove r k else (k', v) :: hm_remove r k end.
Definition hm_insert (m : IdMap) (k : N) (v : bytes) : IdMap := (k, v) :: hm_remove m k.
(* export: HashMap<&String, W1> — its keys, and what the writers received so far, in order, as (key, piece).
   A writer (`get_mut`) is the key it is registered under; it accepts every byte it is handed. *)
Record Export := mkExport { ex_keys : list bytes; ex_log : list (bytes * bytes) }.
Definition hm_contains_key (e : Export) (k : bytes) : bool := existsb (bytes_eqb k) (ex_keys e).
Definition export_get_mut (e : Export) (k : bytes) : option bytes := if hm_contains_key e k then Some k else None.
Definition writer_receive (e : Export) (w d : bytes) : Export := mkExport (ex_keys e) (ex_log e ++ [(w, d)]).

Section LinearSrc.
  Variable S : Stream.
  Variables FNMAX T_START T_CONTENT T_EOA T_EOF : N.
  (* ArchiveFileBlock::from: the TRANSLATED block parser of gen/Src3b.v (tools/src2v3_block.py; equal to
     Blocks.parse_block by SrcTie3Block.block_from_src).  636 labels the arm "read_exact(1) holds another
     number of bytes", which is never taken (SrcTie3Block.block_from_site_irrelevant) *)
  Notation ArchiveFileBlock_from := (Src3b.ArchiveFileBlock_from S FNMAX T_START T_CONTENT T_EOA T_EOF 636).
  Notation ArchiveReader := (Src3d.ArchiveReader S).

  (* std::io::copy(&mut x.take(limit), w): reads of at most DEFAULT_BUF_SIZE = 8192 bytes (Take::read asks for
     min(limit, 8192) and asserts that it got no more than the limit: panic site 901), each handed to the
     writer, until the limit is used up or a read returns 0 bytes.  Returns the stream, the bytes that
     reached the writer, and how the copy ended. *)
  Fixpoint io_copy_take (fuel : nat) (s : st S) (limit : N) (acc : bytes) {struct fuel} : st S * bytes * res unit :=
    if limit =? 0 then (s, acc, Ok tt) else
    match fuel with
    | O => (s, acc, Err EFuel)
    | Datatypes.S fuel' =>
      match rd S s (N.min limit 8192) with
      | (s1, Ok d) =>
        if len d =? 0 then (s1, acc, Ok tt)
        else if limit <? len d then (s1, acc, Crash 901)
        else io_copy_take fuel' s1 (limit - len d) (acc ++ d)
      | (s1, Err e) => (s1, acc, Err e)
      | (s1, Crash c) => (s1, acc, Crash c)
      end
    end.
"""


def linear_extract_item(helpers):
    r = R.fn_text(helpers, "linear_extract")
    if r is None:
        raise ParseError("fn linear_extract not found")
    got = fn_params(r[2])
    if got != [("archive", "&mutArchiveReader<R>"), ("export", "&mutHashMap<&String,W1,S>")]:
        raise ParseError("parameters of linear_extract changed: %s" % got)
    if not re.search(r"->\s*Result<\(\),\s*Error>", r[2]):
        raise ParseError("return type of linear_extract")
    body = R.parse_body(r[0])
    tr = LTr()
    c = Ctx()
    c.locals["archive"] = V("archive", "archive")
    c.locals["export"] = V("export", "export")
    g = tr.stmts(list(body[1]), body[2], c, None)
    if len(tr.loops) != 1:
        raise ParseError("linear_extract: expected one loop")
    return ("(* mla/src/helpers.rs:%d fn linear_extract *)\n  %s\n  Definition linear_extract (fuel : nat) (archive : ArchiveReader) (export : Export) : Export * res unit :=\n    %s."
            % (r[1], tr.loops[0], g))


SW_PREAMBLE = r"""
(* ---- helpers::StreamWriter over an abstract ArchiveWriter ---- *)
Section StreamWriterSrc.
  Variable AW : Type.                                                  (* ArchiveWriter<'a, W> *)
  Variable append_file_content : AW -> N -> N -> bytes -> AW * res unit.   (* (id, size, src) *)
  Variable archive_flush : AW -> AW * res unit.
  Record StreamWriter := mkSW { sw_archive : AW; sw_file_id : N }.
  Definition set_sw_archive (s : StreamWriter) (a : AW) : StreamWriter := mkSW a (sw_file_id s).
"""


def stream_writer_items(helpers):
    out = []
    fields = re.search(r"pub struct StreamWriter<'a, 'b, W: InnerWriterTrait> \{\s*archive: &'b mut ArchiveWriter<'a, W>,\s*file_id: ArchiveFileID,\s*\}", helpers)
    if not fields:
        raise ParseError("struct StreamWriter changed")
    # new
    r = R.fn_text(helpers, "new", 0, r"impl<'a, 'b, W: InnerWriterTrait> StreamWriter<'a, 'b, W> \{")
    if r is None:
        raise ParseError("StreamWriter::new not found")
    if [p for p, _ in fn_params(r[2])] != ["archive", "file_id"]:
        raise ParseError("parameters of StreamWriter::new")
    b = R.parse_body(r[0])
    t = strip_paren(b[2]) if b[2] is not None else None
    if b[1] or t is None or t[0] != "struct" or t[1] != "Self" or sorted(f for f, _ in t[2]) != ["archive", "file_id"]:
        raise ParseError("StreamWriter::new body")
    fl = dict(t[2])
    for f in ("archive", "file_id"):
        if strip_paren(fl[f]) != ("path", f):
            raise ParseError("StreamWriter::new field " + f)
    out.append("(* mla/src/helpers.rs:%d StreamWriter::new *)\n  Definition StreamWriter_new (archive : AW) (file_id : N) : StreamWriter := mkSW archive file_id." % r[1])
    # write
    W = r"impl<W: InnerWriterTrait> Write for StreamWriter<'_, '_, W> \{"
    r = R.fn_text(helpers, "write", 0, W)
    if r is None or [p for p, _ in fn_params(r[2])] != ["self", "buf"]:
        raise ParseError("StreamWriter::write not found / parameters")
    b = R.parse_body(r[0])

    def sw_expr(e):
        u = unref(e)
        if u == ("path", "buf"):
            return "buf"
        if u[0] == "field" and strip_paren(u[1]) == ("path", "self") and u[2] == "file_id":
            return "(sw_file_id self)"
        if u[0] == "cast" and u[2] in ("u64", "usize"):
            return sw_expr(u[1])
        if u[0] == "mcall" and u[2] == "len" and not u[3] and unref(u[1]) == ("path", "buf"):
            return "(len buf)"
        raise ParseError("StreamWriter expression " + show(e)[:50])

    selfv = "self"
    text = ""
    for st in b[1]:
        e = strip_paren(st[1]) if st[0] in ("semi", "expr") else None
        if e is None or e[0] != "try":
            raise ParseError("StreamWriter::write statement " + R.show_stmt(st)[:60])
        x = strip_paren(e[1])
        if not (x[0] == "mcall" and x[2] == "append_file_content" and len(x[3]) == 3 and show(strip_paren(x[1])) == "self.archive"):
            raise ParseError("StreamWriter::write call " + show(x)[:60])
        args = [sw_expr(a) for a in x[3]]
        text += ("match append_file_content (sw_archive %s) %s with\n    | (a1, Ok _) =>\n    let self1 := set_sw_archive %s a1 in\n    " % (selfv, " ".join(args), selfv))
        closing = "\n    | (a1, Err e) => (set_sw_archive %s a1, Err e)\n    | (a1, Crash x) => (set_sw_archive %s a1, Crash x)\n    end" % (selfv, selfv)
        selfv = "self1"
        if len(b[1]) != 1:
            raise ParseError("StreamWriter::write: more than one statement")
    t = strip_paren(b[2]) if b[2] is not None else None
    if t is None or not (t[0] == "call" and t[1] == ("path", "Ok") and len(t[2]) == 1):
        raise ParseError("StreamWriter::write tail")
    text += "(%s, Ok %s)" % (selfv, sw_expr(t[2][0])) + (closing if b[1] else "")
    out.append("(* mla/src/helpers.rs:%d StreamWriter::write *)\n  Definition sw_write (self : StreamWriter) (buf : bytes) : StreamWriter * res N :=\n    %s." % (r[1], text))
    # flush
    r = R.fn_text(helpers, "flush", 0, W)
    if r is None or [p for p, _ in fn_params(r[2])] != ["self"]:
        raise ParseError("StreamWriter::flush not found / parameters")
    b = R.parse_body(r[0])
    if b[1] or b[2] is None or show(strip_paren(b[2])) != "self.archive.flush()":
        raise ParseError("StreamWriter::flush body")
    out.append("(* mla/src/helpers.rs:%d StreamWriter::flush *)\n  Definition sw_flush (self : StreamWriter) : StreamWriter * res unit :=\n    let '(a1, r) := archive_flush (sw_archive self) in (set_sw_archive self a1, r)." % r[1])
    return out


def generate():
    out = ["(* GENERATED by tools/src2v3_linear.py from %s — do not edit. *)" % REPO,
           "From MLA Require Import Base Stream Blocks.", "From MLAGen Require Src3b.", "From MLAGen Require Import Src3d.", "Open Scope N_scope.", PREAMBLE]
    helpers = strip_tests(read_file("mla/src/helpers.rs"))
    try:
        out.append("  " + linear_extract_item(helpers))
    except Exception as e:   # fail closed, per item
        out.append("  (* linear_extract: %s *)" % str(e).replace("*)", "* )"))
        out.append("  Definition linear_extract_untranslatable : unit := tt.")
    out.append("End LinearSrc.")
    out.append(SW_PREAMBLE)
    try:
        for t in stream_writer_items(helpers):
            out.append("  " + t)
    except Exception as e:
        out.append("  (* StreamWriter: %s *)" % str(e).replace("*)", "* )"))
        out.append("  Definition stream_writer_untranslatable : unit := tt.")
    out.append("End StreamWriterSrc.")
    return "\n".join(out) + "\n"


def main():
    try:
        text = generate()
    except Exception as e:  # fail closed as a whole
        text = "(* GENERATED: tools/src2v3_linear.py failed: %s *)\nDefinition src3l_untranslatable : unit := tt.\n" % str(e).replace("*)", "* )")
    outp = os.path.normpath(OUT)
    old = None
    if os.path.exists(outp):
        with open(outp) as f:
            old = f.read()
    if old != text:
        with open(outp, "w") as f:
            f.write(text)
        print("src2v3_linear: wrote", outp)
    else:
        print("src2v3_linear: unchanged", outp)


if __name__ == "__main__":
    main()
