#!/bin/bash
# tools/mkworkcopy.sh <name>: private copy of /verif for a work-package agent (under /tmp/wp/<name>/verif)
set -e
W=/tmp/wp/$1/verif
rm -rf /tmp/wp/$1
mkdir -p /tmp/wp/$1
rsync -a --exclude .git --exclude work --exclude replay --exclude '.build/repo-*' /verif/ $W/
mkdir -p $W/work $W/replay
( cd $W/coq && coq_makefile -f _CoqProject -o Makefile >/dev/null 2>&1 )
echo $W
