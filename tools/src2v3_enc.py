#!/usr/bin/env python3
"""Tie A, level 1 for the READING side of the encryption layer (work package encT): regenerate coq/gen/Src3e.v.

Translated statement by statement from /repo/mla/src/layers/encrypt.rs (parser: tools/rustmini.py, generic
CPS machinery: tools/src2v3_reader.py class Tr) into Gallina over an abstract inner `Stream` (Stream.v) and the
abstract cipher `ks` / `tagc` of theories/EncLayer.v:

  no_tag_position_to_tag_position, const CHUNK_TAG_SIZE
  EncryptionLayerInternal::{new, load_in_cache, load_in_cache_unauthenticated, read_internal,
                            read_internal_unauthenticated}, its Read::read and Seek::seek (three arms)
  EncryptionLayerReader::{new, initialize, read, seek}
  EncryptionLayerFailSafeReader::{new, read}
  EncryptionReaderConfig::load_persistent

theories/SrcTie3Enc*.v prove the generated functions equal to / simulated by the model (EncLayer.eload,
eload_unauth, eread_gen, eread, eseek, enc_open, fs_open, fs_read; Ecies.load_persistent).

TRUSTED PRIMITIVE TABLE (what a Rust form is taken to mean; everything else is translated or refused):
  AesGcm256::new(&self.key, &build_nonce(self.nonce, n), b"")?   ->  AesGcm256_new n        (a cipher object for counter n;
       key and nonce prefix are fixed for the life of the reader: they are not fields of the record, every other use
       of `self.key` / `self.nonce` and every assignment to them is refused; `new` cannot fail on a 32-byte key)
  c.decrypt(d)                   ->  AesGcm256_decrypt c d = (c', d xor ks ctr off.., tagc ctr (seen ++ d))   [tag over the CIPHERTEXT]
  c.decrypt_unauthenticated(d)   ->  AesGcm256_decrypt_unauthenticated c d = (c', d xor ks ctr off..)
  a.ct_eq(&b).unwrap_u8() == 1   ->  ct_eq a b = bytes_eqb a b
  (old_cipher.into_tag() is used by the writer only: gen/Src2.v)
  x.seek(SeekFrom::..)? / x.read(buf)                     ->  sk S x .. / rd S x ..                       (inner layer)
  (&mut x).take(n).read_to_end(&mut v)?                   ->  read_full S fuel_rd x n   (v ++= got; value = len got)
  io::copy(&mut (&mut x).take(n), &mut io::sink())?       ->  read_full S fuel_rd x n   (bytes dropped)
  x.initialize()?  (the inner LayerReader's)              ->  section variable inner_initialize
  self.rewind()?                                          ->  seek(SeekFrom::Start(0))  (std's default)
  Cursor<Vec<u8>> chunk_cache     ->  two fields (data, position): Cursor::new(v) = (v, 0); position(); seek(Start(p)) = (v, p), never fails;
                                      read(&mut buf[..n]) = Stream.cursor_rd (clipped slice, position advanced by what was got)
  Vec::new() / Vec::with_capacity(n) -> []      [0u8; n] -> zeros n      v.resize(n, x) -> vec_resize v n x
  t.copy_from_slice(&v[a..])      ->  Crash site_index unless a <= len v and len t = len v - a; then t := dropN a v
  buf[..n]                        ->  Crash site_index when n > buf.len()
  a - b (u64/usize)               ->  Crash site_sub when a < b
  u32 `+= 1` / `-= 1`             ->  Crash site_add when the result is 2^32 / Crash site_sub below 0 (debug profile; the model's site 419)
  a.saturating_sub(b)             ->  a - b on N (truncated)
  u64 `+`, `*`, i64 `+`           ->  unbounded (as in the hand-written model; the D20 guard is translated as written)
  a / b, a % b                    ->  N division (the divisors are the positive constants CHUNK_SIZE / CHUNK_TAG_SIZE)
  u32::try_from(x).map_err(E)?    ->  Err E when 2^32 <= x
  i64::try_from(x).map_err(E)?    ->  Err E when 2^63 <= x;   i64::try_from(x).unwrap() -> Crash site_unwrap when 2^63 <= x
  u64::try_from(z).map_err(E)?    ->  Err E when z < 0        usize::try_from(u64) -> identity (64-bit targets)
  a.checked_add(b).ok_or_else(E)? (i64) -> Err E outside [-2^63, 2^63)      a.checked_sub(b).ok_or_else(E)? -> Err E when a < b
  Option<()> results              ->  bool (Some(()) = true)
  a recursive `self.f(..)` in tail position -> Fixpoint on a fuel (Err EFuel when it runs out)
  retrieve_key(&config.multi_recipient, k) -> section variable retrieve_key (Ecies.retrieve_key in the tie)

FAILS CLOSED per item: anything not recognised -> `Definition <name>_untranslatable : unit := tt.`
"""
import os
import re
import sys

sys.path.insert(0, os.path.dirname(os.path.abspath(__file__)))
import rustmini as R  # noqa: E402
from rustmini import ParseError, strip_paren, show  # noqa: E402
import src2v3_reader as RD  # noqa: E402
from src2v3_reader import V, Ctx, is_call, unref, err_of, fn_params, struct_fields, enum_variants  # noqa: E402

REPO = os.environ.get("VERIF_REPO", "/repo")
OUT = os.environ.get("VERIF_SRC3E_OUT") or os.path.join(os.path.dirname(os.path.abspath(__file__)), "..", "coq", "gen", "Src3e.v")
FILE = "mla/src/layers/encrypt.rs"

# widen the shared tables (adding keys only)
RD.ERR_NAMES.update({"Error::AuthenticatedDecryptionWrongTag": "EWrongTag", "Error::EndOfStream": "EEos",
                     "Error::PrivateKeyNeeded": "EKey"})
RD.STRUCTS.update({
    "EncryptionLayerInternal": ("mkELI", [("inner", "eli_inner", "stream"), ("cipher", "eli_cipher", "gcm"),
                                          ("current_chunk_number", "eli_chunk", "u32")]),
    "EncryptionLayerFailSafeReader": ("mkFS", [("internal", "fs_internal", "eli"),
                                               ("decryption_mode", "fs_mode", "enum:FailSafeReaderDecryptionMode")]),
})
CONSTS = {"CHUNK_SIZE": "CHUNK_SIZE", "TAG_LENGTH": "TAG_LENGTH", "CHUNK_TAG_SIZE": "CHUNK_TAG_SIZE", "u64::MAX": "U64_MAX"}
ARITH = ("+", "*", "/", "%", "-")
CMP = ("==", "!=", "<", "<=", ">", ">=")
INTO = ("std::convert::Into::into", "Into::into")


def zlit(v):
    """text of a value in Z scope (i64 context)"""
    if v.kind == "Z":
        return v.text
    if v.kind == "N" and re.fullmatch(r"\d+", v.text):
        return "%s%%Z" % v.text
    raise ParseError("u64 value %s in an i64 operation" % v.text)


def is_self_field(e, name):
    e = strip_paren(e)
    return e[0] == "field" and strip_paren(e[1]) == ("path", "self") and e[2] == name


class TrE(RD.Tr):
    def __init__(self, methods, enums, fn_name=None):
        RD.Tr.__init__(self, methods, enums)
        self.u64_fields = set()
        self.fn_name = fn_name      # rust name of the function being translated (recursion)

    # ------------------------------------------------------------ pure expressions
    def pe(self, e, c):
        e = strip_paren(e)
        k = e[0]
        if k == "path" and e[1] in CONSTS and e[1] not in c.locals:
            return V(CONSTS[e[1]])
        if k == "mcall" and e[2] == "position" and not e[3] and is_self_field(e[1], "chunk_cache") and c.struct == "EncryptionLayerInternal":
            return V("(eli_cache_pos %s)" % c.self)
        if k == "mcall" and e[2] == "len" and not e[3]:
            r0 = unref(e[1])
            if r0[0] == "path" and r0[1] in c.locals and c.locals[r0[1]].kind == "bytes":
                return V("(len %s)" % c.locals[r0[1]].text)
        if k == "field" and strip_paren(e[1]) == ("path", "self") and c.struct:
            for f, acc, kind in RD.STRUCTS[c.struct][1]:
                if f == e[2] and kind == "u32":
                    return V("(%s %s)" % (acc, c.self))
                if f == e[2] and kind in ("gcm", "eli"):
                    return V("(%s %s)" % (acc, c.self), kind)
        if k == "bin" and e[1] == "==" and strip_paren(e[3]) == ("int", 1):
            l = strip_paren(e[2])
            if l[0] == "mcall" and l[2] == "unwrap_u8" and not l[3]:
                q = strip_paren(l[1])
                if q[0] == "mcall" and q[2] == "ct_eq" and len(q[3]) == 1:
                    a, b = self.pe(q[1], c), self.pe(q[3][0], c)
                    if a.kind != "bytes" or b.kind != "bytes":
                        raise ParseError("ct_eq operands")
                    return V("(ct_eq %s %s)" % (a.text, b.text), "bool")
        return RD.Tr.pe(self, e, c)

    def binop(self, op, a, b, c, k):
        if a.kind == "Z" or b.kind == "Z":
            x, y = zlit(a), zlit(b)
            if op == "+":
                return k(V("(%s + %s)%%Z" % (x, y), "Z"), c)
            tbl = {"==": "(%s =? %s)%%Z", "!=": "(negb (%s =? %s)%%Z)", "<": "(%s <? %s)%%Z", "<=": "(%s <=? %s)%%Z"}
            if op == ">":
                return k(V("(%s <? %s)%%Z" % (y, x), "bool"), c)
            if op == ">=":
                return k(V("(%s <=? %s)%%Z" % (y, x), "bool"), c)
            if op in tbl:
                return k(V(tbl[op] % (x, y), "bool"), c)
            raise ParseError("i64 operator " + op)
        x, y = a.num(), b.num()
        if op == "-":
            return "if %s <? %s then %s else\n    %s" % (x, y, self.fail(c, "Crash site_sub"), k(V("(%s - %s)" % (x, y)), c))
        if op in ("+", "*", "/"):
            return k(V("(%s %s %s)" % (x, op, y)), c)
        if op == "%":
            return k(V("(%s mod %s)" % (x, y)), c)
        tbl = {"==": "(%s =? %s)", "!=": "(negb (%s =? %s))", "<": "(%s <? %s)", "<=": "(%s <=? %s)"}
        if op == ">":
            return k(V("(%s <? %s)" % (y, x), "bool"), c)
        if op == ">=":
            return k(V("(%s <=? %s)" % (y, x), "bool"), c)
        return k(V(tbl[op] % (x, y), "bool"), c)

    # ------------------------------------------------------------ values with effects / checks
    def val(self, e, c, k):
        e = strip_paren(e)
        kind = e[0]
        if kind == "bin" and (e[1] in ARITH or e[1] in CMP):
            special = None
            try:
                special = self.pe(e, c) if e[1] == "==" and "ct_eq" in show(e) else None
            except ParseError:
                special = None
            if special is not None:
                return k(special, c)
            return self.val(e[2], c, lambda a, c1: self.val(e[3], c1, lambda b, c2: self.binop(e[1], a, b, c2, k)))
        if kind == "cast" and e[2] in ("u64", "usize"):
            return self.val(e[1], c, lambda v, c2: k(V(v.num()), c2))
        if kind == "repeat":
            if strip_paren(e[1]) != ("int", 0):
                raise ParseError("array initialiser " + show(e))
            return k(V("(zeros %s)" % self.pe(e[2], c).num(), "bytes"), c)
        if kind == "if":
            return self.if_(e, c, None, k)
        if kind == "call" and e[1][0] == "path":
            fn, args = e[1][1], e[2]
            if fn == "Vec::new" and not args:
                return k(V("[]", "bytes"), c)
            if fn == "Vec::with_capacity" and len(args) == 1:
                return self.val(args[0], c, lambda v, c2: (v.num(), k(V("[]", "bytes"), c2))[1])
            if fn in ("std::cmp::min", "cmp::min") and len(args) == 2:
                return self.val(args[0], c, lambda a, c1: self.val(args[1], c1, lambda b, c2: k(V("(N.min %s %s)" % (a.num(), b.num())), c2)))
            if fn in self.methods and self.methods[fn][2] == "purefn":
                if len(args) != 1:
                    raise ParseError("arguments of " + fn)
                return self.val(args[0], c, lambda a, c1: k(V("(%s %s)" % (self.methods[fn][0], a.num())), c1))
        if kind == "mcall":
            recv, m, args = e[1], e[2], e[3]
            if m == "is_none" and not args:
                def kn(v, c2):
                    if v.kind != "optunit":
                        raise ParseError("is_none on " + v.kind)
                    return k(V("(negb %s)" % v.text, "bool"), c2)
                return self.val(recv, c, kn)
            if m == "saturating_sub" and len(args) == 1:
                return self.val(recv, c, lambda a, c1: self.val(args[0], c1, lambda b, c2: k(V("(%s - %s)" % (a.num(), b.num())), c2)))
            if m == "unwrap" and not args and is_call(recv, "i64::try_from", 1):
                def ku(v, c2):
                    x = v.num()
                    return "if 2 ^ 63 <=? %s then %s else\n    %s" % (x, self.fail(c2, "Crash site_unwrap"), k(V("(Z.of_N %s)" % x, "Z"), c2))
                return self.val(strip_paren(recv)[2][0], c, ku)
            if m in ("decrypt", "decrypt_unauthenticated") and len(args) == 1 and is_self_field(recv, "cipher") and c.struct == "EncryptionLayerInternal":
                return self.decrypt(m, args[0], c, k)
        return RD.Tr.val(self, e, c, k)

    def local_vec(self, e, c):
        """rust name of the local Vec denoted by `v`, `&mut v`, `v.as_mut_slice()`"""
        e = unref(e)
        if e[0] == "mcall" and e[2] in ("as_mut_slice", "as_slice") and not e[3]:
            e = unref(e[1])
        if e[0] == "path" and e[1] in c.locals and c.locals[e[1]].kind == "bytes":
            return e[1]
        raise ParseError("local buffer " + show(e)[:40])

    def decrypt(self, m, arg, c, k):
        name = self.local_vec(arg, c)
        c1, d1, t1 = self.fresh("cipher"), self.fresh(name), self.fresh("tag")
        self1 = self.fresh("self")
        c2 = c.copy()
        c2.self = self1
        c2.locals[name] = V(d1, "bytes")
        if m == "decrypt":
            head = "let '(%s, %s, %s) := AesGcm256_decrypt (eli_cipher %s) %s in" % (c1, d1, t1, c.self, c.locals[name].text)
        else:
            head = "let '(%s, %s) := AesGcm256_decrypt_unauthenticated (eli_cipher %s) %s in" % (c1, d1, c.self, c.locals[name].text)
        return "%s\n    let %s := set_eli_cipher %s %s in\n    %s" % (head, self1, c.self, c1, k(V(t1, "bytes"), c2))

    def take_of_stream(self, e, c):
        """(&mut x).take(n) -> (place, n text)"""
        e = unref(e)
        if e[0] == "mcall" and e[2] == "take" and len(e[3]) == 1:
            place = self.stream_place(e[1], c)
            if place is not None:
                holder = []
                self.val(e[3][0], c, lambda v, c2: holder.append(v.num()) or "")
                return place, holder[0]
        raise ParseError("take(..) of the inner layer: " + show(e)[:50])

    def self_call(self, coq, fuelled, c, args):
        return "%s%s %s%s" % (coq, " fuel" if fuelled else "", c.self, "".join(" " + a for a in args))

    def try_val(self, x, c, k):
        if x[0] == "call" and x[1][0] == "path":
            fn, args = x[1][1], x[2]
            if fn == "AesGcm256::new" and len(args) == 3:
                if show(args[0]) != "&self.key" or show(args[2]) != 'b""':
                    raise ParseError("AesGcm256::new arguments " + show(x)[:60])
                bn = unref(args[1])
                if not (is_call(bn, "build_nonce", 2) and show(bn[2][0]) == "self.nonce"):
                    raise ParseError("nonce of the cipher " + show(args[1])[:50])
                return k(V("(AesGcm256_new %s)" % self.pe(bn[2][1], c).num(), "gcm"), c)
            if fn in ("io::copy", "std::io::copy") and len(args) == 2:
                if show(unref(args[1])) != "io::sink()":
                    raise ParseError("io::copy destination " + show(args[1]))
                place, n = self.take_of_stream(args[0], c)
                return self.stream_op(place, "read_full S fuel_rd %s %s" % (self.stream_get(place, c), n), c, k, "dropped", "bytes")
        if x[0] == "mcall":
            recv, m, args = x[1], x[2], x[3]
            r0 = strip_paren(recv)
            if m == "read_to_end" and len(args) == 1:
                place, n = self.take_of_stream(recv, c)
                name = self.local_vec(args[0], c)
                def kr(got, c2):
                    old = c2.locals[name].text
                    c2.locals[name] = V(got.text if old == "[]" else "(%s ++ %s)" % (old, got.text), "bytes")
                    return k(V(got.text, "count"), c2)
                return self.stream_op(place, "read_full S fuel_rd %s %s" % (self.stream_get(place, c), n), c, kr, "got", "bytes")
            if m == "seek" and len(args) == 1 and is_self_field(recv, "chunk_cache") and c.struct == "EncryptionLayerInternal":
                a = strip_paren(args[0])
                if not is_call(a, "SeekFrom::Start", 1):
                    raise ParseError("seek of the chunk cache " + show(a))
                def ks_(v, c2):
                    self1 = self.fresh("self")
                    c3 = c2.copy()
                    c3.self = self1
                    return "let %s := set_eli_cache_pos %s %s in\n    %s" % (self1, c2.self, v.num(), k(V(v.num()), c3))
                return self.val(a[2][0], c, ks_)
            if m == "initialize" and not args:
                place = self.stream_place(recv, c)
                if place is not None:
                    return self.stream_op(place, "inner_initialize %s" % self.stream_get(place, c), c, k, "u", "unit")
            if m == "rewind" and not args and r0 == ("path", "self") and "seek" in self.methods:
                coq, rk, shape, fuelled = self.methods["seek"]
                return self.call_self(self.self_call(coq, fuelled, c, ["(FromStart 0)"]), c, k, rk)
            if m == "map_err" and len(args) == 1 and r0[0] == "call" and r0[1][0] == "path" and len(r0[2]) == 1:
                conv = r0[1][1]
                if conv in ("u32::try_from", "i64::try_from", "u64::try_from"):
                    er = err_of(args[0])
                    def kc(v, c2):
                        if conv == "u32::try_from":
                            return "if 2 ^ 32 <=? %s then %s else\n    %s" % (v.num(), self.fail(c2, "Err " + er), k(V(v.num()), c2))
                        if conv == "i64::try_from":
                            return "if 2 ^ 63 <=? %s then %s else\n    %s" % (v.num(), self.fail(c2, "Err " + er), k(V("(Z.of_N %s)" % v.num(), "Z"), c2))
                        if v.kind != "Z":
                            raise ParseError("u64::try_from of a u64")
                        return "if (%s <? 0)%%Z then %s else\n    %s" % (v.text, self.fail(c2, "Err " + er), k(V("(Z.to_N %s)" % v.text), c2))
                    return self.val(r0[2][0], c, kc)
            if m == "ok_or_else" and len(args) == 1 and r0[0] == "mcall" and r0[2] in ("checked_sub", "checked_add") and len(r0[3]) == 1:
                er = err_of(args[0])
                def ka(a, c1):
                    def kb(b, c2):
                        if r0[2] == "checked_sub":
                            return "if %s <? %s then %s else\n    %s" % (a.num(), b.num(), self.fail(c2, "Err " + er), k(V("(%s - %s)" % (a.num(), b.num())), c2))
                        if a.kind != "Z":
                            raise ParseError("checked_add on a non-i64")
                        z = "(%s + %s)%%Z" % (zlit(a), zlit(b))
                        return "if negb (i64_in_range %s) then %s else\n    %s" % (z, self.fail(c2, "Err " + er), k(V(z, "Z"), c2))
                    return self.val(r0[3][0], c1, kb)
                return self.val(r0[1], c, ka)
            if r0 == ("path", "self") and m in self.methods and self.methods[m][2] == "self":
                coq, rk, shape, fuelled = self.methods[m]
                avs = [self.arg_text(a, c) for a in args]
                return self.call_self(self.self_call(coq, fuelled, c, avs), c, k, rk)
        return RD.Tr.try_val(self, x, c, k)

    def arg_text(self, a, c):
        v = self.pe(a, c)
        return v.text

    def call_self(self, call, c, k, rk):
        self1, v1 = self.fresh("self"), self.fresh("r")
        c2 = c.copy()
        c2.self = self1
        return "match %s with\n    | (%s, Ok %s) =>\n    %s\n    | (%s, Err e) => (%s, Err e)\n    | (%s, Crash x) => (%s, Crash x)\n    end" % (
            call, self1, v1, k(V(v1, rk), c2), self1, self1, self1, self1)

    # ------------------------------------------------------------ results
    def payload(self, a, c):
        if c.ret == "optunit":
            if a == ("path", "None"):
                return "false"
            if is_call(a, "Some", 1) and strip_paren(a[2][0]) == ("unit",):
                return "true"
            raise ParseError("Option<()> payload " + show(a))
        return RD.Tr.payload(self, a, c)

    # ------------------------------------------------------------ statements
    def effect(self, e, c, cont, tailk):
        k = e[0]
        if k == "assign":
            op, lhs, rhs = e[1], strip_paren(e[2]), e[3]
            if lhs[0] == "field" and strip_paren(lhs[1]) == ("path", "self") and c.struct == "EncryptionLayerInternal":
                f = lhs[2]
                if f == "cipher" and op == "=":
                    def kc(v, c2):
                        if v.kind != "gcm":
                            raise ParseError("cipher assignment")
                        return self.set_field("cipher", v.text, c2) + cont(c2)
                    return self.val(rhs, c, kc)
                if f == "chunk_cache" and op == "=":
                    r = strip_paren(rhs)
                    if not is_call(r, "Cursor::new", 1):
                        raise ParseError("chunk_cache assignment " + show(r)[:40])
                    def kk(v, c2):
                        if v.kind != "bytes":
                            raise ParseError("Cursor::new of " + v.kind)
                        s1 = self.fresh("self")
                        t = "let %s := set_eli_chunk_cache %s %s 0 in\n    " % (s1, c2.self, v.text)
                        c2.self = s1
                        return t + cont(c2)
                    return self.val(r[2][0], c, kk)
                if f == "current_chunk_number" and op == "=":
                    return self.val(rhs, c, lambda v, c2: self.set_field(f, v.num(), c2) + cont(c2))
                if f == "current_chunk_number" and op == "+=":
                    cur = self.pe(lhs, c).num()
                    def kp(v, c2):
                        return "if 2 ^ 32 <=? %s + %s then %s else\n    %s%s" % (
                            cur, v.num(), self.fail(c2, "Crash site_add"), self.set_field(f, "(%s + %s)" % (cur, v.num()), c2), cont(c2))
                    return self.val(rhs, c, kp)
                if f == "current_chunk_number" and op == "-=":
                    cur = self.pe(lhs, c).num()
                    def km(v, c2):
                        return "if %s <? %s then %s else\n    %s%s" % (
                            cur, v.num(), self.fail(c2, "Crash site_sub"), self.set_field(f, "(%s - %s)" % (cur, v.num()), c2), cont(c2))
                    return self.val(rhs, c, km)
                raise ParseError("assignment " + show(e)[:60])
        if k == "mcall":
            recv, m, args = e[1], e[2], e[3]
            if m == "copy_from_slice" and len(args) == 1:
                name = self.local_vec(recv, c)
                src = unref(args[0])
                rg = strip_paren(src[2]) if src[0] == "index" else None
                if rg is None or rg[0] != "range" or rg[1] is None or rg[2] is not None:
                    raise ParseError("copy_from_slice source " + show(src)[:50])
                from_ = self.local_vec(src[1], c)
                def ka(a, c2):
                    g = self.fresh(name)
                    old, srcv = c2.locals[name].text, c2.locals[from_].text
                    c2.locals[name] = V(g, "bytes")
                    return ("if (len %s <? %s) || negb (len %s =? len %s - %s) then %s else\n    let %s := dropN %s %s in\n    %s"
                            % (srcv, a.num(), old, srcv, a.num(), self.fail(c2, "Crash site_index"), g, a.num(), srcv, cont(c2)))
                return self.val(rg[1], c, ka)
            if m == "resize" and len(args) == 2:
                name = self.local_vec(recv, c)
                fill = self.pe(args[1], c).num()
                def kz(n, c2):
                    g = self.fresh(name)
                    old = c2.locals[name].text
                    c2.locals[name] = V(g, "bytes")
                    return "let %s := vec_resize %s %s %s in\n    %s" % (g, old, n.num(), fill, cont(c2))
                return self.val(args[0], c, kz)
            if m == "decrypt_unauthenticated":
                return self.val(e, c, lambda v, c2: cont(c2))
        return RD.Tr.effect(self, e, c, cont, tailk)

    def strip_into(self, t):
        """x.map_err(std::convert::Into::into) / Ok(x?) -> x  (error conversions are the identity on `err`)"""
        t = strip_paren(t)
        if t[0] == "mcall" and t[2] == "map_err" and len(t[3]) == 1 and show(t[3][0]) in INTO:
            return strip_paren(t[1]), True
        if is_call(t, "Ok", 1) and strip_paren(t[2][0])[0] == "try":
            return strip_paren(strip_paren(t[2][0])[1]), True
        return t, False

    def exit_tail(self, t, c):
        t = strip_paren(t)
        t2, _ = self.strip_into(t)
        if t2[0] == "mcall":
            recv, m, args = strip_paren(t2[1]), t2[2], t2[3]
            # the chunk cache's own read
            if m == "read" and len(args) == 1 and is_self_field(recv, "chunk_cache") and c.struct == "EncryptionLayerInternal" and c.ret == "count":
                def kb(n):
                    return ("let '(p, r) := cursor_rd (eli_cache %s) (eli_cache_pos %s) %s in (set_eli_cache_pos %s p, r)"
                            % (c.self, c.self, n, c.self))
                return self.with_buf(args[0], c, kb)
            # recursion / delegation to a translated method of self
            if recv == ("path", "self") and m in self.methods and self.methods[m][2] == "self":
                coq, rk, shape, fuelled = self.methods[m]
                if rk != c.ret:
                    raise ParseError("tail call of %s: result kinds differ" % m)
                def after(avs, c2):
                    if m == self.fn_name:
                        if c2.in_loop is None:
                            raise ParseError("recursion outside a fuelled function")
                        return "%s fuel' %s%s" % (c2.in_loop[0], c2.self, "".join(" " + a for a in avs))
                    return self.self_call(coq, fuelled, c2, avs)
                return self.args_cps(list(args), [], c, after)
            # a method of a field that is itself a translated struct (the fail-safe reader's `internal`)
            if recv[0] == "field" and strip_paren(recv[1]) == ("path", "self") and c.struct and m in self.methods:
                for f, acc, kind in RD.STRUCTS[c.struct][1]:
                    if f == recv[2] and kind == "eli":
                        coq, rk, shape, fuelled = self.methods[m]
                        if rk != c.ret:
                            raise ParseError("tail call of %s: result kinds differ" % m)
                        avs = [self.arg_text(a, c) for a in args]
                        return "let '(i, r) := %s%s (%s %s)%s in (set_%s %s i, r)" % (
                            coq, " fuel" if fuelled else "", acc, c.self, "".join(" " + a for a in avs), acc, c.self)
        if is_call(t, "Ok", 1) and c.ret == "optunit":
            return self.fail(c, "Ok " + self.payload(strip_paren(t[2][0]), c))
        return RD.Tr.exit_tail(self, t, c)

    def args_cps(self, args, acc, c, k):
        if not args:
            return k(acc, c)
        a = strip_paren(args[0])
        if is_call(a, "SeekFrom::Start", 1):
            return self.val(a[2][0], c, lambda v, c2: self.args_cps(args[1:], acc + ["(FromStart %s)" % v.num()], c2, k))
        return self.args_cps(args[1:], acc + [self.arg_text(a, c)], c, k)

    def match(self, e, c, cont, tailk):
        scrut = strip_paren(e[1])
        # match self.<eli field>.<method>(buf) { Ok(v) => .., Err(<named error>) => .., Err(e) => .. }
        if scrut[0] == "mcall" and cont is None and tailk is None:
            recv, m, args = strip_paren(scrut[1]), scrut[2], scrut[3]
            if recv[0] == "field" and strip_paren(recv[1]) == ("path", "self") and c.struct and m in self.methods:
                for f, acc, kind in RD.STRUCTS[c.struct][1]:
                    if f == recv[2] and kind == "eli":
                        coq, rk, shape, fuelled = self.methods[m]
                        avs = [self.arg_text(a, c) for a in args]
                        i1 = self.fresh("i")
                        self1 = "(set_%s %s %s)" % (acc, c.self, i1)
                        out, saw_ok, saw_any_err = [], False, False
                        for pat, guard, body in e[2]:
                            if guard is not None:
                                raise ParseError("match guard")
                            c2 = c.copy()
                            c2.self = self1
                            body = strip_paren(body)
                            mo = re.fullmatch(r"Ok\((\w+)\)", pat)
                            me = re.fullmatch(r"Err\(([\w:]+)\)", pat)
                            if mo and not saw_ok:
                                g = self.fresh(mo.group(1))
                                c2.locals[mo.group(1)] = V(g, rk)
                                out.append("| (%s, Ok %s) => %s" % (i1, g, self.exit_tail(body, c2)))
                                saw_ok = True
                            elif me and me.group(1) in RD.ERR_NAMES and not saw_any_err:
                                out.append("| (%s, Err %s) => %s" % (i1, RD.ERR_NAMES[me.group(1)], self.exit_tail(body, c2)))
                            elif me and re.fullmatch(r"\w+", me.group(1)) and not saw_any_err:
                                ev = me.group(1)
                                b2, _ = self.strip_into(body)
                                if not (is_call(body, "Err", 1) and show(strip_paren(body[2][0])) in (ev, ev + ".into()")):
                                    raise ParseError("error arm " + show(body)[:40])
                                out.append("| (%s, Err e) => (%s, Err e)" % (i1, self1))
                                saw_any_err = True
                            else:
                                raise ParseError("result pattern " + pat)
                        if not (saw_ok and saw_any_err):
                            raise ParseError("match on the result not exhaustive")
                        out.append("| (%s, Crash x) => (%s, Crash x)" % (i1, self1))
                        return "match %s%s (%s %s)%s with\n    %s\n    end" % (
                            coq, " fuel" if fuelled else "", acc, c.self, "".join(" " + a for a in avs), "\n    ".join(out))
        return RD.Tr.match(self, e, c, cont, tailk)


# ------------------------------------------------------------------ preamble

PREAMBLE = r"""
(* ---- mirrors of the Rust data / std ---- *)
Inductive FailSafeReaderDecryptionMode := %(modes)s.   (* enum FailSafeReaderDecryptionMode, in source order *)
Inductive ConfigError := PrivateKeyNotSet | PrivateKeyNotFound.
Definition zeros (n : N) : bytes := repeat 0 (N.to_nat n).                        (* [0u8; n] *)
Definition vec_resize (v : bytes) (n x : N) : bytes := takeN n v ++ repeat x (N.to_nat (n - len v)).   (* Vec::resize *)
Definition U64_MAX : N := 2 ^ 64 - 1.
Definition i64_in_range (z : Z) : bool := ((- 2 ^ 63 <=? z) && (z <? 2 ^ 63))%%Z.

Section EncSrc.
  Variable S : Stream.                          (* the inner layer *)
  Variables CHUNK_SIZE TAG_LENGTH : N.          (* both flavours: values tied by gen/Src.v *)
  Variable ks : N -> N -> N.                    (* AES-CTR key stream of chunk counter i at byte offset o, under the reader's key / nonce prefix *)
  Variable tagc : N -> bytes -> bytes.          (* GCM tag of a chunk's ciphertext under counter i *)
  Variable fuel_rd : nat.                       (* bound on the `read` calls of one take(n).read_to_end / io::copy *)
  Variable inner_initialize : st S -> st S * res unit.   (* LayerReader::initialize of the inner layer *)
  Variables site_sub site_index site_add site_unwrap : N.   (* labels of the panic sites (a convention of the model) *)

  (* mla/src/layers/encrypt.rs:%(cts_line)d const CHUNK_TAG_SIZE *)
  Definition CHUNK_TAG_SIZE : N := %(cts)s.

  (* ---- trusted primitives: AesGcm256 (crypto/aesgcm.rs) as used by the reader ---- *)
  Record AesGcm256 := mkGcm { gcm_ctr : N; gcm_seen : bytes }.    (* counter of the nonce; ciphertext absorbed so far *)
  Definition AesGcm256_new (ctr : N) : AesGcm256 := mkGcm ctr [].
  Definition AesGcm256_decrypt (c : AesGcm256) (d : bytes) : AesGcm256 * bytes * bytes :=
    (mkGcm (gcm_ctr c) (gcm_seen c ++ d), xor_from ks (gcm_ctr c) (len (gcm_seen c)) d, tagc (gcm_ctr c) (gcm_seen c ++ d)).
  Definition AesGcm256_decrypt_unauthenticated (c : AesGcm256) (d : bytes) : AesGcm256 * bytes :=
    (mkGcm (gcm_ctr c) (gcm_seen c ++ d), xor_from ks (gcm_ctr c) (len (gcm_seen c)) d).
  Definition ct_eq (a b : bytes) : bool := bytes_eqb a b.

  (* struct EncryptionLayerInternal (key and nonce are constants of the reader: see the header of tools/src2v3_enc.py);
     chunk_cache : Cursor<Vec<u8>> is the pair (eli_cache, eli_cache_pos) *)
  Record EncryptionLayerInternal := mkELI {
    eli_inner : st S; eli_cipher : AesGcm256; eli_cache : bytes; eli_cache_pos : N; eli_chunk : N }.
  Definition set_eli_inner s v := mkELI v (eli_cipher s) (eli_cache s) (eli_cache_pos s) (eli_chunk s).
  Definition set_eli_cipher s v := mkELI (eli_inner s) v (eli_cache s) (eli_cache_pos s) (eli_chunk s).
  Definition set_eli_chunk_cache s d p := mkELI (eli_inner s) (eli_cipher s) d p (eli_chunk s).
  Definition set_eli_cache_pos s p := mkELI (eli_inner s) (eli_cipher s) (eli_cache s) p (eli_chunk s).
  Definition set_eli_chunk s v := mkELI (eli_inner s) (eli_cipher s) (eli_cache s) (eli_cache_pos s) v.
  (* struct EncryptionLayerFailSafeReader *)
  Record EncryptionLayerFailSafeReader := mkFS { fs_internal : EncryptionLayerInternal; fs_mode : FailSafeReaderDecryptionMode }.
  Definition set_fs_internal s v := mkFS v (fs_mode s).
"""

WANT_ELI = [("inner", "Box<T>"), ("cipher", "AesGcm256"), ("key", "Key"), ("nonce", "[u8;NONCE_SIZE]"),
            ("chunk_cache", "Cursor<Vec<u8>>"), ("current_chunk_number", "u32")]
WANT_FS = [("internal", "EncryptionLayerInternal<dyn'a+LayerFailSafeReader<'a,R>>"), ("decryption_mode", "FailSafeReaderDecryptionMode")]
WANT_CFG = [("private_keys", "Vec<StaticSecret>"), ("encrypt_parameters", "Option<(Key,[u8;NONCE_SIZE])>"),
            ("failsafe_mode", "FailSafeReaderDecryptionMode")]
WANT_PERSIST = [("multi_recipient", "MultiRecipientPersistent"), ("nonce", "[u8;NONCE_SIZE]")]

H_ELI_NEW = r"impl<T: \?Sized> EncryptionLayerInternal<T> \{"
H_ELI = r"impl<T: \?Sized \+ Read> EncryptionLayerInternal<T> \{"
H_ELI_READ = r"impl<R: Read \+ \?Sized> Read for EncryptionLayerInternal<R> \{"
H_ELI_SEEK = r"impl<R: Read \+ Seek \+ \?Sized> Seek for EncryptionLayerInternal<R> \{"
H_ELR_NEW = r"impl<'a, R: Read \+ Seek> EncryptionLayerReader<'a, R> \{"
H_ELR_LAYER = r"impl<'a, R: 'a \+ InnerReaderTrait> LayerReader<'a, R> for EncryptionLayerReader<'a, R> \{"
H_ELR_READ = r"impl<'a, R: 'a \+ Read \+ Seek> Read for EncryptionLayerReader<'a, R> \{"
H_ELR_SEEK = r"impl<'a, R: 'a \+ Read \+ Seek> Seek for EncryptionLayerReader<'a, R> \{"
H_FS_NEW = r"impl<'a, R: Read> EncryptionLayerFailSafeReader<'a, R> \{"
H_FS_READ = r"impl<R: Read> Read for EncryptionLayerFailSafeReader<'_, R> \{"
H_CFG = r"impl EncryptionReaderConfig \{"

# (coq name, rust fn, impl header, struct of self, params, Ok kind, coq Ok type, fuelled, registry key, newtype)
ITEMS = [
    ("load_in_cache", "load_in_cache", H_ELI, "EncryptionLayerInternal", [], "optunit", "bool", False, "load_in_cache", False),
    ("load_in_cache_unauthenticated", "load_in_cache_unauthenticated", H_ELI, "EncryptionLayerInternal", [], "optunit", "bool", False,
     "load_in_cache_unauthenticated", False),
    ("read_internal", "read_internal", H_ELI, "EncryptionLayerInternal", [("buf", "buf")], "count", "bytes", True, "read_internal", False),
    ("read_internal_unauthenticated", "read_internal_unauthenticated", H_ELI, "EncryptionLayerInternal", [("buf", "buf")], "count", "bytes", True,
     "read_internal_unauthenticated", False),
    ("eli_read", "read", H_ELI_READ, "EncryptionLayerInternal", [("buf", "buf")], "count", "bytes", None, "read", False),
    ("eli_seek", "seek", H_ELI_SEEK, "EncryptionLayerInternal", [("pos", "whence")], "N", "N", True, "seek", False),
    ("elr_initialize", "initialize", H_ELR_LAYER, "EncryptionLayerInternal", [], "unit", "unit", None, None, True),
    ("elr_read", "read", H_ELR_READ, "EncryptionLayerInternal", [("buf", "buf")], "count", "bytes", None, None, True),
    ("elr_seek", "seek", H_ELR_SEEK, "EncryptionLayerInternal", [("pos", "whence")], "N", "N", None, None, True),
    ("fs_read", "read", H_FS_READ, "EncryptionLayerFailSafeReader", [("buf", "buf")], "count", "bytes", None, None, False),
]
COQ_TYPES = {"buf": "N", "whence": "whence", "N": "N"}


def unnewtype(e):
    """EncryptionLayerReader is a tuple struct of one field: `self.0` is the EncryptionLayerInternal itself"""
    if isinstance(e, tuple):
        if len(e) == 3 and e[0] == "field" and e[2] == "0" and strip_paren(e[1]) == ("path", "self"):
            return ("path", "self")
        return tuple(unnewtype(x) for x in e)
    if isinstance(e, list):
        return [unnewtype(x) for x in e]
    return e


def calls_fuelled(body, methods):
    txt = show(body)
    return any(info[3] and re.search(r"\b%s\(" % re.escape(name), txt) for name, info in methods.items()) or "rewind()" in txt


def translate_item(item, src, methods, enums):
    coq, fn, within, struct, params, rk, rty, fuelled, key, newtype = item
    r = R.fn_text(src, fn, 0, within)
    if r is None:
        raise ParseError("fn %s not found" % fn)
    got = fn_params(r[2])
    if [p for p, _ in got if p != "self"] != [p for p, _ in params] or not any(p == "self" for p, _ in got):
        raise ParseError("parameters of %s changed: %s" % (fn, got))
    body = R.parse_body(r[0])
    if newtype:
        body = unnewtype(body)
    tr = TrE(methods, enums, None if newtype else fn)
    c = Ctx()
    c.struct = struct
    c.struct_self = struct
    c.ret = rk
    c.self = "self"
    binders = ["(self : %s)" % struct]
    for p, kind in params:
        g = p + "_len" if kind == "buf" else p
        c.locals[p] = V(g, kind)
        binders.append("(%s : %s)" % (g, COQ_TYPES[kind]))
    head = "(* %s:%d fn %s *)" % (FILE, r[1], fn)
    if fuelled:
        extra = [c.locals[p].text for p, _ in params]
        c.in_loop = (coq + "_loop", extra)
        # the recursive call passes its own arguments: handled by exit_tail (in_loop[1] is not used there)
        inner = tr.stmts(list(body[1]), body[2], c, None, None)
        return ("%s\n  Fixpoint %s_loop (fuel : nat) %s {struct fuel} : %s * res %s :=\n    match fuel with\n    | O => (self, Err EFuel)\n    | Datatypes.S fuel' =>\n    %s\n    end.\n"
                "  Definition %s := %s_loop." % (head, coq, " ".join(binders), struct, rty, inner, coq, coq))
    needs_fuel = calls_fuelled(body, methods)
    g = tr.stmts(list(body[1]), body[2], c, None, None)
    return "%s\n  Definition %s %s%s : %s * res %s :=\n    %s." % (head, coq, "(fuel : nat) " if needs_fuel else "", " ".join(binders), struct, rty, g), needs_fuel


def purefn_item(src):
    """const fn no_tag_position_to_tag_position(position: u64) -> u64"""
    r = R.fn_text(src, "no_tag_position_to_tag_position")
    if r is None:
        raise ParseError("fn no_tag_position_to_tag_position not found")
    if fn_params(r[2]) != [("position", "u64")]:
        raise ParseError("parameters of no_tag_position_to_tag_position changed")
    body = R.parse_body(r[0])
    tr = TrE({}, {})
    c = Ctx()
    c.self = "tt"
    c.locals["position"] = V("position")
    out = []
    for st in body[1]:
        if st[0] != "let" or st[4] is not None or not re.fullmatch(r"\w+", st[1]):
            raise ParseError("statement of no_tag_position_to_tag_position")
        holder = []
        t = tr.val(st[3], c, lambda v, c2: holder.append(v) or "")
        if t != "" or "-" in show(st[3]):
            raise ParseError("checked operation in a const fn")
        out.append("let %s := %s in" % (st[1], holder[0].num()))
        c.locals[st[1]] = V(st[1])
    holder = []
    t = tr.val(body[2], c, lambda v, c2: holder.append(v) or "")
    if t != "" or "-" in show(body[2]):
        raise ParseError("checked operation in a const fn")
    return "(* %s:%d fn no_tag_position_to_tag_position *)\n  Definition no_tag_position_to_tag_position (position : N) : N :=\n    %s\n    %s." % (
        FILE, r[1], "\n    ".join(out), holder[0].num())


def eli_new_item(src):
    """EncryptionLayerInternal::new: match config.encrypt_parameters { Some((key, nonce)) => Ok(Self {..}), None => Err(..) }"""
    r = R.fn_text(src, "new", 0, H_ELI_NEW)
    if r is None:
        raise ParseError("EncryptionLayerInternal::new not found")
    if [p for p, _ in fn_params(r[2])] != ["inner", "config"]:
        raise ParseError("parameters of EncryptionLayerInternal::new changed")
    body = R.parse_body(r[0])
    t = strip_paren(body[2]) if body[2] is not None else None
    if body[1] or t is None or t[0] != "match" or show(t[1]) != "config.encrypt_parameters" or len(t[2]) != 2:
        raise ParseError("body of EncryptionLayerInternal::new")
    arms = {p: b for p, g, b in t[2] if g is None}
    if sorted(arms) != ["None", "Some((key,nonce))"]:
        raise ParseError("arms of EncryptionLayerInternal::new: %s" % sorted(arms))
    none_err = err_of(strip_paren(strip_paren(arms["None"])[2][0])) if is_call(arms["None"], "Err", 1) else None
    some = strip_paren(arms["Some((key,nonce))"])
    if none_err is None or not (is_call(some, "Ok", 1) and strip_paren(some[2][0])[0] == "struct" and strip_paren(some[2][0])[1] == "Self"):
        raise ParseError("results of EncryptionLayerInternal::new")
    fields = dict(strip_paren(some[2][0])[2])
    if sorted(fields) != sorted(f for f, _ in WANT_ELI):
        raise ParseError("fields of the EncryptionLayerInternal literal")
    if show(fields["inner"]) != "inner" or show(fields["key"]) != "key" or show(fields["nonce"]) != "nonce":
        raise ParseError("inner / key / nonce of the literal")
    ci = strip_paren(fields["cipher"])
    if not (ci[0] == "try" and is_call(ci[1], "AesGcm256::new", 3)):
        raise ParseError("cipher of the literal")
    a = strip_paren(ci[1])[2]
    bn = unref(a[1])
    if show(a[0]) != "&key" or show(a[2]) != 'b""' or not (is_call(bn, "build_nonce", 2) and show(bn[2][0]) == "nonce" and strip_paren(bn[2][1])[0] == "int"):
        raise ParseError("cipher arguments of the literal")
    ctr0 = strip_paren(bn[2][1])[1]
    cc = strip_paren(fields["chunk_cache"])
    if not (is_call(cc, "Cursor::new", 1) and (is_call(cc[2][0], "Vec::with_capacity", 1) or is_call(cc[2][0], "Vec::new", 0))):
        raise ParseError("chunk_cache of the literal")
    cn = strip_paren(fields["current_chunk_number"])
    if cn[0] != "int":
        raise ParseError("current_chunk_number of the literal")
    return ("(* %s:%d fn EncryptionLayerInternal::new (config.encrypt_parameters as an option: the key / nonce themselves are `ks`, `tagc`) *)\n"
            "  Definition EncryptionLayerInternal_new (inner : st S) (config_encrypt_parameters : option unit) : res EncryptionLayerInternal :=\n"
            "    match config_encrypt_parameters with\n    | Some _ => Ok (mkELI inner (AesGcm256_new %d) [] 0 %d)\n    | None => Err %s\n    end."
            % (FILE, r[1], ctr0, cn[1], none_err))


def elr_new_item(src):
    r = R.fn_text(src, "new", 0, H_ELR_NEW)
    if r is None:
        raise ParseError("EncryptionLayerReader::new not found")
    body = R.parse_body(r[0])
    if body[1] or body[2] is None or re.sub(r"\s", "", show(body[2])) != "Ok(EncryptionLayerReader(EncryptionLayerInternal::new(inner,config)?))":
        raise ParseError("body of EncryptionLayerReader::new")
    if not re.search(r"pub struct EncryptionLayerReader<'a, R: Read \+ Seek>\(\s*EncryptionLayerInternal<dyn 'a \+ LayerReader<'a, R>>,\s*\);", src):
        raise ParseError("struct EncryptionLayerReader is not the one-field tuple struct")
    return ("(* %s:%d fn EncryptionLayerReader::new (the tuple struct's only field is the EncryptionLayerInternal) *)\n"
            "  Definition EncryptionLayerReader_new (inner : st S) (config_encrypt_parameters : option unit) : res EncryptionLayerInternal :=\n"
            "    match EncryptionLayerInternal_new inner config_encrypt_parameters with\n    | Ok v => Ok v\n    | Err e => Err e\n    | Crash x => Crash x\n    end." % (FILE, r[1]))


def fs_new_item(src, methods):
    r = R.fn_text(src, "new", 0, H_FS_NEW)
    if r is None:
        raise ParseError("EncryptionLayerFailSafeReader::new not found")
    if [p for p, _ in fn_params(r[2])] != ["inner", "config"]:
        raise ParseError("parameters of EncryptionLayerFailSafeReader::new changed")
    body = R.parse_body(r[0])
    if len(body[1]) != 2 or body[2] is None or show(body[2]) != "Ok(layer)":
        raise ParseError("body of EncryptionLayerFailSafeReader::new")
    s0, s1 = body[1]
    lit = strip_paren(s0[3]) if s0[0] == "let" and s0[1] == "mut layer" and s0[3] is not None else None
    if lit is None or lit[0] != "struct" or lit[1] != "Self":
        raise ParseError("first statement of EncryptionLayerFailSafeReader::new")
    fields = dict(lit[2])
    if sorted(fields) != ["decryption_mode", "internal"] or re.sub(r"\s", "", show(fields["internal"])) != "EncryptionLayerInternal::new(inner,config)?" \
            or show(fields["decryption_mode"]) != "config.failsafe_mode":
        raise ParseError("fields of the fail-safe reader literal")
    e1 = strip_paren(s1[1]) if s1[0] == "semi" else None
    if e1 is None or e1[0] != "try" or strip_paren(e1[1])[0] != "mcall" or show(strip_paren(strip_paren(e1[1])[1])) != "layer.internal" or strip_paren(e1[1])[3]:
        raise ParseError("second statement of EncryptionLayerFailSafeReader::new")
    m = strip_paren(e1[1])[2]
    if m not in methods or methods[m][1] != "optunit" or methods[m][3]:
        raise ParseError("the loader called by EncryptionLayerFailSafeReader::new: " + m)
    return ("(* %s:%d fn EncryptionLayerFailSafeReader::new: the first chunk is loaded by `%s` whatever the mode *)\n"
            "  Definition EncryptionLayerFailSafeReader_new (inner : st S) (config_encrypt_parameters : option unit)\n"
            "      (config_failsafe_mode : FailSafeReaderDecryptionMode) : res EncryptionLayerFailSafeReader :=\n"
            "    match EncryptionLayerInternal_new inner config_encrypt_parameters with\n    | Ok internal =>\n"
            "      let layer := mkFS internal config_failsafe_mode in\n"
            "      match %s (fs_internal layer) with\n      | (i, Ok _) => Ok (set_fs_internal layer i)\n      | (i, Err e) => Err e\n      | (i, Crash x) => Crash x\n      end\n"
            "    | Err e => Err e\n    | Crash x => Crash x\n    end." % (FILE, r[1], m, methods[m][0]))


def load_persistent_item(src):
    r = R.fn_text(src, "load_persistent", 0, H_CFG)
    if r is None:
        raise ParseError("load_persistent not found")
    if [p for p, _ in fn_params(r[2])] != ["self", "config"]:
        raise ParseError("parameters of load_persistent changed")
    body = R.parse_body(r[0])
    sts = [strip_paren(s[1]) if s[0] in ("semi", "expr") else s for s in body[1]]
    if len(sts) != 3 or body[2] is None or show(body[2]) != "Ok(())":
        raise ParseError("statements of load_persistent: %d" % len(sts))

    def guard_return(st, cond_text):
        if st[0] != "if" or st[3] is not None or show(st[1]) != cond_text:
            raise ParseError("guard `%s`" % cond_text)
        b = st[2]
        inner = strip_paren(b[1][0][1]) if len(b[1]) == 1 and b[2] is None else (strip_paren(b[2]) if not b[1] and b[2] is not None else None)
        if inner is None or inner[0] != "return" or not is_call(inner[1], "Err", 1):
            raise ParseError("body of the guard `%s`" % cond_text)
        name = show(strip_paren(strip_paren(inner[1])[2][0]))
        if name not in ("ConfigError::PrivateKeyNotSet", "ConfigError::PrivateKeyNotFound"):
            raise ParseError("error of the guard: " + name)
        return name.split("::")[1]
    e_first = guard_return(sts[0], "self.private_keys.is_empty()")
    e_last = guard_return(sts[2], "self.encrypt_parameters.is_none()")
    lp = sts[1]
    if lp[0] != "for" or lp[1] is not None or lp[2] != "private_key" or show(lp[3]) != "&self.private_keys":
        raise ParseError("loop head of load_persistent")
    lb = lp[4]
    st = strip_paren(lb[1][0][1]) if len(lb[1]) == 1 and lb[2] is None else (strip_paren(lb[2]) if not lb[1] and lb[2] is not None else None)
    if st is None or st[0] != "if" or st[3] is not None or st[1][0] != "letcond" or st[1][1] != "Ok(Some(key))" \
            or re.sub(r"\s", "", show(st[1][2])) != "retrieve_key(&config.multi_recipient,private_key)":
        raise ParseError("loop body of load_persistent")
    tb = st[2]
    if len(tb[1]) != 2 or tb[2] is not None:
        raise ParseError("then-block of load_persistent")
    a, b = strip_paren(tb[1][0][1]), strip_paren(tb[1][1][1])
    if re.sub(r"\s", "", show(a)) != "self.encrypt_parameters=Some((key,config.nonce))" or b != ("break", None, None):
        raise ParseError("then-block of load_persistent: %s / %s" % (show(a), show(b)))
    return ("(* %s:%d fn EncryptionReaderConfig::load_persistent: the candidate loop (`for` over the private keys, first\n"
            "     `Ok(Some(key))` stores the parameters and breaks), between the two guards *)\n"
            "  Fixpoint load_persistent_for (self : EncryptionReaderConfig) (keys : list bytes) : EncryptionReaderConfig :=\n"
            "    match keys with\n    | [] => self\n    | private_key :: rest =>\n"
            "      match retrieve_key config_multi_recipient private_key with\n"
            "      | Ok (Some key) => set_erc_encrypt_parameters self (Some (key, config_nonce))\n"
            "      | _ => load_persistent_for self rest\n      end\n    end.\n"
            "  Definition load_persistent (self : EncryptionReaderConfig) : EncryptionReaderConfig * (unit + ConfigError) :=\n"
            "    if vec_is_empty (erc_private_keys self) then (self, inr %s) else\n"
            "    let self1 := load_persistent_for self (erc_private_keys self) in\n"
            "    if opt_is_none (erc_encrypt_parameters self1) then (self1, inr %s) else\n"
            "    (self1, inl tt)." % (FILE, r[1], e_first, e_last))


CFG_PREAMBLE = r"""
(* ---- EncryptionReaderConfig::load_persistent ---- *)
Section LoadPersistent.
  Variable MultiRecipientPersistent : Type.
  (* crypto/ecc.rs retrieve_key (Ecies.retrieve_key in the tie; an `Err` is an ECIES failure) *)
  Variable retrieve_key : MultiRecipientPersistent -> bytes -> res (option bytes).
  (* config: &EncryptionPersistentConfig { multi_recipient, nonce } *)
  Variable config_multi_recipient : MultiRecipientPersistent.
  Variable config_nonce : bytes.
  Record EncryptionReaderConfig := mkERC {
    erc_private_keys : list bytes; erc_encrypt_parameters : option (bytes * bytes); erc_failsafe_mode : FailSafeReaderDecryptionMode }.
  Definition set_erc_encrypt_parameters s v := mkERC (erc_private_keys s) v (erc_failsafe_mode s).
  Definition vec_is_empty {A} (l : list A) : bool := match l with [] => true | _ => false end.
  Definition opt_is_none {A} (o : option A) : bool := match o with None => true | _ => false end.
"""


def generate():
    out = []
    out.append("(* GENERATED by tools/src2v3_enc.py from %s — do not edit. *)" % REPO)
    out.append("From MLA Require Import Base Stream EncLayer.")
    out.append("Open Scope N_scope.")
    src = RD.strip_tests(RD.read_file(FILE))
    try:
        if struct_fields(src, "EncryptionLayerInternal") != WANT_ELI:
            raise ParseError("struct EncryptionLayerInternal changed: %s" % struct_fields(src, "EncryptionLayerInternal"))
        if struct_fields(src, "EncryptionLayerFailSafeReader") != WANT_FS:
            raise ParseError("struct EncryptionLayerFailSafeReader changed: %s" % struct_fields(src, "EncryptionLayerFailSafeReader"))
        if struct_fields(src, "EncryptionReaderConfig") != WANT_CFG:
            raise ParseError("struct EncryptionReaderConfig changed: %s" % struct_fields(src, "EncryptionReaderConfig"))
        if struct_fields(src, "EncryptionPersistentConfig") != WANT_PERSIST:
            raise ParseError("struct EncryptionPersistentConfig changed")
        en = re.sub(r"#\[default\]", "", enum_variants(src, "FailSafeReaderDecryptionMode"))
        if en != "OnlyAuthenticatedData,DataEvenUnauthenticated,":
            raise ParseError("enum FailSafeReaderDecryptionMode changed: " + en)
        m = re.search(r"const CHUNK_TAG_SIZE: u64 = ([^;]+);", src)
        if not m:
            raise ParseError("const CHUNK_TAG_SIZE")
        holder = []
        TrE({}, {}).val(R.parse_expr(m.group(1)), Ctx(), lambda v, c2: holder.append(v.num()) or "")
        cts, cts_line = holder[0], src[:m.start()].count("\n") + 1
    except Exception as e:
        out.append("(* encryption reader data: %s *)" % str(e).replace("*)", "* )"))
        out.append("Definition enc_data_untranslatable : unit := tt.")
        return "\n".join(out) + "\n"
    enums = {"FailSafeReaderDecryptionMode": [("OnlyAuthenticatedData", 0), ("DataEvenUnauthenticated", 0)]}
    out.append(PREAMBLE % {"modes": "OnlyAuthenticatedData | DataEvenUnauthenticated", "cts": cts, "cts_line": cts_line})
    methods = {}

    def emit(name, thunk):
        try:
            out.append("  " + thunk())
            return True
        except Exception as e:  # fail closed, per item
            out.append("  (* %s: %s *)" % (name, str(e).replace("*)", "* )")))
            out.append("  Definition %s_untranslatable : unit := tt." % name)
            return False
    if emit("no_tag_position_to_tag_position", lambda: purefn_item(src)):
        methods["no_tag_position_to_tag_position"] = ("no_tag_position_to_tag_position", "N", "purefn", False)
    emit("EncryptionLayerInternal_new", lambda: eli_new_item(src))
    emit("EncryptionLayerReader_new", lambda: elr_new_item(src))
    fs_new_done = False
    for item in ITEMS:
        coq, fn, within, struct, params, rk, rty, fuelled, key, newtype = item
        if coq == "eli_read" and not fs_new_done:
            emit("EncryptionLayerFailSafeReader_new", lambda: fs_new_item(src, methods))
            fs_new_done = True
        try:
            # the methods visible to an item: those of ITS receiver type (the newtype and the fail-safe reader
            # see the EncryptionLayerInternal's read / seek)
            if fuelled and key is not None:
                methods[key] = (coq, rk, "self", True)      # visible to itself: recursion
            r = translate_item(item, src, methods, enums)
            text, needs_fuel = r if isinstance(r, tuple) else (r, bool(fuelled))
            out.append("  " + text)
            if key is not None:
                methods[key] = (coq, rk, "self", needs_fuel)
        except Exception as e:
            if key is not None:
                methods.pop(key, None)
            out.append("  (* %s: %s *)" % (coq, str(e).replace("*)", "* )")))
            out.append("  Definition %s_untranslatable : unit := tt." % coq)
    out.append("End EncSrc.")
    out.append(CFG_PREAMBLE)
    emit("load_persistent", lambda: load_persistent_item(src))
    out.append("End LoadPersistent.")
    out.append("")
    return "\n".join(out) + "\n"


def main():
    try:
        text = generate()
    except Exception as e:  # fail closed as a whole
        text = "(* GENERATED: tools/src2v3_enc.py failed: %s *)\nDefinition src3e_untranslatable : unit := tt.\n" % str(e).replace("*)", "* )")
    outp = os.path.normpath(OUT)
    old = None
    if os.path.exists(outp):
        with open(outp) as f:
            old = f.read()
    if old != text:
        with open(outp, "w") as f:
            f.write(text)
        print("src2v3_enc: wrote", outp)
    else:
        print("src2v3_enc: unchanged", outp)


if __name__ == "__main__":
    main()
