#!/bin/bash
# tools/wp_merge.sh <wp name> <base commit>: merge a work-package copy (/tmp/wp/<name>/verif) into /verif through a scratch clone:
# branch from the commit the copy was taken at, copy the files over (no build output, no evidence, no generated Src.v),
# 3-way merge into main (props files: union), leave the result in /tmp/merge/verif for `git pull`.
set -u
WP=$1; BASE=$2
rm -rf /tmp/merge; mkdir -p /tmp/merge; git clone -q /verif /tmp/merge/verif; cd /tmp/merge/verif
git config user.email builder@example.invalid; git config user.name builder
echo "coq/props/*.v merge=union" > .git/info/attributes
git checkout -q -b wp-$WP $BASE
rsync -a --exclude .git --exclude .build --exclude work --exclude replay --exclude evidence --exclude '*.vo' --exclude '*.vok' --exclude '*.vos' --exclude '*.glob' --exclude '.*.aux' --exclude 'coq/Makefile*' --exclude 'coq/.Makefile.d' --exclude '.lia.cache' --exclude '.nia.cache' --exclude __pycache__ --exclude 'coq/gen/Src.v' --exclude seeded --exclude MANIFEST.json /tmp/wp/$WP/verif/ ./
git add -A; git commit -qm "wp $WP"; git show --stat HEAD | tail -n 40
git checkout -q main; git merge --no-edit wp-$WP 2>&1 | tail -n 6
echo "unmerged:"; git diff --name-only --diff-filter=U
