#!/bin/bash
# tools/runmut.sh <patch.diff> <ID> [tier]: run ./check <ID> against a scratch copy of /repo with the
# patch applied, WITHOUT touching /repo (used while other jobs build against /repo).
# Prints the tail of the check output; leaves nothing behind.
set -u
PATCH=$(readlink -f "$1"); ID=$2; TIER=${3:-quick}
R=/tmp/mr-$$
rm -rf $R; mkdir -p $R
git -C /repo worktree add --detach $R/repo HEAD >/dev/null 2>&1 || { echo "worktree failed"; exit 2; }
( cd $R/repo && git apply "$PATCH" ) || { echo "patch does not apply"; git -C /repo worktree remove --force $R/repo; rm -rf $R; exit 2; }
rsync -a --exclude .git --exclude work --exclude replay --exclude '.build/repo-*' /verif/ $R/verif/
mkdir -p $R/verif/work $R/verif/replay
sed -i "s#/repo/#$R/repo/#g" $R/verif/harness/Cargo.toml
( cd $R/verif/coq && coq_makefile -f _CoqProject -o Makefile >/dev/null 2>&1 )
( cd $R/verif && VERIF_REPO=$R/repo ./check $ID --tier $TIER 2>&1 | tail -${LINES_OUT:-6} )
if [ -n "${KEEP:-}" ]; then echo "kept: $R"; exit 0; fi
git -C /repo worktree remove --force $R/repo >/dev/null 2>&1
rm -rf $R
