#!/bin/bash
# tools/seed3_intake.sh <Cxx> <mN>: stage a delivered round-3 seed under /verif/seeded/, confirm it independently,
# and run the property's own quick check against a patched scratch copy. Logs: /tmp/seed3/logs/<Cxx>-<mN>.{confirm,check}
P=$1; M=$2; SRC=/tmp/seed3/$P/out/$M; DST=/verif/seeded/$P-$M
mkdir -p /tmp/seed3/logs $DST
cp $SRC/patch.diff $SRC/demo.rs $SRC/meta.json $DST/
LANE=-$P-$M /verif/tools/confirm_seed3.sh $DST > /tmp/seed3/logs/$P-$M.confirm 2>&1
rm -rf /tmp/seedconf/target-$P-$M
LINES_OUT=12 /verif/tools/runmut.sh $DST/patch.diff $P quick > /tmp/seed3/logs/$P-$M.check 2>&1
echo "$P-$M done"
