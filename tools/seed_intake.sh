#!/bin/bash
# tools/seed_intake.sh <root> <Cxx> <mN>: stage a delivered seed (<root>/<Cxx>/out/<mN>) under /verif/seeded/, confirm it
# independently, and run the property's own quick check against a patched scratch copy. Logs: <root>/logs/<Cxx>-<mN>.{confirm,check}
ROOT=$1; P=$2; M=$3; SRC=$ROOT/$P/out/$M; DST=/verif/seeded/$P-$M
mkdir -p $ROOT/logs $DST
cp $SRC/patch.diff $SRC/demo.rs $SRC/meta.json $DST/
LANE=-$P-$M /verif/tools/confirm_seed3.sh $DST > $ROOT/logs/$P-$M.confirm 2>&1
rm -rf /tmp/seedconf/target-$P-$M
LINES_OUT=12 /verif/tools/runmut.sh $DST/patch.diff $P quick > $ROOT/logs/$P-$M.check 2>&1
echo "$P-$M done"
