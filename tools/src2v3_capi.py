#!/usr/bin/env python3
"""Tie A, level 1 for the C INTERFACE (work package capiT): regenerate coq/gen/Src3a.v.

Translated statement by statement from /repo/bindings/C/src/lib.rs (parser: tools/rustmini.py):

  impl From<MLAError> for MLAStatus          status_from_error, arm by arm, over a mirror of
                                             mla::errors::{Error, ConfigError} (variants in source order)
  impl Write for CallbackOutput              CallbackOutput_write, CallbackOutput_flush
  impl Read / Seek for CallbackInputRead     CallbackInputRead_read, CallbackInputRead_seek
  the eleven writing-side `extern "C"` fns   over CApi.cstate (handles = option slots, `href`)
  mla_roarchive_extract(_internal), mla_roarchive_info(_internal)
                                             over a LOCAL memory (a pointer = option of its pointee)

theories/SrcTie3CApi.v proves them equal to / simulated by CApi.capi_step, CApi.cb_write,
CApiRead.{cbin_rd, cbin_sk, extract_internal, roarchive_extract, roarchive_info}.

TRUSTED PRIMITIVE TABLE (what a raw pointer / a library call becomes):
  p: *mut MLAxHandle                  -> p : href (RNull | RSlot i); p.is_null() -> isnull p;
                                         *p (read or write) -> match p with RNull => CCrash NullDeref | RSlot i => slot i
  h: MLAxHandle (by value)            -> h : href, "the value stored in variable i": h.is_null() -> is_none (sget tbl h);
                                         the table (c_cfg/c_rcfg/c_ar/c_fh) is named by the type of `h.cast::<T>()`
  Box::from_raw(v)                    -> match v with None => CCrash NullDeref | Some obj => … (a Box: object + where it came from)
  Box::leak(b)                        -> the object (as mutated) stays in its variable (put_<tbl> at every exit after it)
  end of scope of a Box not leaked    -> the object is freed: fine when `*p = null_mut()` was executed before for its
                                         variable; otherwise the exit is CCrash DanglingHandle (a caller variable points to freed memory)
  Box::into_raw(Box::new(x)); *out = ptr as H   -> set_<tbl> s i (Some x)
  *const c_char key text              -> CApi.keyarg; CStr::from_ptr(NULL) -> CCrash NullDeref; the parsers are p_parse_*
  *const c_char name                  -> option bytes; to_string_lossy -> the bytes
  *const u8 buffer, from_raw_parts(b, n) -> option bytes; takeN n data ++ zeroes (the convention of CApi.CAppend)
  Option<extern "C" fn>               -> bool (non-NULL); `context: *mut c_void` is the callback's state: dropped
  usize::try_from(u64)                -> identity (64-bit targets): the else branch must be a `return`
  library calls                       -> fields of the record `capi_prims` (writing side) / Section variables r_* (reading
                                         side); every call that may reach the write callback takes the environment `io`
  (cb)(buf, len, ctx, &raw mut out)   -> one invocation = (return code, final value of the out parameter, initialised to 0 by
                                         the adapter); the file callback: r_file_callback trace name
  io::Error::from_raw_os_error(e)     -> from_raw_os_error e : Interrupted iff e = 4 (std::sys::unix::decode_error_kind, EINTR)
  Vec<String>::sort                   -> r_sort; HashMap::insert of a fresh key -> append; Vec<Key> -> its length
  `for x in &v { … return … }`        -> Fixpoint over the list; result inl (loop variables) | inr (returned value)

FAILS CLOSED per item: anything not recognised -> `Definition <name>_untranslatable : unit := tt.`
"""
import os
import re
import sys

sys.path.insert(0, os.path.dirname(os.path.abspath(__file__)))
import rustmini as R  # noqa: E402
from rustmini import ParseError, strip_paren, show  # noqa: E402

HERE = os.path.dirname(os.path.abspath(__file__))
LIB = "bindings/C/src/lib.rs"

TABLES = {"ArchiveWriterConfig": "cfg", "ArchiveReaderConfig": "rcfg", "ArchiveWriter": "ar", "ArchiveFileID": "fh"}
OBJKIND = {"cfg": "wcfg", "rcfg": "rcfg", "ar": "carch", "fh": "fileid"}
KIND_TABLE = {v: k for k, v in OBJKIND.items()}
HANDLE_TYPES = ("MLAConfigHandle", "MLAArchiveHandle", "MLAArchiveFileHandle")
CB_TYPES = ("MLAWriteCallback", "MLAFlushCallback", "MlaReadCallback", "MlaSeekCallback", "MlaFileCalback")


def status_name(v):
    return "Cfg" + v[len("ConfigError"):] if v.startswith("ConfigError") and v != "ConfigError" else v


def cmt(s):
    return str(s).replace("*)", "* )").replace("(*", "( *")


class V:
    def __init__(self, text, kind, **extra):
        self.text, self.kind, self.x = text, kind, extra


class Ctx:
    def __init__(self):
        self.locals = {}
        self.s = "s"              # current cstate (cstate mode)
        self.boxes = {}           # rust name -> dict(table, origin=('val', href)|('ptr', href, idx), obj, leaked)
        self.nulled = set()       # href names whose variable was set to NULL
        self.mode = "cstate"
        self.mem = {}             # local mode: pointer param -> current memory text
        self.tr = "[]"            # file-callback trace
        self.accepted = "[]"
        self.sinks = "sk_none"
        self.loop = None          # (loop fn name, iter rest, carried names)
        self.info = None          # info mode: dict field -> text
        self.uses_io = False

    def copy(self):
        c = Ctx()
        c.__dict__.update(self.__dict__)
        c.locals = dict(self.locals)
        c.boxes = {k: dict(v) for k, v in self.boxes.items()}
        c.nulled = set(self.nulled)
        c.mem = dict(self.mem)
        c.info = dict(self.info) if self.info is not None else None
        return c


class Tr:
    def __init__(self, info_fields):
        self.n = 0
        self.aux = []
        self.uses_io = False
        self.info_fields = info_fields

    def fresh(self, base):
        self.n += 1
        return "%s%d" % (re.sub(r"\W", "", base) or "v", self.n)

    # ------------------------------------------------------------ exits
    def exit(self, c, res):
        """leave the function with the cres `res`"""
        if c.loop is not None:
            return "(%s, inr (%s))" % (c.tr, res)
        if c.mode == "cstate":
            st = c.s
            for name, b in c.boxes.items():
                org = b["origin"]
                if b["leaked"]:
                    if org[1] not in c.nulled:
                        st = "(put_%s %s %s %s)" % (b["table"], st, org[1], b["obj"])
                elif org[0] == "val" or org[1] not in c.nulled:
                    return "(%s, CCrash DanglingHandle)" % st
            return "(%s, %s)" % (st, res)
        if c.mode == "extract":
            return "(mkXS %s (%s) %s %s %s)" % (c.mem.get("config", "None"), res, c.tr, c.accepted, c.sinks)
        if c.mode == "info":
            got = [f for f in self.info_fields if f in c.info]
            if not got:
                return "(%s, None)" % res
            if got != self.info_fields:
                raise ParseError("ArchiveInfo partially written")
            return "(%s, Some (%s))" % (res, ", ".join(c.info[f] for f in self.info_fields))
        raise ParseError("mode")

    def crash(self, c, site="NullDeref"):
        c2 = c.copy()
        c2.boxes = {}             # a crash is a crash: no Box discipline to report
        if c.loop is not None:
            return "(%s, inr (CCrash %s))" % (c.tr, site)
        return self.exit(c2, "CCrash " + site)

    # ------------------------------------------------------------ conditions and pure values
    def status_of(self, e):
        e = strip_paren(e)
        if e[0] == "path" and (e[1].startswith("MLAStatus::") or e[1].startswith("Self::")):
            return V(status_name(e[1].split("::")[1]), "status")
        return None

    def table_of(self, v, c):
        t = v.x.get("table")
        if t is None:
            raise ParseError("handle of unknown kind: " + v.text)
        return t

    def is_null(self, v, c):
        if v.kind == "hptr":
            if c.mode != "cstate":
                return V("(is_none %s)" % c.mem[v.text], "bool")
            return V("(isnull %s)" % v.text, "bool")
        if v.kind == "hval":
            return V("(is_none %s)" % v.text, "bool")
        if v.kind == "key":
            return V("(key_is_null %s)" % v.text, "bool")
        if v.kind in ("name", "buf"):
            return V("(is_none %s)" % v.text, "bool")
        if v.kind == "infoptr":
            return V("(negb %s)" % v.text, "bool")
        raise ParseError("is_null on " + v.kind)

    def pe(self, e, c):
        e = strip_paren(e)
        k = e[0]
        st = self.status_of(e)
        if st is not None:
            return st
        if k == "int":
            return V(str(e[1]), "N")
        if k == "path":
            if e[1] in c.locals:
                return c.locals[e[1]]
            if e[1] == "u32::MAX":
                return V("U32_MAX", "N")
            raise ParseError("unknown name " + e[1])
        if k == "un" and e[1] in ("&", "&mut"):
            return self.pe(e[2], c)
        if k == "un" and e[1] == "*":
            v = self.pe(e[2], c)
            if v.kind == "box":
                return V(c.boxes[v.text]["obj"], OBJKIND[c.boxes[v.text]["table"]])
            raise ParseError("deref of " + v.kind)
        if k == "un" and e[1] == "!":
            return V("(negb %s)" % self.as_bool(self.pe(e[2], c)), "bool")
        if k == "cast" and e[2] in ("usize", "u64"):
            return self.pe(e[1], c)
        if k == "bin":
            op = e[1]
            if op in ("||", "&&"):
                return V("(%s %s %s)" % (self.as_bool(self.pe(e[2], c)), op, self.as_bool(self.pe(e[3], c))), "bool")
            a, b = self.pe(e[2], c), self.pe(e[3], c)
            if a.kind == b.kind == "Z" and op in (">", "<", "=="):
                return V({"<": "(%s <? %s)%%Z", ">": "(%s >? %s)%%Z", "==": "(%s =? %s)%%Z"}[op] % (a.text, b.text), "bool")
            if a.kind != "N" or b.kind != "N":
                raise ParseError("arithmetic on %s, %s" % (a.kind, b.kind))
            tbl = {"==": "(%s =? %s)", "!=": "(negb (%s =? %s))", "<": "(%s <? %s)", "<=": "(%s <=? %s)",
                   "+": "(%s + %s)", "-": "(%s - %s)"}
            if op == ">":
                return V("(%s <? %s)" % (b.text, a.text), "bool")
            if op == ">=":
                return V("(%s <=? %s)" % (b.text, a.text), "bool")
            if op in tbl:
                return V(tbl[op] % (a.text, b.text), "bool" if op in ("==", "!=", "<", "<=") else "N")
        if k == "mcall":
            m, args = e[2], e[3]
            if m == "is_null" and not args:
                return self.is_null(self.pe(e[1], c), c)
            recv = self.pe(e[1], c)
            if m == "is_empty" and not args and recv.kind == "N":     # Vec<Key> = its length
                return V("(%s =? 0)" % recv.text, "bool")
            if m == "len" and not args and recv.kind == "buflen":
                return V(recv.text, "N")
            if m in ("max", "min") and len(args) == 1 and recv.kind in ("N", "Z"):
                a = self.pe(args[0], c)
                a_text = a.text + "%Z" if recv.kind == "Z" and a.kind == "N" else a.text
                return V("(%s.%s %s %s)" % (recv.kind, m, recv.text, a_text), recv.kind)
            if m == "bits" and not args and recv.kind == "layers":
                return V("(r_layers_bits %s)" % recv.text, "N")
        if k == "field":
            base = self.pe(e[1], c)
            if base.kind == "fw":
                f = {"write_callback": ("fst (fst %s)", "optcb"), "flush_callback": ("snd (fst %s)", "optcb"),
                     "context": ("snd %s", "ctx")}.get(e[2])
                if f:
                    return V("(%s)" % (f[0] % base.text), f[1])
            if base.kind == "header":
                if e[2] == "format_version":
                    return V("(r_format_version %s)" % base.text, "N")
                if e[2] == "config":
                    return V(base.text, "hconfig")
            if base.kind == "hconfig" and e[2] == "layers_enabled":
                return V(base.text, "layers")
        if k == "call" and e[1][0] == "path":
            fn, args = e[1][1], e[2]
            if fn in ("MLAStatus::from", "Self::from") and len(args) == 1:
                return V("(status_from_error %s)" % self.err_of(args[0], c), "status")
            if fn in ("std::io::Error::from_raw_os_error", "io::Error::from_raw_os_error") and len(args) == 1:
                return V("(from_raw_os_error %s)" % self.pe(args[0], c).text, "ioerr")
        raise ParseError("expression " + show(e)[:80])

    def as_bool(self, v):
        if v.kind != "bool":
            raise ParseError("not a condition: %s (%s)" % (v.text, v.kind))
        return v.text

    def err_of(self, e, c):
        e = strip_paren(e)
        if e[0] == "path" and e[1] in c.locals and c.locals[e[1]].kind == "err":
            return c.locals[e[1]].text
        if e[0] == "call" and e[1][0] == "path" and e[1][1].startswith("MLAError::") and len(e[2]) == 1:
            var = e[1][1].split("::")[1]
            a = strip_paren(e[2][0])
            if a[0] == "path" and a[1] in c.locals:
                if var == "ConfigError" and c.locals[a[1]].kind == "cfgerr":
                    return "(ME_ConfigError %s)" % c.locals[a[1]].text
                if var == "IOError" and c.locals[a[1]].kind == "ioerr":
                    return "ME_IOError"
        raise ParseError("error value " + show(e)[:60])

    # ------------------------------------------------------------ pointer dereference (cstate mode)
    def slot(self, name, c, k):
        """index of the variable the hptr `name` points to (match on href, cached)"""
        v = c.locals[name]
        if v.x.get("idx"):
            return k(v.x["idx"], c)
        i = self.fresh("i")
        c2 = c.copy()
        c2.locals[name] = V(v.text, "hptr", **dict(v.x, idx=i))
        return "match %s with\n    | RNull => %s\n    | RSlot %s =>\n    %s\n    end" % (v.text, self.crash(c), i, k(i, c2))

    # ------------------------------------------------------------ values with effects (CPS)
    def val(self, e, c, k):
        e = strip_paren(e)
        kind = e[0]
        if kind == "block":
            return self.stmts(list(e[1]), e[2], c, k)
        if kind == "match":
            return self.match(e, c, k)
        if kind == "return":
            return self.exit(c, "Ret " + self.expect_status(self.pe(e[1], c)))
        if kind in ("if", "for"):
            return self.stmts([("expr", e)], None, c, k)
        if kind == "struct":
            return self.struct_lit(e, c, k)
        if kind == "un" and e[1] == "*":
            inner = strip_paren(e[2])
            # *p.cast::<*mut T>()  /  *p   (read of a handle variable)
            if inner[0] == "mcall" and inner[2].startswith("cast::") and not inner[3]:
                ty = inner[2][len("cast::"):]
                m = re.match(r"<\*mut(\w+)>$", ty.replace(" ", ""))
                if not m or m.group(1) not in TABLES:
                    raise ParseError("cast " + ty)
                return self.deref_read(strip_paren(inner[1]), TABLES[m.group(1)], c, k)
            if inner[0] == "path" and inner[1] in c.locals and c.locals[inner[1]].kind == "hptr":
                return self.deref_read(inner, c.locals[inner[1]].x.get("table"), c, k)
        if kind == "call" and e[1][0] == "path":
            fn, args = e[1][1], e[2]
            if fn == "Box::from_raw" and len(args) == 1:
                a = strip_paren(args[0])
                tbl = None
                if a[0] == "mcall" and a[2].startswith("cast::") and not a[3]:
                    mt = re.match(r"cast::<(\w+)", a[2].replace(" ", ""))
                    ty = mt.group(1) if mt else None
                    if ty not in TABLES:
                        raise ParseError("cast " + a[2])
                    tbl, a = TABLES[ty], strip_paren(a[1])
                hv = self.pe(a, c)
                if hv.kind != "hval":
                    raise ParseError("Box::from_raw of " + hv.kind)
                if tbl is not None and hv.x.get("table") not in (None, tbl):
                    raise ParseError("handle cast to two kinds")
                tbl = tbl or hv.x.get("table")
                if tbl is None:
                    raise ParseError("Box::from_raw: unknown kind")
                obj = self.fresh(show(a).split(".")[0])
                body = k(V("", "newbox", table=tbl, origin=hv.x["origin"], obj=obj), c)
                return "match %s with\n    | None => %s\n    | Some %s =>\n    %s\n    end" % (hv.text, self.crash(c), obj, body)
            if fn == "Box::into_raw" and len(args) == 1 and R.strip_paren(args[0])[0] == "call" and show(strip_paren(args[0])[1]) == "Box::new":
                x = self.pe(strip_paren(args[0])[2][0], c)
                if x.kind not in KIND_TABLE:
                    raise ParseError("Box::new of " + x.kind)
                return k(V(x.text, "newhandle", table=KIND_TABLE[x.kind]), c)
            if fn == "Box::leak" and len(args) == 1:
                a = strip_paren(args[0])
                if a[0] != "path" or a[1] not in c.boxes:
                    raise ParseError("Box::leak of " + show(a))
                c2 = c.copy()
                c2.boxes[a[1]]["leaked"] = True
                return k(V("tt", "unit"), c2)
            if fn == "ArchiveWriterConfig::new" and not args:
                return k(V("(p_wcfg_new P)", "wcfg"), c)
            if fn == "ArchiveReaderConfig::new" and not args:
                return k(V("(p_rcfg_new P)", "rcfg"), c)
            if fn == "Vec::new" and not args:
                return k(V("0", "N"), c)
            if fn == "HashMap::new" and not args:
                return k(V("[]", "export"), c)
            if fn == "MaybeUninit::uninit" and not args:
                return k(V("", "uninit"), c)
            if fn == "usize::try_from" and len(args) == 1:
                return k(V(self.pe(args[0], c).text, "tryUsize"), c)
            if fn == "u32::try_from" and len(args) == 1:
                return k(V(self.pe(args[0], c).text, "tryN"), c)
            if fn == "std::slice::from_raw_parts" and len(args) == 2:
                b, n = self.pe(args[0], c), self.pe(args[1], c)
                if b.kind != "buf" or n.kind != "N":
                    raise ParseError("from_raw_parts")
                d = self.fresh("data")
                return "match %s with\n    | None => %s\n    | Some %s =>\n    %s\n    end" % (
                    b.text, self.crash(c), d, k(V("(from_raw_parts %s %s)" % (d, n.text), "bytes"), c))
            if fn in ("parse_openssl_25519_pubkeys_pem_many", "parse_openssl_25519_privkey") and len(args) == 1:
                a = self.pe(args[0], c)
                if a.kind != "keytext":
                    raise ParseError("key parser argument")
                prim = {"parse_openssl_25519_pubkeys_pem_many": ("p_parse_pubkeys_pem_many", "N"),
                        "parse_openssl_25519_privkey": ("p_parse_privkey", "key1")}[fn]
                return k(V("(%s P %s)" % (prim[0], a.text), "optres", ok=prim[1]), c)
            if fn == "ArchiveWriter::from_config" and len(args) == 2:
                cf = self.pe(args[1], c)
                if cf.kind != "wcfg" or self.pe(args[0], c).kind != "output":
                    raise ParseError("ArchiveWriter::from_config arguments")
                self.uses_io = True
                return k(V("(p_writer_from_config P %s io)" % cf.text, "lres", ok="carch", err="err"), c)
            if fn == "ArchiveReader::from_config" and len(args) == 2:
                s_, cf = self.pe(args[0], c), self.pe(args[1], c)
                if s_.kind != "src" or cf.kind != "rcfg":
                    raise ParseError("ArchiveReader::from_config arguments")
                return k(V("(r_from_config %s %s)" % (s_.text, cf.text), "lres", ok="mla", err="err"), c)
            if fn == "ArchiveHeader::from" and len(args) == 1:
                s_ = self.pe(args[0], c)
                if s_.kind != "src":
                    raise ParseError("ArchiveHeader::from argument")
                return k(V("(r_header_from %s)" % s_.text, "lres", ok="header", err="err"), c)
            if fn == "linear_extract" and len(args) == 2:
                m_, ex = self.pe(args[0], c), self.pe(args[1], c)
                if m_.kind != "mla" or ex.kind != "export":
                    raise ParseError("linear_extract arguments")
                sk, r = self.fresh("sinks"), self.fresh("r")
                c2 = c.copy()
                c2.sinks = sk
                return "let '(%s, %s) := r_linear_extract %s %s in\n    %s" % (sk, r, m_.text, ex.text, k(V(r, "lres", ok="unit", err="err"), c2))
            if fn in ("mla_roarchive_extract_internal", "mla_roarchive_info_internal"):
                return self.internal_call(fn, args, c)
        if kind == "call" and strip_paren(e[1])[0] == "path" and strip_paren(e[1])[1] in c.locals \
                and c.locals[strip_paren(e[1])[1]].kind == "cb:file":
            return self.file_callback(e[2], c, k)
        if kind == "mcall":
            return self.mcall(e, c, k)
        if kind == "bin" and e[1] in ("==", "!=") and strip_paren(e[2])[0] == "call":
            return self.val(e[2], c, lambda a, c1: k(self.pe(("bin", e[1], ("path", "__a"), e[3]), self.with_local(c1, "__a", a)), c1))
        return k(self.pe(e, c), c)

    def with_local(self, c, n, v):
        c2 = c.copy()
        c2.locals[n] = v
        return c2

    def expect_status(self, v):
        if v.kind != "status":
            raise ParseError("not an MLAStatus: " + v.text)
        return v.text

    def deref_read(self, p, tbl, c, k):
        if p[0] != "path" or p[1] not in c.locals or c.locals[p[1]].kind != "hptr":
            raise ParseError("dereference of " + show(p))
        name = p[1]
        if c.mode != "cstate":
            v = self.fresh("v")
            c2 = c.copy()
            c2.mem[name] = "(Some %s)" % v
            return "match %s with\n    | None => %s\n    | Some %s =>\n    %s\n    end" % (
                c.mem[name], self.crash(c), v, k(V(v, "hval", table=tbl, origin=("ptr", name)), c2))
        if tbl is None:
            raise ParseError("handle variable of unknown kind")
        c.locals[name].x["table"] = tbl

        def k1(i, c1):
            return k(V("(c_%s %s %s)" % (tbl, c1.s, i), "hval", table=tbl, origin=("ptr", name)), c1)
        return self.slot(name, c, k1)

    def deref_write(self, p, v, c, k):
        """*p = v   (v: null_mut() -> None | a new handle)"""
        name = p[1]
        pv = c.locals[name]
        if v is None:
            if c.mode != "cstate":
                c2 = c.copy()
                c2.mem[name] = "(Some None)"
                c2.nulled.add(name)
                return k(c2)
            tbl = pv.x.get("table")
            if tbl is None:
                raise ParseError("NULL stored in a handle variable of unknown kind")
            valtext = "None"
        else:
            if c.mode != "cstate":
                raise ParseError("handle stored in local mode")
            tbl, valtext = v.x["table"], "(Some %s)" % v.text

        def k1(i, c1):
            s1 = self.fresh("s")
            c2 = c1.copy()
            c2.s = s1
            if v is None:
                c2.nulled.add(name)
            return "let %s := set_%s %s %s %s in\n    %s" % (s1, tbl, c1.s, i, valtext, k(c2))
        return self.slot(name, c, k1)

    def struct_lit(self, e, c, k):
        name, fields = e[1], e[2]
        if name == "CallbackOutput" and [f for f, _ in fields] == ["write_callback", "flush_callback", "context"]:
            def go(items, acc, c1):
                if not items:
                    if acc[0].kind != "cb" or acc[1].kind != "cb" or acc[2].kind != "ctx":
                        raise ParseError("CallbackOutput fields: " + ",".join(a.kind for a in acc))
                    return k(V(acc[2].text, "output"), c1)
                return self.val(items[0][1], c1, lambda v, c2: go(items[1:], acc + [v], c2))
            return go(list(fields), [], c)
        if name == "CallbackInputRead" and [f for f, _ in fields] == ["read_callback", "seek_callback", "context"]:
            rc = self.pe(fields[0][1], c)
            sk = strip_paren(fields[1][1])
            if rc.kind != "cb" or self.pe(fields[2][1], c).kind != "ctx":
                raise ParseError("CallbackInputRead fields")
            if sk == ("path", "None"):
                return k(V("(r_mk_reader false)", "src"), c)
            if sk[0] == "call" and sk[1] == ("path", "Some") and self.pe(sk[2][0], c).kind == "cb":
                return k(V("(r_mk_reader true)", "src"), c)
            raise ParseError("seek_callback of the reader")
        raise ParseError("struct literal " + name)

    def file_callback(self, args, c, k):
        if len(args) != 4:
            raise ParseError("file callback arguments")
        a = [strip_paren(x) for x in args]
        if self.pe(a[0], c).kind != "ctx":
            raise ParseError("file callback context")
        nm = None
        for x, meth in ((a[1], "as_ptr"), (a[2], "len")):
            if x[0] != "mcall" or x[2] != meth or x[3] or self.pe(x[1], c).kind != "fname":
                raise ParseError("file callback name arguments")
            nm = self.pe(x[1], c).text
        if a[3][0] != "mcall" or a[3][2] != "as_mut_ptr" or strip_paren(a[3][1])[0] != "path":
            raise ParseError("file callback FileWriter argument")
        fwname = strip_paren(a[3][1])[1]
        if fwname not in c.locals or c.locals[fwname].kind != "uninit":
            raise ParseError("FileWriter is not a fresh MaybeUninit")
        ret, fw, tr1 = self.fresh("ret"), self.fresh("fw"), self.fresh("tr")
        c2 = c.copy()
        c2.tr = tr1
        c2.locals[fwname] = V(fw, "uninit_filled")
        return "let '(%s, %s) := r_file_callback %s %s in\n    let %s := %s ++ [%s] in\n    %s" % (
            ret, fw, c.tr, nm, tr1, c.tr, nm, k(V(ret, "N"), c2))

    def internal_call(self, fn, args, c):
        if fn not in TRANSLATED:
            raise ParseError("the callee %s was not translated" % fn)
        if fn == "mla_roarchive_extract_internal":
            if len(args) != 4 or c.mode != "extract":
                raise ParseError("call of the internal function")
            cfgp, s_, fcb, ctx = [self.pe(a, c) for a in args]
            if cfgp.kind != "hptr" or s_.kind != "src" or fcb.kind != "cb" or ctx.kind != "ctx":
                raise ParseError("arguments of the internal function")
            return "mla_roarchive_extract_internal %s %s" % (c.mem[cfgp.text], s_.text)
        if len(args) != 2 or c.mode != "info":
            raise ParseError("call of the internal function")
        s_, io = self.pe(args[0], c), self.pe(args[1], c)
        if s_.kind != "src" or io.kind != "infoptr":
            raise ParseError("arguments of the internal function")
        return "mla_roarchive_info_internal %s %s" % (s_.text, io.text)

    def mcall(self, e, c, k):
        recv, m, args = strip_paren(e[1]), e[2], e[3]
        # CStr::from_ptr(x).to_bytes() / .to_string_lossy()
        if m in ("to_bytes", "to_string_lossy") and not args:
            r0 = recv
            if r0[0] == "block" and not r0[1] and r0[2] is not None:
                r0 = strip_paren(r0[2])
            if r0[0] == "call" and show(r0[1]) == "CStr::from_ptr" and len(r0[2]) == 1:
                a = self.pe(r0[2][0], c)
                if a.kind == "key" and m == "to_bytes":
                    return "if key_is_null %s then %s else\n    %s" % (a.text, self.crash(c), k(V(a.text, "keytext"), c))
                if a.kind == "name" and m == "to_string_lossy":
                    n = self.fresh("name")
                    return "match %s with\n    | None => %s\n    | Some %s =>\n    %s\n    end" % (a.text, self.crash(c), n, k(V(n, "nametext"), c))
            raise ParseError("C string " + show(e)[:60])
        if m == "assume_init" and not args and recv[0] == "path" and c.locals.get(recv[1]) and c.locals[recv[1]].kind == "uninit_filled":
            return k(V(c.locals[recv[1]].text, "fw"), c)
        if m == "map_or" and len(args) == 2:
            # OPT.map_or(default, |v| body)
            clo = strip_paren(args[1])
            if clo[0] != "closure":
                raise ParseError("map_or closure")

            def k1(o, c1):
                if o.kind == "tryN":           # u32::try_from(x).map_or(d, |n| n)
                    n = clo[1].strip()
                    d = self.pe(args[0], c1)
                    inner = self.pe(clo[2], self.with_local(c1, n, V(n, "N")))
                    return k(V("(match u32_try_from %s with Some %s => %s | None => %s end)" % (o.text, n, inner.text, d.text), "N"), c1)
                if o.kind != "optres":
                    raise ParseError("map_or on " + o.kind)
                v = self.fresh(clo[1].strip())
                c2 = self.with_local(c1, clo[1].strip(), V(v if o.x["ok"] == "N" else "1", "N"))
                some = self.val(clo[2], c2, k)
                none = self.val(args[0], c1, k)
                return "match %s with\n    | Some %s =>\n    %s\n    | None =>\n    %s\n    end" % (o.text, v, some, none)
            return self.val(recv, c, k1)
        if m == "list_files" and not args and self.pe(recv, c).kind == "mla":
            return k(V("(r_list_files %s)" % self.pe(recv, c).text, "lres", ok="keysiter", err="err"), c)
        if m == "collect" and not args and recv[0] == "mcall" and recv[2] == "cloned" and self.pe(recv[1], c).kind == "keysiter":
            return k(V(self.pe(recv[1], c).text, "names"), c)
        if recv[0] == "path" and recv[1] in c.locals:
            name = recv[1]
            lv = c.locals[name]
            # mutation of a local library object
            if lv.kind == "wcfg" and m == "set_layers" and len(args) == 1 and show(args[0]) == "Layers::DEFAULT":
                return k(V("tt", "unit"), self.with_local(c, name, V("(p_set_layers_default P %s)" % lv.text, "wcfg")))
            if lv.kind == "N" and m == "push" and len(args) == 1 and self.pe(args[0], c).kind == "N":
                return k(V("tt", "unit"), self.with_local(c, name, V("(%s + %s)" % (lv.text, self.pe(args[0], c).text), "N")))
            if lv.kind == "names" and m == "sort" and not args:
                return k(V("tt", "unit"), self.with_local(c, name, V("(r_sort %s)" % lv.text, "names")))
            if lv.kind == "export" and m == "insert" and len(args) == 2:
                kx = self.pe(args[0], c)
                if kx.kind != "fname":
                    raise ParseError("export key")
                return self.val(args[1], c, lambda o, c1: self.insert(name, kx, o, c1, k))
            if lv.kind == "box":
                return self.box_call(name, m, args, c, k)
        return k(self.pe(e, c), c)

    def insert(self, name, kx, o, c, k):
        if o.kind != "output":
            raise ParseError("export value is not a CallbackOutput: " + o.kind)
        lv = c.locals[name]
        return k(V("tt", "unit"), self.with_local(c, name, V("(%s ++ [(%s, %s)])" % (lv.text, kx.text, o.text), "export")))

    def box_call(self, name, m, args, c, k):
        b = c.boxes[name]
        obj, tbl = b["obj"], b["table"]
        a = [self.pe(x, c) for x in args]
        ak = [x.kind for x in a]

        def upd(newobj):
            c2 = c.copy()
            c2.boxes[name]["obj"] = newobj
            return c2
        if tbl == "cfg" and m == "add_public_keys" and ak == ["N"]:
            return k(V("tt", "unit"), upd("(p_add_public_keys P %s %s)" % (obj, a[0].text)))
        if tbl == "rcfg" and m == "add_private_keys" and ak == ["N"]:
            return k(V("tt", "unit"), upd("(p_add_private_keys P %s %s)" % (obj, a[0].text)))
        o2, r = self.fresh(name), self.fresh("r")
        if tbl == "cfg" and m == "with_compression_level" and ak == ["N"]:
            call, rk = "p_with_compression_level P %s %s" % (obj, a[0].text), V(r, "lres", ok="unit", err="cfgerr")
        elif tbl == "ar" and m == "start_file" and ak == ["nametext"]:
            call, rk = "p_start_file P %s %s io" % (obj, a[0].text), V(r, "lres", ok="fileid", err="err")
        elif tbl == "ar" and m == "append_file_content" and ak == ["fileid", "N", "bytes"]:
            call, rk = "p_append_file_content P %s %s %s %s io" % (obj, a[0].text, a[1].text, a[2].text), V(r, "lres", ok="unit", err="err")
        elif tbl == "ar" and m == "flush" and not a:
            call, rk = "p_flush P %s io" % obj, V(r, "lres", ok="unit", err="ioerr")
        elif tbl == "ar" and m == "end_file" and ak == ["fileid"]:
            call, rk = "p_end_file P %s %s io" % (obj, a[0].text), V(r, "lres", ok="unit", err="err")
        elif tbl == "ar" and m == "finalize" and not a:
            call, rk = "p_finalize P %s io" % obj, V(r, "lres", ok="unit", err="err")
        else:
            raise ParseError("method %s on a %s box" % (m, tbl))
        if " io" in call:
            self.uses_io = True
        return "let '(%s, %s) := %s in\n    %s" % (o2, r, call, k(rk, upd(o2)))

    # ------------------------------------------------------------ match
    def match(self, e, c, k):
        scrut = strip_paren(e[1])
        arms = e[2]

        def on(v, c1):
            if v.kind == "optcb":
                pats = sorted(p for p, g, b in arms)
                if pats != ["None", "Some(x)"] or any(g for _, g, _ in arms):
                    raise ParseError("callback match arms")
                some = [b for p, g, b in arms if p == "Some(x)"][0]
                none = [b for p, g, b in arms if p == "None"][0]
                return "if %s then\n    %s\n    else\n    %s" % (
                    v.text, self.val(some, self.with_local(c1, "x", V("tt", "cb")), k), self.val(none, c1, k))
            if v.kind == "lres":
                def chain(cands, cc, fallback):
                    if not cands:
                        if fallback is None:
                            raise ParseError("non-exhaustive match")
                        return fallback
                    (bind, g, b), rest = cands[0], cands[1:]
                    c2 = cc.copy()
                    if bind:
                        c2.locals[bind[0]] = bind[1]
                    body = self.val(b, c2, k)
                    if g is None:
                        return body
                    return "if %s then\n    %s\n    else\n    %s" % (self.as_bool(self.pe(g, c2)), body, chain(rest, cc, fallback))
                okv, erv = self.fresh("v"), self.fresh("e")
                oks, ers = [], []
                for p, g, b in arms:
                    mo = re.match(r"Ok\((\w+|\(\))\)$", p)
                    me = re.match(r"Err\((\w+)\)$", p)
                    if mo:
                        bind = None
                        if mo.group(1) not in ("_", "()"):
                            bind = (mo.group(1), V(okv, v.x["ok"]))
                        oks.append((bind, g, b))
                    elif me:
                        ers.append(((me.group(1), V(erv, v.x["err"])) if me.group(1) != "_" else None, g, b))
                    elif p == "_":
                        oks.append((None, g, b))
                        ers.append((None, g, b))
                    else:
                        raise ParseError("pattern " + p)
                return ("match %s with\n    | LOk %s =>\n    %s\n    | LErr %s =>\n    %s\n    | LCrash site =>\n    %s\n    end"
                        % (v.text, okv, chain(oks, c1, None), erv, chain(ers, c1, None), self.crash(c1, "site")))
            if v.kind == "optres":
                okv = self.fresh("v")
                somes, nones = [], []
                for p, g, b in arms:
                    mo = re.match(r"Ok\((\w+)\)$", p)
                    if mo:
                        somes.append((mo.group(1), g, b))
                    elif p in ("_", "Err(_)"):
                        somes.append((None, g, b))
                        nones.append((None, g, b))
                    else:
                        raise ParseError("pattern " + p)

                def chain2(cands, bound):
                    if not cands:
                        raise ParseError("non-exhaustive match")
                    (n, g, b), rest = cands[0], cands[1:]
                    c2 = c1.copy()
                    if n and n != "_":
                        if not bound:
                            raise ParseError("binding in a None arm")
                        c2.locals[n] = V(okv if v.x["ok"] == "N" else "1", "N")
                    body = self.val(b, c2, k)
                    if g is None:
                        return body
                    return "if %s then\n    %s\n    else\n    %s" % (self.as_bool(self.pe(g, c2)), body, chain2(rest, bound))
                return "match %s with\n    | Some %s =>\n    %s\n    | None =>\n    %s\n    end" % (v.text, okv, chain2(somes, True), chain2(nones, False))
            if v.kind == "N":
                def chain3(cands):
                    if not cands:
                        raise ParseError("non-exhaustive integer match")
                    (p, g, b), rest = cands[0], cands[1:]
                    c2 = c1.copy()
                    if re.match(r"\d+$", p):
                        cond = "(%s =? %s)" % (v.text, p)
                    elif re.match(r"[a-z_]\w*$", p):
                        cond = None
                        if p != "_":
                            c2.locals[p] = v
                    else:
                        raise ParseError("integer pattern " + p)
                    if g is not None:
                        gt = self.as_bool(self.pe(g, c2))
                        cond = gt if cond is None else "(%s && %s)" % (cond, gt)
                    body = self.val(b, c2, k)
                    if cond is None:
                        return body
                    return "if %s then\n    %s\n    else\n    %s" % (cond, body, chain3(rest))
                return chain3(list(arms))
            raise ParseError("match on " + v.kind)
        return self.val(scrut, c, on)

    # ------------------------------------------------------------ statements
    def stmts(self, ss, tail, c, k):
        if not ss:
            if tail is None:
                return k(V("tt", "unit"), c)
            return self.val(tail, c, k)
        s, rest = ss[0], ss[1:]
        go = lambda c2: self.stmts(rest, tail, c2, k)   # noqa: E731
        if s[0] == "let":
            pat, ty, e, els = s[1], s[2], s[3], s[4]
            name = re.sub(r"^mut\s+", "", pat)
            if els is not None:
                mo = re.match(r"Ok\((\w+)\)$", pat)
                eb = els
                if not mo or not (len(eb[1]) == 1 and strip_paren(eb[1][0][1])[0] == "return" and eb[2] is None):
                    raise ParseError("let-else " + pat)

                def k0(v, c1):
                    if v.kind != "tryUsize":
                        raise ParseError("let-else on " + v.kind)
                    self.pe(strip_paren(eb[1][0][1])[1], c1)      # the else branch is a `return <status>`
                    return go(self.with_local(c1, mo.group(1), V(v.text, "N")))
                return self.val(e, c, k0)
            if not re.match(r"\w+$", name):
                raise ParseError("let pattern " + pat)
            if e is None:
                raise ParseError("let without value")

            def k1(v, c1):
                c2 = c1.copy()
                if v.kind == "newbox":
                    c2.boxes[name] = {"table": v.x["table"], "origin": v.x["origin"], "obj": v.x["obj"], "leaked": False}
                    c2.locals[name] = V(name, "box")
                elif v.kind == "unit" and ty and ty.startswith("u") and False:
                    pass
                else:
                    if v.kind == "hval" and v.x.get("origin") is None:
                        raise ParseError("handle value without origin")
                    if v.kind in ("N", "bool", "status") and len(v.text) > 12 and v.kind != "status":
                        g = self.fresh(name)
                        c2.locals[name] = V(g, v.kind, **v.x)
                        return "let %s := %s in\n    %s" % (g, v.text, go(c2))
                    c2.locals[name] = v
                return go(c2)
            return self.val(e, c, k1)
        e = strip_paren(s[1])
        if e[0] == "block" and s[0] in ("semi", "expr"):
            return self.stmts(list(e[1]) + ([("semi", e[2])] if e[2] is not None else []) + rest, tail, c, k)
        if e[0] == "assign" and e[1] == "=":
            lhs, rhs = strip_paren(e[2]), strip_paren(e[3])
            if lhs[0] == "un" and lhs[1] == "*" and strip_paren(lhs[2])[0] == "path":
                p = strip_paren(lhs[2])
                if p[1] in c.locals and c.locals[p[1]].kind == "hptr":
                    if rhs[0] == "call" and show(rhs[1]) == "null_mut" and not rhs[2]:
                        return self.deref_write(p, None, c, go)
                    if rhs[0] == "cast" and rhs[2] in HANDLE_TYPES:
                        v = self.pe(rhs[1], c)
                        if v.kind != "newhandle":
                            raise ParseError("stored value is not a fresh handle")
                        return self.deref_write(p, v, c, go)
            if lhs[0] == "field" and strip_paren(lhs[1])[0] == "un" and strip_paren(lhs[1])[1] == "*":
                p = strip_paren(strip_paren(lhs[1])[2])
                if p[0] == "path" and p[1] in c.locals and c.locals[p[1]].kind == "infoptr" and c.mode == "info" and lhs[2] in self.info_fields:
                    v = self.pe(rhs, c)
                    if v.kind != "N":
                        raise ParseError("ArchiveInfo field value")
                    c2 = c.copy()
                    c2.info[lhs[2]] = v.text
                    return "if negb %s then %s else\n    %s" % (c.locals[p[1]].text, self.crash(c), go(c2)) if not c.info else go(c2)
            raise ParseError("assignment " + show(e)[:60])
        if e[0] == "if":
            cond, th, el = e[1], e[2], e[3]
            if cond[0] == "letcond":
                raise ParseError("if let")

            def kc(cv, c1):
                t = self.stmts(list(th[1]), th[2], c1, lambda v, c2: go(c2))
                if el is None:
                    f = go(c1)
                else:
                    f = self.stmts(list(el[1]), el[2], c1, lambda v, c2: go(c2))
                return "if %s then\n    %s\n    else\n    %s" % (self.as_bool(cv), t, f)
            # NOTE: locals changed inside a branch that falls through are kept per branch (the rest is emitted per branch)
            return self.val(cond, c, kc)
        if e[0] == "for":
            return self.for_loop(e, c, go)
        if e[0] == "return":
            return self.val(e, c, None)
        return self.val(e, c, lambda v, c2: go(c2))

    def for_loop(self, e, c, go):
        lab, pat, it, body = e[1], e[2], strip_paren(e[3]), e[4]
        if lab is not None or not re.match(r"\w+$", pat) or c.loop is not None or c.mode != "extract":
            raise ParseError("for loop shape")
        itv = self.pe(it, c)
        if itv.kind != "names":
            raise ParseError("for over " + itv.kind)
        carried = [n for n, v in c.locals.items() if v.kind == "export"]
        if len(carried) != 1:
            raise ParseError("loop-carried variables")
        ex = carried[0]
        fname = "mla_roarchive_extract_internal_loop"
        ci = c.copy()
        ci.loop = fname
        ci.tr = "tr"
        ci.locals = {n: v for n, v in c.locals.items() if v.kind in ("cb", "cb:file", "ctx")}
        ci.locals[pat] = V(pat, "fname")
        ci.locals[ex] = V(ex, "export")
        ci.boxes = {}
        rec = lambda v, c2: "%s iter' %s %s" % (fname, c2.tr, c2.locals[ex].text)   # noqa: E731
        inner = self.stmts(list(body[1]), body[2], ci, rec)
        self.aux.append(
            "  Fixpoint %s (iter tr : list bytes) (%s : list (bytes * list cbev)) {struct iter}\n"
            "      : list bytes * (list (bytes * list cbev) + cres) :=\n"
            "    match iter with\n    | [] => (tr, inl %s)\n    | %s :: iter' =>\n    %s\n    end." % (fname, ex, ex, pat, inner))
        tr1, ex1, r1 = self.fresh("tr"), self.fresh(ex), self.fresh("r")
        c_ok = c.copy()
        c_ok.tr = tr1
        c_ok.locals[ex] = V(ex1, "export")
        c_ok.accepted = "(map fst %s)" % ex1
        c_bad = c.copy()
        c_bad.tr = tr1
        return ("match %s %s %s %s with\n    | (%s, inl %s) =>\n    %s\n    | (%s, inr %s) => %s\n    end"
                % (fname, itv.text, c.tr, c.locals[ex].text, tr1, ex1, go(c_ok), tr1, r1, self.exit(c_bad, r1)))


# ====================================================================== items

def params_of(sig):
    """[(name, type text)] of a fn signature text `fn name<..>(a: T, ...) -> R`"""
    i = sig.index("(")
    depth, j = 0, i
    while True:
        if sig[j] == "(":
            depth += 1
        elif sig[j] == ")":
            depth -= 1
            if depth == 0:
                break
        j += 1
    inner = sig[i + 1:j]
    out, depth, cur = [], 0, ""
    for ch in inner:
        if ch in "(<[":
            depth += 1
        elif ch in ")>]":
            depth -= 1
        if ch == "," and depth == 0:
            out.append(cur)
            cur = ""
        else:
            cur += ch
    if cur.strip():
        out.append(cur)
    res = []
    for p in out:
        p = p.strip()
        if p in ("&mut self", "&self", "self"):
            res.append(("self", p))
            continue
        n, t = p.split(":", 1)
        res.append((re.sub(r"^mut\s+", "", n.strip()), re.sub(r"\s+", " ", t.strip())))
    return res


def prescan_table(body, name):
    """the handle kind a by-value handle / a handle variable is cast to in the body"""
    names = [name] + re.findall(r"let\s+(\w+)\s*=\s*unsafe\s*\{\s*\*%s\s*\}" % re.escape(name), body)
    for n in names:
        m = re.search(r"\b%s\s*\.cast::<\s*(?:\*mut\s+)?(\w+)" % re.escape(n), body)
        if m and m.group(1) in TABLES:
            return TABLES[m.group(1)]
    return None


def extern_fn(src, fn, tr_info):
    r = R.fn_text(src, fn)
    if r is None:
        raise ParseError("fn %s not found" % fn)
    body_text = r[0].replace("&raw mut ", "&mut ")
    body = R.parse_body(body_text)
    tr = Tr(tr_info)
    c = Ctx()
    mode = {"mla_roarchive_extract": "extract", "mla_roarchive_extract_internal": "extract",
            "mla_roarchive_info": "info", "mla_roarchive_info_internal": "info"}.get(fn, "cstate")
    c.mode = mode
    if mode == "info":
        c.info = {}
    binders = []
    for n, t in params_of(r[2]):
        if t.startswith("*mut ") and t[5:] in HANDLE_TYPES:
            c.locals[n] = V(n, "hptr", table=prescan_table(body_text, n))
            if mode == "cstate":
                binders.append("(%s : href)" % n)
            else:
                binders.append("(%s : option (option CfgT))" % n)
                c.mem[n] = n
        elif t in HANDLE_TYPES:
            tbl = prescan_table(body_text, n)
            if tbl is None or mode != "cstate":
                raise ParseError("kind of the handle " + n)
            c.locals[n] = V("(sget (c_%s s) %s)" % (tbl, n), "hval", table=tbl, origin=("val", n))
            binders.append("(%s : href)" % n)
        elif t == "*const c_char":
            if "parse_openssl_25519" in body_text:
                c.locals[n] = V(n, "key")
                binders.append("(%s : keyarg)" % n)
            else:
                c.locals[n] = V(n, "name")
                binders.append("(%s : option bytes)" % n)
        elif t == "*const u8":
            c.locals[n] = V(n, "buf")
            binders.append("(%s : option bytes)" % n)
        elif t in ("u32", "u64"):
            c.locals[n] = V(n, "N")
            binders.append("(%s : N)" % n)
        elif t in CB_TYPES:
            c.locals[n] = V(n, "optcb")
            binders.append("(%s : bool)" % n)
        elif t == "MlaFileCalbackRaw":
            c.locals[n] = V("tt", "cb:file")
        elif t == "*mut c_void":
            c.locals[n] = V("tt", "ctx")
        elif t == "*mut ArchiveInfo":
            c.locals[n] = V(n, "infoptr")
            binders.append("(%s : bool)" % n)
        elif t in ("R", "&mut R"):
            c.locals[n] = V(n, "src")
            binders.append("(%s : SrcT)" % n)
        else:
            raise ParseError("parameter %s: %s" % (n, t))
    # a Some(x) callback bound by `let x = match x { None => return …, Some(x) => x }` becomes kind cb
    g = tr.stmts(list(body[1]), body[2], c, lambda v, c2: tr.exit(c2, "Ret " + tr.expect_status(v)))
    if mode == "cstate":
        rty = "cstate * cres"
        binders = ["(s : cstate)"] + binders + (["(io : ioev)"] if tr.uses_io else [])
    elif mode == "extract":
        rty = "xoutS CfgT"
    else:
        rty = "cres * option (N * N)"
    head = "(* %s:%d fn %s *)" % (LIB, r[1], fn)
    return "\n".join(tr.aux + ["  %s\n  Definition %s %s : %s :=\n    %s." % (head, fn, " ".join(binders), rty, g)])


def enum_variants(src, name):
    m = re.search(r"pub enum %s\s*\{" % name, src)
    if not m:
        raise ParseError("enum %s not found" % name)
    j = R.match_brace(src, m.end() - 1)
    body = R.strip_comments(src[m.end():j])
    out, depth, cur = [], 0, ""
    for ch in body:
        if ch in "({":
            depth += 1
        elif ch in ")}":
            depth -= 1
        if ch == "," and depth == 0:
            out.append(cur)
            cur = ""
        else:
            cur += ch
    out.append(cur)
    res = []
    for it in out:
        it = it.strip()
        if not it:
            continue
        mm = re.match(r"(\w+)\s*(\(|\{|=|$)", it)
        if not mm:
            raise ParseError("variant " + it[:30])
        res.append((mm.group(1), mm.group(2) in ("(", "{")))
    return res


def status_from_error(lib, errs, cfgs):
    m = re.search(r"impl From<MLAError> for MLAStatus\s*\{", lib)
    if not m:
        raise ParseError("impl From<MLAError> for MLAStatus not found")
    r = R.fn_text(lib, "from", 0, r"impl From<MLAError> for MLAStatus\s*\{")
    body = R.parse_body(r[0])
    if body[1] or body[2] is None or strip_paren(body[2])[0] != "match" or show(strip_paren(body[2])[1]) != "err":
        raise ParseError("status map is not one match on err")
    names = dict(errs)
    lines = []
    for p, g, b in strip_paren(body[2])[2]:
        if g is not None:
            raise ParseError("guard in the status map")
        b = strip_paren(b)
        if b[0] == "block" and not b[1] and b[2] is not None:
            b = strip_paren(b[2])
        if b[0] != "path" or not b[1].startswith("Self::"):
            raise ParseError("status arm body " + show(b)[:40])
        st = status_name(b[1][6:])
        mm = re.match(r"MLAError::(\w+)(?:\((.*)\)|\{(.*)\})?$", p)
        if not mm or mm.group(1) not in names:
            raise ParseError("status arm pattern " + p)
        var, pl = mm.group(1), mm.group(2)
        if var == "ConfigError":
            m2 = re.match(r"ConfigError::(\w+)$", pl or "")
            if m2 and m2.group(1) in dict(cfgs):
                lines.append("    | ME_ConfigError CE_%s => %s" % (m2.group(1), st))
            elif pl == "_":
                lines.append("    | ME_ConfigError _ => %s" % st)
            else:
                raise ParseError("status arm pattern " + p)
        else:
            if names[var] and pl is None and mm.group(3) is None:
                raise ParseError("payload of " + var)
            if pl not in (None, "_") or (mm.group(3) is not None and not re.match(r"^(\w+:_,?)*$", mm.group(3))):
                raise ParseError("status arm looks at the payload: " + p)
            lines.append("    | ME_%s => %s" % (var, st))
    return ("(* %s:%d impl From<MLAError> for MLAStatus *)\nDefinition status_from_error (err : MLAError) : status :=\n    match err with\n%s\n    end."
            % (LIB, r[1], "\n".join(lines)))


def adapter_write(lib, which):
    """impl Write for CallbackOutput: write / flush;  impl Read for CallbackInputRead: read"""
    within, fn, cbf, coq = {"write": (r"impl Write for CallbackOutput\s*\{", "write", "write_callback", "CallbackOutput_write"),
                            "read": (r"impl Read for CallbackInputRead\s*\{", "read", "read_callback", "CallbackInputRead_read"),
                            "flush": (r"impl Write for CallbackOutput\s*\{", "flush", "flush_callback", "CallbackOutput_flush")}[which]
    r = R.fn_text(lib, fn, 0, within)
    if r is None:
        raise ParseError("fn %s not found" % fn)
    body = R.parse_body(r[0].replace("&raw mut ", "&mut "))
    tr = Tr([])
    c = Ctx()
    c.mode = "adapter"
    head = "(* %s:%d fn %s *)" % (LIB, r[1], fn)
    pre = []
    ss = list(body[1])
    out_name = None
    if which in ("write", "read"):
        c.locals["buf"] = V("buf_len", "buflen")
        if len(ss) != 2 or ss[0][0] != "let" or ss[1][0] != "let":
            raise ParseError("adapter statements")

        def klen(v, c1):
            pre.append("let len := %s in" % v.text)
            return ""
        tr.val(ss[0][3], c, klen)
        if ss[0][1] != "len":
            raise ParseError("adapter: first let")
        out_name = re.sub(r"^mut\s+", "", ss[1][1])
        if ss[1][2] != "u32" or strip_paren(ss[1][3]) != ("int", 0):
            raise ParseError("adapter: the out parameter is not initialised to 0")
        c.locals["len"] = V("len", "N")
    elif ss:
        raise ParseError("adapter statements")
    t = strip_paren(body[2])
    if t[0] != "match":
        raise ParseError("adapter tail")
    call = strip_paren(t[1])
    want = ["buf.as_ptr()" if which == "write" else "buf.as_mut_ptr()", "len", "self.context", "&mut " + (out_name or "")] if which != "flush" else ["self.context"]
    if call[0] != "call" or show(strip_paren(call[1])) != "self." + cbf or [show(a) for a in call[2]] != want:
        raise ParseError("callback invocation " + show(call)[:80])
    # the invocation: return code and final value of the out parameter
    c.locals["__ret"] = V("ret", "N")
    if out_name:
        c.locals[out_name] = V(out_name + "'", "N")

    def karm(v, c1):
        return v
    arms = []
    for p, g, b in t[2]:
        arms.append((p, g, b))

    def ioval(b, c2):
        b = strip_paren(b)
        if b[0] == "call" and b[1] == ("path", "Ok") and len(b[2]) == 1:
            a = strip_paren(b[2][0])
            if a[0] == "unit":
                return "IoROk tt"
            return "IoROk %s" % tr.pe(a, c2).text
        if b[0] == "call" and b[1] == ("path", "Err") and len(b[2]) == 1:
            v = tr.pe(b[2][0], c2)
            if v.kind != "ioerr":
                raise ParseError("adapter error value")
            return "IoRErr %s" % v.text
        raise ParseError("adapter arm " + show(b)[:50])

    def chain(cands):
        if not cands:
            raise ParseError("non-exhaustive integer match")
        (p, g, b), rest = cands[0], cands[1:]
        c2 = c.copy()
        cond = None
        if re.match(r"\d+$", p):
            cond = "(ret =? %s)" % p
        elif re.match(r"[a-z_]\w*$", p):
            if p != "_":
                c2.locals[p] = V("ret", "N")
        else:
            raise ParseError("integer pattern " + p)
        if g is not None:
            gt = tr.as_bool(tr.pe(g, c2))
            cond = gt if cond is None else "(%s && %s)" % (cond, gt)
        body_ = ioval(b, c2)
        if cond is None:
            return body_
        return "if %s then %s else\n    %s" % (cond, body_, chain(rest))
    res = chain(arms)
    if which == "write":
        return ("  %s\n  Definition %s (invoke : N -> N * N) (buf_len : N) : iores N :=\n    %s\n    let '(ret, %s') := invoke len in   (* %s = 0 before the call *)\n    %s."
                % (head, coq, "\n    ".join(pre), out_name, out_name, res))
    if which == "read":
        return ("  %s\n  Definition %s (C : cbsrc) (st : cb_st C) (buf_len : N) : cb_st C * iores N * bytes :=\n    %s\n    let '(st', (ret, %s', stored)) := cb_read C st len in   (* %s = 0 before the call *)\n    (st', %s, stored)."
                % (head, coq, "\n    ".join(pre), out_name, out_name, "(" + res + ")"))
    return "  %s\n  Definition %s (invoke : N) : iores unit :=\n    let ret := invoke in\n    %s." % (head, coq, res)


def adapter_seek(lib):
    r = R.fn_text(lib, "seek", 0, r"impl Seek for CallbackInputRead\s*\{")
    if r is None:
        raise ParseError("fn seek not found")
    body = R.parse_body(r[0].replace("&raw mut ", "&mut "))
    ss = list(body[1])
    if len(ss) != 2 or ss[0][0] != "let" or ss[1][0] != "let":
        raise ParseError("seek statements")
    out_name = re.sub(r"^mut\s+", "", ss[0][1])
    if ss[0][2] != "u64" or strip_paren(ss[0][3]) != ("int", 0):
        raise ParseError("seek: the out parameter is not initialised to 0")
    if re.sub(r"\s", "", ss[1][1]) != "(whence,offset)":
        raise ParseError("seek: second let")
    m = strip_paren(ss[1][3])
    if m[0] != "match" or show(strip_paren(m[1])) != "style":
        raise ParseError("seek: match on style")
    tr = Tr([])
    con = {"std::io::SeekFrom::Start": ("FromStart", "N"), "std::io::SeekFrom::Current": ("FromCur", "Z"), "std::io::SeekFrom::End": ("FromEnd", "Z"),
           "SeekFrom::Start": ("FromStart", "N"), "SeekFrom::Current": ("FromCur", "Z"), "SeekFrom::End": ("FromEnd", "Z")}
    t = strip_paren(body[2])
    if t[0] != "match":
        raise ParseError("seek tail")
    call = strip_paren(t[1])
    if call[0] != "call" or show(strip_paren(call[1])) != "self.seek_callback.unwrap()" or \
            [show(a) for a in call[2]] != ["offset", "whence", "self.context", "&mut " + out_name]:
        raise ParseError("seek callback invocation " + show(call)[:80])

    def tailfor(wh, off):
        c = Ctx()
        c.locals[out_name] = V(out_name + "'", "N")

        def chain(cands):
            if not cands:
                raise ParseError("non-exhaustive integer match")
            (p, g, b), rest = cands[0], cands[1:]
            c2 = c.copy()
            cond = None
            if re.match(r"\d+$", p):
                cond = "(ret =? %s)" % p
            elif re.match(r"[a-z_]\w*$", p):
                if p != "_":
                    c2.locals[p] = V("ret", "N")
            else:
                raise ParseError("integer pattern " + p)
            if g is not None:
                gt = tr.as_bool(tr.pe(g, c2))
                cond = gt if cond is None else "(%s && %s)" % (cond, gt)
            b = strip_paren(b)
            if b[0] == "call" and b[1] == ("path", "Ok") and len(b[2]) == 1:
                bt = "IoROk %s" % tr.pe(b[2][0], c2).text
            elif b[0] == "call" and b[1] == ("path", "Err") and len(b[2]) == 1 and tr.pe(b[2][0], c2).kind == "ioerr":
                bt = "IoRErr %s" % tr.pe(b[2][0], c2).text
            else:
                raise ParseError("seek arm " + show(b)[:50])
            return bt if cond is None else "if %s then %s else %s" % (cond, bt, chain(rest))
        return ("match seek_callback with\n      | None => (st, IoRPanic UnwrapNone)\n      | Some sk_ =>\n"
                "        let '(st', (ret, %s')) := sk_ st %s %s in   (* %s = 0 before the call *)\n        (st', %s)\n      end"
                % (out_name, off, wh, out_name, chain(list(t[2]))))
    arms = []
    for p, g, b in m[2]:
        mm = re.match(r"([\w:]+)\((\w+)\)$", p)
        if not mm or mm.group(1) not in con or g is not None:
            raise ParseError("seek arm " + p)
        cn, ty = con[mm.group(1)]
        n = mm.group(2)
        b = strip_paren(b)
        if b[0] != "tuple" or len(b[1]) != 2 or strip_paren(b[1][0])[0] != "int":
            raise ParseError("seek arm value")
        wh = strip_paren(b[1][0])[1]
        off = strip_paren(b[1][1])
        c = Ctx()
        c.locals[n] = V(n, ty)
        if ty == "Z":
            ov = tr.pe(off, c)
            if ov.kind != "Z":
                raise ParseError("seek offset")
            arms.append("    | %s %s =>\n      %s" % (cn, n, tailfor(wh, ov.text)))
        else:
            want = "i64::try_from(%s).map_err(|_| { std::io::Error::new(std::io::ErrorKind::InvalidInput, \"Invalid offset\") })?" % n
            if re.sub(r"\s", "", show(off)) != re.sub(r"\s", "", want):
                raise ParseError("seek Start offset: " + show(off))
            arms.append("    | %s %s =>\n      match i64_try_from %s with\n      | None => (st, IoRErr IoInvalidInput)\n      | Some off_ =>\n      %s\n      end"
                        % (cn, n, n, tailfor(wh, "off_")))
    return ("  (* %s:%d fn seek *)\n  Definition CallbackInputRead_seek {ST : Type} (seek_callback : option (ST -> Z -> N -> ST * (N * N))) (st : ST) (style : whence)\n"
            "      : ST * iores N :=\n    match style with\n%s\n    end." % (LIB, r[1], "\n".join(arms)))


PREAMBLE = """From MLA Require Import Base Stream Blocks Writer CApi CApiRead.
Open Scope N_scope.

(* ---- mirrors of mla::errors::{ConfigError, Error}: variants in source order, payloads dropped ---- *)
Inductive ConfigError := %(cfgs)s.
Inductive MLAError := %(errs)s.
Definition all_ConfigError : list ConfigError := [%(cfgl)s].
Definition all_MLAError : list MLAError := [%(errl)s].

(* ---- conventions (see the trusted primitive table in tools/src2v3_capi.py) ---- *)
Inductive lres (E A : Type) := LOk (a : A) | LErr (e : E) | LCrash (site : N).
Arguments LOk {E A} a.
Arguments LErr {E A} e.
Arguments LCrash {E A} site.
Inductive ioerr := IoInterrupted | IoInvalidInput | IoOther.
Inductive iores (A : Type) := IoROk (a : A) | IoRErr (e : ioerr) | IoRPanic (site : N).
Arguments IoROk {A} a.
Arguments IoRErr {A} e.
Arguments IoRPanic {A} site.
(* io::Error::from_raw_os_error(e).kind(): std::sys::unix::decode_error_kind maps EINTR (4) to Interrupted *)
Definition from_raw_os_error (e : N) : ioerr := if e =? 4 then IoInterrupted else IoOther.
Definition DanglingHandle : N := 2003.
Definition U32_MAX : N := 4294967295.
Definition u32_try_from (n : N) : option N := if n <? 4294967296 then Some n else None.
Definition i64_try_from (n : N) : option Z := if n <? 2 ^ 63 then Some (Z.of_N n) else None.
Definition is_none {A} (o : option A) : bool := match o with None => true | Some _ => false end.
Definition key_is_null (k : keyarg) : bool := match k with KNull => true | _ => false end.
Definition from_raw_parts (data : bytes) (n : N) : bytes := takeN n data ++ repeat 0 (N.to_nat (n - len data)).
Definition put_cfg (s : cstate) (r : href) (v : wcfg) : cstate := match r with RNull => s | RSlot i => set_cfg s i (Some v) end.
Definition put_rcfg (s : cstate) (r : href) (v : rcfg) : cstate := match r with RNull => s | RSlot i => set_rcfg s i (Some v) end.
Definition put_ar (s : cstate) (r : href) (v : carch) : cstate := match r with RNull => s | RSlot i => set_ar s i (Some v) end.
Definition put_fh (s : cstate) (r : href) (v : N) : cstate := match r with RNull => s | RSlot i => set_fh s i (Some v) end.

(* the library calls of the writing side *)
Record capi_prims := mkPrims {
  p_wcfg_new : wcfg;                                              (* ArchiveWriterConfig::new() *)
  p_set_layers_default : wcfg -> wcfg;                            (* .set_layers(Layers::DEFAULT) *)
  p_add_public_keys : wcfg -> N -> wcfg;                          (* .add_public_keys(&v), v.len() *)
  p_with_compression_level : wcfg -> N -> wcfg * lres ConfigError unit;
  p_rcfg_new : rcfg;                                              (* ArchiveReaderConfig::new() *)
  p_add_private_keys : rcfg -> N -> rcfg;
  p_parse_pubkeys_pem_many : keyarg -> option N;                  (* Ok(v) => Some (v.len()) *)
  p_parse_privkey : keyarg -> option unit;
  p_writer_from_config : wcfg -> ioev -> lres MLAError carch;     (* ArchiveWriter::from_config(output, config) *)
  p_start_file : carch -> bytes -> ioev -> carch * lres MLAError N;
  p_append_file_content : carch -> N -> N -> bytes -> ioev -> carch * lres MLAError unit;
  p_flush : carch -> ioev -> carch * lres unit unit;
  p_end_file : carch -> N -> ioev -> carch * lres MLAError unit;
  p_finalize : carch -> ioev -> carch * lres MLAError unit;
}.
Record xoutS (T : Type) := mkXS {
  xs_cfg : option (option T);       (* the memory behind `config` afterwards (None: the pointer was NULL) *)
  xs_res : cres; xs_asked : list bytes; xs_accepted : list bytes; xs_sinks : sinkmap }.
Arguments mkXS {T}.
Arguments xs_cfg {T}.
Arguments xs_res {T}.
Arguments xs_asked {T}.
Arguments xs_accepted {T}.
Arguments xs_sinks {T}.
"""

TRANSLATED = set()
WRITE_FNS = ["mla_config_default_new", "mla_config_add_public_keys", "mla_config_set_compression_level",
             "mla_reader_config_new", "mla_reader_config_add_private_key", "mla_archive_new", "mla_archive_file_new",
             "mla_archive_file_append", "mla_archive_flush", "mla_archive_file_close", "mla_archive_close"]
READ_FNS = ["mla_roarchive_extract_internal", "mla_roarchive_extract", "mla_roarchive_info_internal", "mla_roarchive_info"]

READ_SECTION = """Section ReadSrc.
  Variables CfgT SrcT MlaT HdrT : Type.
  Variable r_mk_reader : bool -> SrcT.                            (* CallbackInputRead { .., seek_callback: Some(_) | None, .. } *)
  Variable r_from_config : SrcT -> CfgT -> lres MLAError MlaT.    (* ArchiveReader::from_config(src, config) *)
  Variable r_list_files : MlaT -> lres MLAError (list bytes).
  Variable r_sort : list bytes -> list bytes.                     (* Vec<String>::sort *)
  (* (file_callback)(context, name, len, &mut file_writer): return code and the FileWriter it filled
     (write_callback non-NULL, flush_callback non-NULL, context = the behaviour of its write callback) *)
  Variable r_file_callback : list bytes -> bytes -> N * (bool * bool * list cbev).
  Variable r_linear_extract : MlaT -> list (bytes * list cbev) -> sinkmap * lres MLAError unit.
  Variable r_header_from : SrcT -> lres MLAError HdrT.            (* ArchiveHeader::from(src) *)
  Variable r_format_version : HdrT -> N.
  Variable r_layers_bits : HdrT -> N.
"""


def generate(repo):
    def rd(rel):
        with open(os.path.join(repo, rel), encoding="utf-8") as f:
            return f.read()
    out = ["(* GENERATED by tools/src2v3_capi.py from %s — do not edit. *)" % repo]
    TRANSLATED.clear()
    lib = rd(LIB)
    errsrc = rd("mla/src/errors.rs")
    try:
        errs = enum_variants(errsrc, "Error")
        cfgs = enum_variants(errsrc, "ConfigError")
        if any(p for _, p in cfgs):
            raise ParseError("ConfigError has payloads")
        errdecl = " | ".join("ME_%s%s" % (n, " (c : ConfigError)" if n == "ConfigError" else "") for n, _ in errs)
        errl = []
        for n, _ in errs:
            errl += ["ME_ConfigError CE_%s" % cn for cn, _ in cfgs] if n == "ConfigError" else ["ME_" + n]
        out.append(PREAMBLE % {"cfgs": " | ".join("CE_" + n for n, _ in cfgs), "errs": errdecl,
                               "cfgl": "; ".join("CE_" + n for n, _ in cfgs), "errl": "; ".join(errl)})
    except Exception as e:
        out.append("(* data: %s *)\nDefinition capi_data_untranslatable : unit := tt." % cmt(e))
        return "\n".join(out) + "\n"
    try:
        out.append(status_from_error(lib, errs, cfgs))
    except Exception as e:
        out.append("(* status_from_error: %s *)\nDefinition status_from_error_untranslatable : unit := tt." % cmt(e))
    out.append("")
    for which, coq in (("write", "CallbackOutput_write"), ("flush", "CallbackOutput_flush"), ("read", "CallbackInputRead_read")):
        try:
            out.append(adapter_write(lib, which).replace("\n  ", "\n").lstrip())
        except Exception as e:
            out.append("(* %s: %s *)\nDefinition %s_untranslatable : unit := tt." % (coq, cmt(e), coq))
    try:
        out.append(adapter_seek(lib).replace("\n  ", "\n").lstrip())
    except Exception as e:
        out.append("(* CallbackInputRead_seek: %s *)\nDefinition CallbackInputRead_seek_untranslatable : unit := tt." % cmt(e))
    out.append("\nSection WriteSrc.\n  Variable P : capi_prims.")
    for fn in WRITE_FNS:
        try:
            out.append(extern_fn(lib, fn, []))
        except Exception as e:
            out.append("  (* %s: %s *)\n  Definition %s_untranslatable : unit := tt." % (fn, cmt(e), fn))
    out.append("End WriteSrc.\n")
    out.append(READ_SECTION)
    try:
        m = re.search(r"pub struct ArchiveInfo\s*\{([^}]*)\}", lib)
        info_fields = [x.split(":")[0].strip() for x in m.group(1).split(",") if x.strip()]
    except Exception:
        info_fields = None
    for fn in READ_FNS:
        try:
            if info_fields != ["version", "layers"]:
                raise ParseError("struct ArchiveInfo changed: %s" % info_fields)
            out.append(extern_fn(lib, fn, info_fields))
            TRANSLATED.add(fn)
        except Exception as e:
            out.append("  (* %s: %s *)\n  Definition %s_untranslatable : unit := tt." % (fn, cmt(e), fn))
    out.append("End ReadSrc.")
    return "\n".join(out) + "\n"


def main(repo=None, outp=None):
    repo = repo or os.environ.get("VERIF_REPO", "/repo")
    outp = outp or os.environ.get("VERIF_SRC3A_OUT") or os.path.join(HERE, "..", "coq", "gen", "Src3a.v")
    try:
        text = generate(repo)
    except Exception as e:  # fail closed as a whole
        text = "(* GENERATED: tools/src2v3_capi.py failed: %s *)\nDefinition src3a_untranslatable : unit := tt.\n" % cmt(e)
    outp = os.path.normpath(outp)
    old = None
    if os.path.exists(outp):
        with open(outp) as f:
            old = f.read()
    if old != text:
        with open(outp, "w") as f:
            f.write(text)
        print("src2v3_capi: wrote", outp)
    else:
        print("src2v3_capi: unchanged", outp)


if __name__ == "__main__":
    main()
