#!/usr/bin/env python3
"""Tie A, level 1 for the CONSTRUCTION paths (work package cfgT): regenerate coq/gen/Src3f.v.

Translated from /repo (parser: tools/rustmini.py), statement by statement:

  mla/src/lib.rs            bitflags! Layers (constants, Default), ArchiveWriter::from_config,
                            ArchiveReader::from_config, ArchiveFailSafeReader::from_config
  mla/src/config.rs         ArchiveWriterConfig::{new, default, enable_layer, disable_layer, set_layers,
                            is_layers_enabled, to_persistent, check}, ArchiveReaderConfig::{new, load_persistent}
  mla/src/layers/encrypt.rs EncryptionConfig::{default, check, to_persistent}, add_public_keys, add_private_keys
  mla/src/layers/compress.rs CompressionConfig::default, with_compression_level, DEFAULT_COMPRESSION_LEVEL
  mla/src/errors.rs         enum ConfigError, impl From<ConfigError> for Error

theories/SrcTie3Cfg.v, SrcTie3CfgR.v prove the translated from_config equal to the model (Config.writer_stack,
ArchiveSrc.archive_open_src, Config.failsafe_open) for every configuration, header and source.

The layer constructors are SECTION VARIABLES of the generated file (the layers themselves are translated in
gen/Src3e.v, Src3c.v, Src3d.v, Src3g.v): the generated text decides WHICH are called, in WHICH order, on WHICH
configuration field, and WHICH error comes out.

Trusted primitive table (vocabulary: theories/CfgPrims.v)
  Result<T, ConfigError> / Result<T, Error>      cres ConfigError T / cres Error T (COk / CErr / CCrash)
  e?  in a fn returning Error, e: ConfigError    cbind (cmap_err Error_from_ConfigError e) k  (the From impl, translated)
  e?  on a callee translated elsewhere (`res`)   match … | (_, Err e) => CErr (Callee e) | (_, Crash x) => CCrash x
  Layers::X, Layers::default()                   Layers_X, Layers_default (from the bitflags! text; Layers_ALL = the union)
  a |= b   a &= b   !a   a.contains(b)           N.lor, N.land, flags_not Layers_ALL (bitflags 2.9 `complement` =
                                                 from_bits_truncate(!bits)), flags_contains
  v.is_empty()  v.extend_from_slice(s)           vec_is_empty v,  v ++ s
  Vec::new() HashMap::new()                      []
  ChaChaRng::from_os_rng() + csprng.random::<T>()   the drawn bytes are PARAMETERS (rnd_key, rnd_nonce: in the order of
                                                 the draws; `rng` of to_persistent: one parameter passed to
                                                 store_key_for_multi_recipients)
  store_key_for_multi_recipients, retrieve_key   section variables (crypto/ecc.rs: gen/Src3g.v, SrcTie3Ecies.v)
  r.map_or(Err(E), |x| Ok(S{..}))                match r with Ok x => COk … | Err _ => CErr E | Crash c => CCrash c
  self.encrypt.load_persistent(&to_load)?        Src3e.load_persistent (gen/Src3e.v), its two ConfigError values by name
  EncryptionReaderConfig::default()              the derived Default: mkERC [] None <the #[default] variant>
  src.rewind()? on the source R                  sk S0 src (FromStart 0)
  ArchiveHeader::from(&mut src)? / {..}.dump(&mut dest)?   Src3h.ArchiveHeader_from S0 / Src3h.ArchiveHeader_dump (gen/Src3h.v);
                                                 the destination is a Vec (the bytes written; RawLayerWriter's Write
                                                 passes through: checked on raw.rs), so the raw layer is created over
                                                 the bytes `dump` left
  Box::new(T::new(inner, &config.f)?) for T in   EncryptionLayerWriter / CompressionLayerWriter / PositionLayerWriter /
     the layer types                             RawLayerReader / EncryptionLayerReader / CompressionLayerReader /
                                                 RawLayerFailSafeReader / EncryptionLayerFailSafeReader /
                                                 CompressionLayerFailSafeReader  ->  the section variable T_new
  raw_src as Box<dyn LayerReader>                box_raw
  src.initialize()? / ArchiveFooter::deserialize_from(&mut src)? / src.rewind()? on a boxed layer
                                                 lr_initialize / ArchiveFooter_deserialize_from / lr_rewind
  final_dest.reset_position()                    pos_reset_position (the returned old position is dropped)
  struct literals                                the record constructors below; the FIELD LISTS of the structs are
                                                 checked against the source (a changed list is untranslatable)

FAILS CLOSED per item: anything not recognised -> `Definition <name>_untranslatable : unit := tt.`
"""
import os
import re
import sys

sys.path.insert(0, os.path.dirname(os.path.abspath(__file__)))
import rustmini as R  # noqa: E402
from rustmini import ParseError, strip_paren, show  # noqa: E402
import src2v3_header as HD  # noqa: E402

REPO = os.environ.get("VERIF_REPO", "/repo")
OUT = os.environ.get("VERIF_SRC3F_OUT") or os.path.join(os.path.dirname(os.path.abspath(__file__)), "..", "coq", "gen", "Src3f.v")

# struct -> (projection prefix, constructor, [(field, type text)]) ; the field lists are CHECKED against the source
STRUCTS = {
    "CompressionConfig": ("cc", "mkCC", [("compression_level", "u32")]),
    "EncryptionConfig": ("ec", "mkEC", [("ecc_keys", "Vec<PublicKey>"), ("key", "Key"), ("nonce", "[u8;NONCE_SIZE]")]),
    "ArchiveWriterConfig": ("awc", "mkAWC", [("layers_enabled", "Layers"), ("compress", "CompressionConfig"), ("encrypt", "EncryptionConfig")]),
    "ArchiveReaderConfig": ("arc", "mkARC", [("layers_enabled", "Layers"), ("encrypt", "EncryptionReaderConfig")]),
    "EncryptionReaderConfig": ("Src3e.erc", "Src3e.mkERC", [("private_keys", "Vec<StaticSecret>"),
                                                           ("encrypt_parameters", "Option<(Key,[u8;NONCE_SIZE])>"),
                                                           ("failsafe_mode", "FailSafeReaderDecryptionMode")]),
}
COQTY = {"Layers": "N", "u32": "N", "Vec<PublicKey>": "list bytes", "Key": "bytes", "[u8;NONCE_SIZE]": "bytes",
         "CompressionConfig": "CompressionConfig", "EncryptionConfig": "EncryptionConfig",
         "EncryptionReaderConfig": "Src3e.EncryptionReaderConfig"}
ERROR_CTORS = {"PrivateKeyNeeded": "PrivateKeyNeeded"}   # the values of `Error` a From arm may name


def fail(out, name, e, ind=""):
    out.append("%s(* %s: %s *)" % (ind, name, str(e).replace("*)", "* )")))
    out.append("%sDefinition %s_untranslatable : unit := tt." % (ind, name))


def is_path(e, name=None):
    e = strip_paren(e)
    return e[0] == "path" and (name is None or e[1] == name)


def proj(struct, field, x):
    p = STRUCTS[struct][0]
    return "(%s_%s %s)" % (p, field, x)


def setter(struct, field, x, v):
    p, mk, fields = STRUCTS[struct]
    if p.startswith("Src3e."):
        return "(%s %s)" % (mk, " ".join(v if f == field else proj(struct, f, x) for f, _ in fields))
    return "(set_%s_%s %s %s)" % (p, field, x, v)


class Tr:
    """typed expression translator for the builder bodies; env: name -> (gallina, type)"""

    def __init__(self, srcs, layer_names):
        self.srcs = srcs
        self.layers = layer_names

    def ex(self, e, env):
        e = strip_paren(e)
        k = e[0]
        if k == "int":
            return str(e[1]), "int"
        if k == "path":
            if e[1] in env:
                return env[e[1]]
            m = re.fullmatch(r"Layers::([A-Z_]+)", e[1])
            if m and m.group(1) in self.layers:
                return "Layers_" + m.group(1), "Layers"
            raise ParseError("name " + e[1])
        if k == "un" and e[1] in ("&", "*", "&mut"):
            return self.ex(e[2], env)
        if k == "un" and e[1] == "!":
            a, t = self.ex(e[2], env)
            if t != "Layers":
                raise ParseError("! on " + t)
            return "(flags_not Layers_ALL %s)" % a, "Layers"
        if k == "field":
            a, t = self.ex(e[1], env)
            if t not in STRUCTS:
                raise ParseError("field of " + t)
            ft = dict(STRUCTS[t][2]).get(e[2])
            if ft is None:
                raise ParseError("no field %s in %s" % (e[2], t))
            return proj(t, e[2], a), ft
        if k == "call" and is_path(e[1]):
            f = strip_paren(e[1])[1]
            if f in ("Vec::new", "HashMap::new") and not e[2]:
                return "[]", "empty"
            if f == "Layers::default" and not e[2]:
                return "Layers_default", "Layers"
            if f == "CompressionConfig::default" and not e[2]:
                return "CompressionConfig_default", "CompressionConfig"
            if f == "EncryptionConfig::default" and not e[2]:
                return "(EncryptionConfig_default rnd_key rnd_nonce)", "EncryptionConfig"
            if f == "EncryptionReaderConfig::default" and not e[2]:
                return self.erc_default(), "EncryptionReaderConfig"
        if k == "mcall":
            a, t = self.ex(e[1], env)
            args = [self.ex(x, env) for x in e[3]]
            if e[2] == "contains" and t == "Layers" and len(args) == 1 and args[0][1] == "Layers":
                return "(flags_contains %s %s)" % (a, args[0][0]), "bool"
            if e[2] == "is_layers_enabled" and t == "ArchiveWriterConfig" and len(args) == 1 and args[0][1] == "Layers":
                return "(is_layers_enabled %s %s)" % (a, args[0][0]), "bool"
            if e[2] == "is_empty" and t.startswith("Vec<") and not args:
                return "(vec_is_empty %s)" % a, "bool"
        if k == "bin" and e[1] == ">":
            a, ta = self.ex(e[2], env)
            b, tb = self.ex(e[3], env)
            if {ta, tb} <= {"u32", "int"}:
                return "(%s <? %s)" % (b, a), "bool"
        raise ParseError("expression " + show(e)[:70])

    def erc_default(self):
        """#[derive(Default)] struct EncryptionReaderConfig + the #[default] variant of the mode enum"""
        rel, txt, m = self.srcs.one(r"^[ \t]*pub struct EncryptionReaderConfig\s*\{", "struct EncryptionReaderConfig")
        at = " ".join(HD.attrs_before(txt, m.start()))
        if not re.search(r"#\[derive\([^)]*\bDefault\b[^)]*\)\]", at):
            raise ParseError("EncryptionReaderConfig does not derive Default")
        rel, txt, m = self.srcs.one(r"^[ \t]*enum FailSafeReaderDecryptionMode\s*\{", "enum FailSafeReaderDecryptionMode")
        i = txt.index("{", m.start())
        body = R.strip_comments(re.sub(r"///[^\n]*", "", txt[i + 1:R.match_brace(txt, i)]))
        d = re.search(r"#\[default\]\s*([A-Za-z]+)", body)
        if not d:
            raise ParseError("no #[default] variant")
        return "(Src3e.mkERC [] None Src3e.%s)" % d.group(1)



def generic_struct_fields(name, srcs):
    """field names of `pub struct NAME<..> { .. }` (generic parameters allowed, attributes on fields skipped)"""
    rel, txt, m = srcs.one(r"^[ \t]*(?:pub(?:\([a-z]+\))?\s+)?struct\s+%s\s*(?:<[^{;]*>)?\s*\{" % re.escape(name), "struct " + name)
    i = txt.index("{", m.end() - 1)
    body = R.strip_comments(txt[i + 1:R.match_brace(txt, i)])
    body = re.sub(r"#\[[^\]]*\]", "", body)
    fields = []
    for part in HD.split_top(body):
        fm = re.fullmatch(r"\s*(?:pub(?:\([a-z]+\))?\s+)?([A-Za-z_][A-Za-z0-9_]*)\s*:\s*(.+?)\s*", part, re.S)
        if not fm:
            raise ParseError("struct %s field `%s`" % (name, part.strip()[:40]))
        fields.append((fm.group(1), re.sub(r"\s+", "", fm.group(2))))
    return fields, rel


def check_structs(srcs):
    for name, (_, _, want) in STRUCTS.items():
        fields, _ = HD.struct_def(name, srcs, need_serde=False)
        if fields != want:
            raise ParseError("struct %s: fields %s, the translator knows %s" % (name, fields, want))


def where(srcs, rel, line):
    return "%s:%d" % (rel, line)


def fn_in(srcs, rel, name, within, nth=0):
    txt = srcs.files[rel]
    r = R.fn_text(txt, name, nth, within)
    if r is None:
        raise ParseError("fn %s not found in %s (%s)" % (name, rel, within))
    return R.parse_body(r[0]), "%s:%d" % (rel, r[1]), re.sub(r"\s+", " ", r[2]).strip()


# ---------------------------------------------------------------- bitflags, enum, From

def gen_layers(srcs, out):
    hits = srcs.find(r"bitflags!\s*\{")
    for rel, txt, m in hits:
        i = txt.index("{", m.start())
        inner = txt[i + 1:R.match_brace(txt, i)]
        sm = re.search(r"struct\s+Layers\s*:\s*u8\s*\{", inner)
        if not sm:
            continue
        j = inner.index("{", sm.start())
        body = R.strip_comments(re.sub(r"///[^\n]*", "", inner[j + 1:R.match_brace(inner, j)]))
        names = []
        out.append("(* ---- %s:%d bitflags! struct Layers: u8 ---- *)" % (rel, txt.count("\n", 0, i + 1 + sm.start()) + 1))
        for part in [p.strip() for p in body.split(";") if p.strip()]:
            cm = re.fullmatch(r"const\s+([A-Z_]+)\s*=\s*(.+)", part, re.S)
            if not cm:
                raise ParseError("bitflags item " + part[:40])
            lit = re.sub(r"\b0b([01_]+)", lambda mm: str(int(mm.group(1).replace("_", ""), 2)), cm.group(2))   # rustmini has no 0b literals
            e = R.parse_expr(lit)
            out.append("Definition Layers_%s : N := %s." % (cm.group(1), flag_expr(e, names)))
            names.append(cm.group(1))
        acc = "Layers_" + names[0]
        for n in names[1:]:
            acc = "N.lor (%s) Layers_%s" % (acc, n) if " " in acc else "N.lor %s Layers_%s" % (acc, n)
        out.append("Definition Layers_ALL : N := %s.   (* Flags::all(): the union of the named flags *)" % acc)
        b, w, _ = fn_in(srcs, rel, "default", r"impl std::default::Default for Layers \{")
        t = strip_paren(b[2]) if b[2] is not None and not b[1] else None
        dm = re.fullmatch(r"Self::([A-Z_]+)", t[1]) if t and t[0] == "path" else None
        if not (dm and dm.group(1) in names):
            raise ParseError("Default for Layers")
        out.append("(* %s impl Default for Layers *)" % w)
        out.append("Definition Layers_default : N := Layers_%s." % dm.group(1))
        return names
    raise ParseError("bitflags! Layers: u8 not found")


def flag_expr(e, names):
    e = strip_paren(e)
    if e[0] == "int":
        if e[1] > 255:
            raise ParseError("flag beyond u8")
        return str(e[1])
    if e[0] == "bin" and e[1] == "|":
        return "(N.lor %s %s)" % (flag_expr(e[2], names), flag_expr(e[3], names))
    if e[0] == "mcall" and e[2] == "bits" and not e[3] and is_path(e[1]):
        m = re.fullmatch(r"Self::([A-Z_]+)", strip_paren(e[1])[1])
        if m and m.group(1) in names:
            return "Layers_" + m.group(1)
    raise ParseError("flag expression " + show(e)[:50])


def gen_errors(srcs, out):
    rel = "mla/src/errors.rs"
    txt = srcs.files[rel]
    m = re.search(r"pub enum ConfigError\s*\{", txt)
    if not m:
        raise ParseError("enum ConfigError")
    i = txt.index("{", m.start())
    body = R.strip_comments(txt[i + 1:R.match_brace(txt, i)])
    variants = [v.strip() for v in body.split(",") if v.strip()]
    if not all(re.fullmatch(r"[A-Za-z]+", v) for v in variants):
        raise ParseError("ConfigError has a variant with data")
    for need in ("PrivateKeyNotSet", "PrivateKeyNotFound"):
        if need not in variants:
            raise ParseError("ConfigError lacks " + need)
    out.append("(* ---- %s:%d enum ConfigError, in source order ---- *)" % (rel, txt.count("\n", 0, m.start()) + 1))
    out.append("Inductive ConfigError := %s." % " | ".join(variants))
    out.append("(* the values of `Error` these functions build themselves; every other error comes out of a callee (model `err`) *)")
    out.append("Inductive Error := PrivateKeyNeeded | ConfigError_ (e : ConfigError) | Callee (e : err).")
    b, w, _ = fn_in(srcs, rel, "from", r"impl From<ConfigError> for Error \{")
    t = strip_paren(b[2]) if b[2] is not None and not b[1] else None
    if not (t and t[0] == "match" and is_path(t[1], "error")):
        raise ParseError("From<ConfigError>: a single match on `error` expected")
    arms = []
    for pat, guard, body_e in t[2]:
        be = strip_paren(body_e)
        if guard is not None:
            raise ParseError("guard in From<ConfigError>")
        if pat == "_":
            if not (be[0] == "call" and is_path(be[1], "Self::ConfigError") and len(be[2]) == 1 and is_path(be[2][0], "error")):
                raise ParseError("default arm of From<ConfigError>")
            arms.append("  | _ => ConfigError_ error")
        else:
            pm = re.fullmatch(r"ConfigError::([A-Za-z]+)", pat)
            bm = re.fullmatch(r"Self::([A-Za-z]+)", be[1]) if be[0] == "path" else None
            if not (pm and pm.group(1) in variants and bm and bm.group(1) in ERROR_CTORS):
                raise ParseError("arm of From<ConfigError>: %s => %s" % (pat, show(be)[:40]))
            arms.append("  | %s => %s" % (pm.group(1), ERROR_CTORS[bm.group(1)]))
    if not arms or not arms[-1].startswith("  | _"):
        raise ParseError("From<ConfigError> has no default arm")
    out.append("(* %s impl From<ConfigError> for Error *)" % w)
    out.append("Definition Error_from_ConfigError (error : ConfigError) : Error :=\n  match error with\n%s\n  end." % "\n".join(arms))
    out.append("(* the two ConfigError values gen/Src3e.v names, by name *)")
    out.append("Definition ConfigError_of_enc (e : Src3e.ConfigError) : ConfigError :=\n  match e with\n"
               "  | Src3e.PrivateKeyNotSet => PrivateKeyNotSet\n  | Src3e.PrivateKeyNotFound => PrivateKeyNotFound\n  end.")
    return variants


def gen_records(out):
    out.append("(* ---- the configuration structs (field lists checked against the source) ---- *)")
    for name in ("CompressionConfig", "EncryptionConfig", "ArchiveWriterConfig", "ArchiveReaderConfig"):
        p, mk, fields = STRUCTS[name]
        out.append("Record %s := %s { %s }." % (name, mk, "; ".join("%s_%s : %s" % (p, f, COQTY[t]) for f, t in fields)))
        for f, _ in fields:
            out.append("Definition set_%s_%s (s : %s) v := %s %s." % (
                p, f, name, mk, " ".join("v" if g == f else "(%s_%s s)" % (p, g) for g, _ in fields)))


# ---------------------------------------------------------------- builders

def struct_lit(tr, e, env, want):
    """`Self { f: e, .. }` / `Name { .. }` of struct `want` -> constructor application, fields in DECLARATION order"""
    e = strip_paren(e)
    if not (e[0] == "struct" and e[1] in ("Self", want)):
        raise ParseError("struct literal of %s expected: %s" % (want, show(e)[:50]))
    p, mk, fields = STRUCTS[want]
    got = dict(e[2])
    if sorted(got) != sorted(f for f, _ in fields):
        raise ParseError("fields of the %s literal: %s" % (want, sorted(got)))
    args = []
    for f, t in fields:
        a, ta = tr.ex(got[f], env)
        if ta not in (t, "empty") and not (ta == "int" and t == "u32"):
            raise ParseError("field %s: %s given, %s expected" % (f, ta, t))
        args.append(a)
    return "%s %s" % (mk, " ".join(args))


def only_tail(b):
    if b[1] or b[2] is None:
        raise ParseError("a body that is a single expression expected")
    return strip_paren(b[2])


def builder_setter(tr, srcs, rel, name, within, argname, argty):
    """fn(&mut self, x) -> &mut Self { self.<path> <op>= e; self }"""
    b, w, sig = fn_in(srcs, rel, name, within)
    if not re.search(r"\(\s*&mut self\s*,\s*%s\s*:" % argname, sig) or "-> &mut Self" not in sig:
        raise ParseError("signature of %s: %s" % (name, sig))
    if not (len(b[1]) == 1 and b[1][0][0] == "semi" and is_path(b[2], "self")):
        raise ParseError("%s: one assignment then `self` expected" % name)
    return assign(tr, strip_paren(b[1][0][1]), {"self": ("self", "ArchiveWriterConfig" if "Writer" in within or within.endswith("ArchiveWriterConfig \\{") else "ArchiveReaderConfig"),
                                                  argname: (argname, argty)}), w


def assign(tr, e, env):
    """`self.a.b op= rhs` or `self.a.b.extend_from_slice(rhs)` -> the new self"""
    if e[0] == "assign":
        lhs, op, rhs = strip_paren(e[2]), e[1], e[3]
        r, tr_ = tr.ex(rhs, env)
        cur, tc = tr.ex(lhs, env)
        if op == "=":
            new = r
            if tr_ != tc:
                raise ParseError("assignment of %s to %s" % (tr_, tc))
        elif op == "|=" and tc == tr_ == "Layers":
            new = "(N.lor %s %s)" % (cur, r)
        elif op == "&=" and tc == tr_ == "Layers":
            new = "(N.land %s %s)" % (cur, r)
        else:
            raise ParseError("assignment operator " + op)
    elif e[0] == "mcall" and e[2] == "extend_from_slice" and len(e[3]) == 1:
        lhs = strip_paren(e[1])
        cur, tc = tr.ex(lhs, env)
        r, tr_ = tr.ex(e[3][0], env)
        if not (tc.startswith("Vec<") and tr_ == tc):
            raise ParseError("extend_from_slice of %s with %s" % (tc, tr_))
        new = "(%s ++ %s)" % (cur, r)
    else:
        raise ParseError("statement " + show(e)[:60])
    # rebuild self from the innermost field outwards
    while True:
        if lhs[0] != "field":
            raise ParseError("assignment target")
        base, tb = tr.ex(lhs[1], env)
        new = setter(tb, lhs[2], base, new)
        lhs = strip_paren(lhs[1])
        if is_path(lhs, "self"):
            return new[1:-1] if new.startswith("(") else new


def gen_builders(srcs, out, layer_names):
    tr = Tr(srcs, layer_names)
    cfg, enc, comp = "mla/src/config.rs", "mla/src/layers/encrypt.rs", "mla/src/layers/compress.rs"
    WCFG = r"impl ArchiveWriterConfig \{"
    out.append("(* ---- the builders ---- *)")

    def item(name, f):
        try:
            f()
        except Exception as e:
            fail(out, name, e)

    def c_level():
        v, w, ex = HD.const_value("DEFAULT_COMPRESSION_LEVEL", srcs)
        out.append("Definition DEFAULT_COMPRESSION_LEVEL : N := %d.     (* %s *)" % (v, w))
        b, w, _ = fn_in(srcs, comp, "default", r"impl std::default::Default for CompressionConfig \{")
        lit = strip_paren(only_tail(b))
        got = dict(lit[2]) if lit[0] == "struct" else {}
        if not (list(got) == ["compression_level"] and is_path(got["compression_level"], "DEFAULT_COMPRESSION_LEVEL")):
            raise ParseError("CompressionConfig::default")
        out.append("(* %s fn CompressionConfig::default *)" % w)
        out.append("Definition CompressionConfig_default : CompressionConfig :=\n  mkCC DEFAULT_COMPRESSION_LEVEL.")
    item("CompressionConfig_default", c_level)

    def e_default():
        b, w, _ = fn_in(srcs, enc, "default", r"impl std::default::Default for EncryptionConfig \{")
        st = [R.show_stmt(s) for s in b[1]]
        want = ["let mut csprng = ChaChaRng::from_os_rng();", "let key = csprng.random::<Key>();",
                "let nonce = csprng.random::<[u8;NONCE_SIZE]>();"]
        if [re.sub(r"\s+", "", x) for x in st] != [re.sub(r"\s+", "", x) for x in want]:
            raise ParseError("EncryptionConfig::default draws: %s" % st)
        body = struct_lit(tr, b[2], {"key": ("rnd_key", "Key"), "nonce": ("rnd_nonce", "[u8;NONCE_SIZE]")}, "EncryptionConfig")
        out.append("(* %s fn EncryptionConfig::default; the bytes drawn from ChaChaRng::from_os_rng() are parameters: key = csprng.random::<Key>(), nonce = csprng.random::<[u8;NONCE_SIZE]>(), in this order *)" % w)
        out.append("Definition EncryptionConfig_default (rnd_key rnd_nonce : bytes) : EncryptionConfig :=\n  %s." % body)
    item("EncryptionConfig_default", e_default)

    def w_new(fname, within, coqname):
        def f():
            b, w, _ = fn_in(srcs, cfg, fname, within)
            body = struct_lit(tr, only_tail(b), {}, "ArchiveWriterConfig")
            out.append("(* %s fn ArchiveWriterConfig::%s *)" % (w, fname))
            out.append("Definition %s (rnd_key rnd_nonce : bytes) : ArchiveWriterConfig :=\n  %s." % (coqname, body))
        return f
    item("ArchiveWriterConfig_new", w_new("new", WCFG, "ArchiveWriterConfig_new"))
    item("ArchiveWriterConfig_default", w_new("default", r"impl std::default::Default for ArchiveWriterConfig \{", "ArchiveWriterConfig_default"))

    for nm, arg in (("enable_layer", "layer"), ("disable_layer", "layer"), ("set_layers", "layers")):
        def f(nm=nm, arg=arg):
            body, w = builder_setter(tr, srcs, cfg, nm, WCFG, arg, "Layers")
            out.append("(* %s fn %s *)" % (w, nm))
            out.append("Definition %s (self : ArchiveWriterConfig) (%s : N) : ArchiveWriterConfig :=\n  %s." % (nm, arg, body))
        item(nm, f)

    def is_enabled():
        b, w, sig = fn_in(srcs, cfg, "is_layers_enabled", WCFG)
        a, t = tr.ex(only_tail(b), {"self": ("self", "ArchiveWriterConfig"), "layer": ("layer", "Layers")})
        if t != "bool":
            raise ParseError("is_layers_enabled")
        out.append("(* %s fn is_layers_enabled *)" % w)
        out.append("Definition is_layers_enabled (self : ArchiveWriterConfig) (layer : N) : bool :=\n  %s." % a[1:-1])
    item("is_layers_enabled", is_enabled)

    def add_pub():
        # the second `impl ArchiveWriterConfig` is in encrypt.rs
        b, w, sig = fn_in(srcs, enc, "add_public_keys", WCFG)
        if not (len(b[1]) == 1 and b[1][0][0] == "semi" and is_path(b[2], "self")) or "keys: &[PublicKey]" not in sig:
            raise ParseError("add_public_keys shape")
        body = assign(tr, strip_paren(b[1][0][1]), {"self": ("self", "ArchiveWriterConfig"), "keys": ("keys", "Vec<PublicKey>")})
        out.append("(* %s fn add_public_keys *)" % w)
        out.append("Definition add_public_keys (self : ArchiveWriterConfig) (keys : list bytes) : ArchiveWriterConfig :=\n  %s." % body)
    item("add_public_keys", add_pub)

    def with_level():
        b, w, sig = fn_in(srcs, comp, "with_compression_level", WCFG)
        t = only_tail(b)
        env = {"self": ("self", "ArchiveWriterConfig"), "compression_level": ("compression_level", "u32")}
        if not (t[0] == "if" and t[3] is not None):
            raise ParseError("with_compression_level shape")
        c, tc = tr.ex(t[1], env)
        th, el = strip_paren(t[2]), strip_paren(t[3])
        em = re.fullmatch(r"Err\(ConfigError::([A-Za-z]+)\)", show(th[2]) if th[0] == "block" and not th[1] and th[2] else "")
        if not (em and el[0] == "block" and len(el[1]) == 1 and el[1][0][0] == "semi" and show(el[2]) == "Ok(self)"):
            raise ParseError("with_compression_level arms")
        new = assign(tr, strip_paren(el[1][0][1]), env)
        out.append("(* %s fn with_compression_level *)" % w)
        out.append("Definition with_compression_level (self : ArchiveWriterConfig) (compression_level : N) : ArchiveWriterConfig * cres ConfigError unit :=\n"
                   "  if %s then (self, CErr %s) else\n  (%s, COk tt)." % (c[1:-1], em.group(1), new))
    item("with_compression_level", with_level)

    def e_check():
        b, w, _ = fn_in(srcs, enc, "check", r"impl EncryptionConfig \{")
        t = only_tail(b)
        env = {"self": ("self", "EncryptionConfig")}
        if not (t[0] == "if" and t[3] is not None):
            raise ParseError("EncryptionConfig::check shape")
        c, _ = tr.ex(t[1], env)
        em = re.fullmatch(r"\{ Err\(ConfigError::([A-Za-z]+)\) \}", show(strip_paren(t[2])))
        if not (em and show(strip_paren(t[3])) == "{ Ok(()) }"):
            raise ParseError("EncryptionConfig::check arms")
        out.append("(* %s fn EncryptionConfig::check *)" % w)
        out.append("Definition EncryptionConfig_check (self : EncryptionConfig) : cres ConfigError unit :=\n"
                   "  if %s then CErr %s else COk tt." % (c[1:-1], em.group(1)))
    item("EncryptionConfig_check", e_check)

    def w_check():
        b, w, _ = fn_in(srcs, cfg, "check", WCFG)
        env = {"self": ("self", "ArchiveWriterConfig")}
        if not (len(b[1]) == 1 and b[1][0][0] == "expr" and show(strip_paren(b[2])) == "Ok(())"):
            raise ParseError("check shape")
        t = strip_paren(b[1][0][1])
        if not (t[0] == "if" and t[3] is None):
            raise ParseError("check: if without else expected")
        c, _ = tr.ex(t[1], env)
        if show(strip_paren(t[2])) != "{ self.encrypt.check()?; }":
            raise ParseError("check body: " + show(strip_paren(t[2])))
        out.append("(* %s fn check *)" % w)
        out.append("Definition ArchiveWriterConfig_check (self : ArchiveWriterConfig) : cres ConfigError unit :=\n"
                   "  cbind (if %s then EncryptionConfig_check (awc_encrypt self) else COk tt) (fun _ =>\n  COk tt)." % c[1:-1])
    item("ArchiveWriterConfig_check", w_check)

    def r_new():
        b, w, _ = fn_in(srcs, cfg, "new", r"impl ArchiveReaderConfig \{")
        body = struct_lit(tr, only_tail(b), {}, "ArchiveReaderConfig")
        out.append("(* %s fn ArchiveReaderConfig::new; EncryptionReaderConfig::default() is the derived Default: no key, no parameters, the #[default] mode *)" % w)
        out.append("Definition ArchiveReaderConfig_new : ArchiveReaderConfig :=\n  %s." % body)
    item("ArchiveReaderConfig_new", r_new)

    def add_priv():
        b, w, sig = fn_in(srcs, enc, "add_private_keys", r"impl ArchiveReaderConfig \{")
        if not (len(b[1]) == 1 and b[1][0][0] == "semi" and is_path(b[2], "self")) or "keys: &[StaticSecret]" not in sig:
            raise ParseError("add_private_keys shape")
        body = assign(tr, strip_paren(b[1][0][1]), {"self": ("self", "ArchiveReaderConfig"), "keys": ("keys", "Vec<StaticSecret>")})
        out.append("(* %s fn add_private_keys *)" % w)
        out.append("Definition add_private_keys (self : ArchiveReaderConfig) (keys : list bytes) : ArchiveReaderConfig :=\n  %s." % body)
    item("add_private_keys", add_priv)
    return tr


# ---------------------------------------------------------------- functions that need the key primitives

def gen_keys_section(srcs, out, tr):
    cfg, enc = "mla/src/config.rs", "mla/src/layers/encrypt.rs"
    WCFG = r"impl ArchiveWriterConfig \{"
    I = "  "

    def item(name, f):
        try:
            f()
        except Exception as e:
            fail(out, name, e, I)

    def e_to_persistent():
        b, w, _ = fn_in(srcs, enc, "to_persistent", r"impl EncryptionConfig \{")
        if not (len(b[1]) == 1 and re.sub(r"\s+", "", R.show_stmt(b[1][0])) == "letmutrng=ChaChaRng::from_os_rng();"):
            raise ParseError("EncryptionConfig::to_persistent: one generator expected")
        t = strip_paren(b[2])
        if not (t[0] == "mcall" and t[2] == "map_or" and len(t[3]) == 2):
            raise ParseError("to_persistent tail")
        call = strip_paren(t[1])
        if not (call[0] == "call" and is_path(call[1], "store_key_for_multi_recipients") and len(call[2]) == 3
                and show(strip_paren(call[2][2])) == "&mut rng"):
            raise ParseError("store_key_for_multi_recipients call")
        env = {"self": ("self", "EncryptionConfig")}
        a0, t0 = tr.ex(call[2][0], env)
        a1, t1 = tr.ex(call[2][1], env)
        if (t0, t1) != ("Vec<PublicKey>", "Key"):
            raise ParseError("store_key arguments %s %s" % (t0, t1))
        em = re.fullmatch(r"Err\(ConfigError::([A-Za-z]+)\)", show(strip_paren(t[3][0])))
        cl = strip_paren(t[3][1])
        if not (em and cl[0] == "closure" and cl[1] == "multi_recipient"):
            raise ParseError("map_or arguments")
        okb = strip_paren(cl[2])
        if okb[0] == "block" and not okb[1]:
            okb = strip_paren(okb[2])
        if not (okb[0] == "call" and is_path(okb[1], "Ok") and len(okb[2]) == 1):
            raise ParseError("map_or closure")
        lit = strip_paren(okb[2][0])
        if not (lit[0] == "struct" and lit[1] == "EncryptionPersistentConfig"):
            raise ParseError("closure result")
        fields, _ = HD.struct_def("EncryptionPersistentConfig", srcs)
        if [f for f, _ in fields] != ["multi_recipient", "nonce"] or sorted(dict(lit[2])) != ["multi_recipient", "nonce"]:
            raise ParseError("EncryptionPersistentConfig fields")
        got = dict(lit[2])
        if not is_path(got["multi_recipient"], "multi_recipient"):
            raise ParseError("multi_recipient field")
        n, tn = tr.ex(got["nonce"], env)
        if tn != "[u8;NONCE_SIZE]":
            raise ParseError("nonce field")
        out.append(I + "(* %s fn EncryptionConfig::to_persistent *)" % w)
        out.append(I + "Definition EncryptionConfig_to_persistent (self : EncryptionConfig) (rng : bytes) : cres ConfigError enc_header :=\n"
                   + I + "  match store_key_for_multi_recipients %s %s rng with\n" % (a0, a1)
                   + I + "  | Ok multi_recipient => COk (mkEH (fst multi_recipient) (snd multi_recipient) %s)\n" % n
                   + I + "  | Err _ => CErr %s\n" % em.group(1)
                   + I + "  | Crash x => CCrash x\n" + I + "  end.")
    item("EncryptionConfig_to_persistent", e_to_persistent)

    def w_to_persistent():
        b, w, _ = fn_in(srcs, cfg, "to_persistent", WCFG)
        t = only_tail(b)
        if not (t[0] == "call" and is_path(t[1], "Ok") and len(t[2]) == 1):
            raise ParseError("to_persistent tail")
        lit = strip_paren(t[2][0])
        fields, _ = HD.struct_def("ArchivePersistentConfig", srcs)
        if not (lit[0] == "struct" and lit[1] == "ArchivePersistentConfig" and [f for f, _ in fields] == ["layers_enabled", "encrypt"]
                and [f for f, _ in lit[2]] == ["layers_enabled", "encrypt"]):
            raise ParseError("ArchivePersistentConfig literal (fields in evaluation order)")
        env = {"self": ("self", "ArchiveWriterConfig")}
        got = dict(lit[2])
        l, tl = tr.ex(got["layers_enabled"], env)
        if tl != "Layers":
            raise ParseError("layers_enabled field")
        en = strip_paren(got["encrypt"])
        if en[0] == "block" and not en[1]:
            en = strip_paren(en[2])
        if not (en[0] == "if" and en[3] is not None):
            raise ParseError("encrypt field: if/else expected")
        c, _ = tr.ex(en[1], env)
        if show(strip_paren(en[2])) != "{ Some(self.encrypt.to_persistent()?) }" or show(strip_paren(en[3])) != "{ None }":
            raise ParseError("encrypt field arms: %s / %s" % (show(strip_paren(en[2])), show(strip_paren(en[3]))))
        out.append(I + "(* %s fn to_persistent *)" % w)
        out.append(I + "Definition ArchiveWriterConfig_to_persistent (self : ArchiveWriterConfig) (rng : bytes) : cres ConfigError header :=\n"
                   + I + "  cbind (if %s then cmap Some (EncryptionConfig_to_persistent (awc_encrypt self) rng) else COk None) (fun encrypt =>\n" % c[1:-1]
                   + I + "  COk (mkH %s encrypt))." % l)
    item("ArchiveWriterConfig_to_persistent", w_to_persistent)

    def r_load():
        b, w, sig = fn_in(srcs, cfg, "load_persistent", r"impl ArchiveReaderConfig \{")
        if "config: ArchivePersistentConfig" not in sig or "Result<&mut Self, ConfigError>" not in sig:
            raise ParseError("load_persistent signature")
        if not (len(b[1]) == 2 and show(strip_paren(b[2])) == "Ok(self)"):
            raise ParseError("load_persistent shape")
        s0 = strip_paren(b[1][0][1]) if b[1][0][0] == "semi" else None
        if not (s0 and show(s0) == "self.layers_enabled = config.layers_enabled"):
            raise ParseError("load_persistent first statement: " + R.show_stmt(b[1][0]))
        s1 = strip_paren(b[1][1][1]) if b[1][1][0] == "expr" else None
        if not (s1 and s1[0] == "if" and s1[3] is None):
            raise ParseError("load_persistent second statement")
        env = {"self": ("self", "ArchiveReaderConfig")}
        c, tc = tr.ex(s1[1], env)
        blk = strip_paren(s1[2])
        mt = strip_paren(blk[1][0][1]) if (blk[0] == "block" and len(blk[1]) == 1 and blk[2] is None) else (strip_paren(blk[2]) if blk[0] == "block" and not blk[1] and blk[2] else None)
        if not (mt and mt[0] == "match" and show(strip_paren(mt[1])) == "config.encrypt" and len(mt[2]) == 2):
            raise ParseError("load_persistent: match config.encrypt expected")
        arms = {p: show(strip_paren(bd)) for p, g, bd in mt[2]}
        if arms.get("Some(to_load)") != "{ self.encrypt.load_persistent(&to_load)?; }":
            raise ParseError("Some arm: %s" % arms.get("Some(to_load)"))
        em = re.fullmatch(r"\{ return Err\(ConfigError::([A-Za-z]+)\); \}", arms.get("None", ""))
        if not em:
            raise ParseError("None arm: %s" % arms.get("None"))
        out.append(I + "(* %s fn load_persistent *)" % w)
        out.append(I + "Definition ArchiveReaderConfig_load_persistent (self : ArchiveReaderConfig) (config : header) : ArchiveReaderConfig * cres ConfigError unit :=\n"
                   + I + "  let self := set_arc_layers_enabled self (h_layers config) in\n"
                   + I + "  if %s then\n" % c[1:-1]
                   + I + "    match h_enc config with\n"
                   + I + "    | Some to_load =>\n"
                   + I + "      match Src3e.load_persistent _ retrieve_key (eh_public to_load, eh_keys to_load) (eh_nonce to_load) (arc_encrypt self) with\n"
                   + I + "      | (e, inl _) => (set_arc_encrypt self e, COk tt)\n"
                   + I + "      | (e, inr x) => (set_arc_encrypt self e, CErr (ConfigError_of_enc x))\n"
                   + I + "      end\n"
                   + I + "    | None => (self, CErr %s)\n" % em.group(1)
                   + I + "    end\n"
                   + I + "  else (self, COk tt).")
    item("ArchiveReaderConfig_load_persistent", r_load)


# ---------------------------------------------------------------- the three from_config

IO_ERR = "| (_, Err e) => CErr (Callee e)\n%s| (_, Crash x) => CCrash x\n%send"

WRITER_LAYERS = {"EncryptionLayerWriter": ("encrypt", "EncryptionConfig", True), "CompressionLayerWriter": ("compress", "CompressionConfig", False)}
READER_LAYERS = {"EncryptionLayerReader": ("encrypt", True), "CompressionLayerReader": (None, True)}
FS_LAYERS = {"EncryptionLayerFailSafeReader": ("encrypt", True), "CompressionLayerFailSafeReader": (None, True)}


def layer_if(tr, e, env, var, table, cfgstruct):
    """if <cond on config> { var = Box::new(T::new(var, &config.f)?); }  ->  (cond, T, field|None, fallible)"""
    e = strip_paren(e)
    if not (e[0] == "if" and e[3] is None):
        raise ParseError("layer test: if without else expected")
    c, tc = tr.ex(e[1], env)
    if tc != "bool":
        raise ParseError("layer test condition")
    blk = strip_paren(e[2])
    if not (blk[0] == "block" and len(blk[1]) == 1 and blk[1][0][0] == "semi" and blk[2] is None):
        raise ParseError("layer test body")
    a = strip_paren(blk[1][0][1])
    if not (a[0] == "assign" and a[1] == "=" and is_path(a[2], var)):
        raise ParseError("layer test: `%s = ..` expected" % var)
    bx = strip_paren(a[3])
    if not (bx[0] == "call" and is_path(bx[1], "Box::new") and len(bx[2]) == 1):
        raise ParseError("Box::new expected")
    inner = strip_paren(bx[2][0])
    fallible = inner[0] == "try"
    if fallible:
        inner = strip_paren(inner[1])
    if not (inner[0] == "call" and is_path(inner[1])):
        raise ParseError("constructor call expected")
    m = re.fullmatch(r"([A-Za-z]+)::new", strip_paren(inner[1])[1])
    if not (m and m.group(1) in table):
        raise ParseError("layer constructor " + show(inner[1]))
    T = m.group(1)
    spec = table[T]
    field, want_fallible = spec[0], spec[-1]
    if fallible != want_fallible:
        raise ParseError("%s::new: `?` %s" % (T, "missing" if want_fallible else "unexpected"))
    args = inner[2]
    if not (args and is_path(args[0], var)):
        raise ParseError("%s::new: first argument must be `%s`" % (T, var))
    if field is None:
        if len(args) != 1:
            raise ParseError("%s::new arguments" % T)
        return c, T, None
    if len(args) != 2:
        raise ParseError("%s::new arguments" % T)
    g, tg = tr.ex(args[1], env)
    want_t = spec[1] if len(spec) == 3 else "EncryptionReaderConfig"
    if tg != want_t:
        raise ParseError("%s::new: configuration argument of type %s" % (T, tg))
    return c, T, g


def raw_write_passthrough(srcs):
    txt = srcs.files["mla/src/layers/raw.rs"]
    m = re.search(r"impl<W: InnerWriterTrait> Write for RawLayerWriter<W> \{", txt)
    if not m:
        raise ParseError("impl Write for RawLayerWriter")
    r = R.fn_text(txt, "write", 0, r"impl<W: InnerWriterTrait> Write for RawLayerWriter<W> \{")
    if r is None or re.sub(r"\s+", "", R.strip_comments(r[0])) != "self.inner.write(buf)":
        raise ParseError("RawLayerWriter::write is not a pass-through")


def tr_writer(srcs, tr):
    lib = "mla/src/lib.rs"
    b, w, sig = fn_in(srcs, lib, "from_config", r"impl<W: InnerWriterTrait> ArchiveWriter<'_, W> \{")
    if "dest: W, config: ArchiveWriterConfig" not in sig:
        raise ParseError("signature: " + sig)
    raw_write_passthrough(srcs)
    fields, _ = generic_struct_fields("ArchiveWriter", srcs)
    if [f for f, _ in fields] != ["config", "dest", "state", "files_info", "ids_info", "next_id", "current_id"]:
        raise ParseError("struct ArchiveWriter fields %s" % [f for f, _ in fields])
    env = {"config": ("config", "ArchiveWriterConfig")}
    st = list(b[1])
    L = []
    close = 0
    ind = "      "
    # 1 config.check()?;
    if not (st and st[0][0] == "semi" and show(strip_paren(st[0][1])) == "config.check()?"):
        raise ParseError("first statement must be config.check()?: " + (R.show_stmt(st[0]) if st else ""))
    L.append(ind + "cbind (cmap_err Error_from_ConfigError (ArchiveWriterConfig_check config)) (fun _ =>")
    close += 1
    st = st[1:]
    # 2 raw layer
    if not (st and st[0][0] == "let" and re.sub(r"^mut\s+", "", st[0][1]) == "dest"
            and show(strip_paren(st[0][3])) == "Box::new(RawLayerWriter::new(dest))"):
        raise ParseError("raw layer creation expected: " + (R.show_stmt(st[0]) if st else ""))
    st = st[1:]
    # 3 header
    s = strip_paren(st[0][1]) if st and st[0][0] == "semi" else None
    if not (s and s[0] == "try"):
        raise ParseError("header dump expected")
    d = strip_paren(s[1])
    if not (d[0] == "mcall" and d[2] == "dump" and len(d[3]) == 1 and show(strip_paren(d[3][0])) == "&mut dest"):
        raise ParseError("header dump expected: " + show(d)[:60])
    lit = strip_paren(d[1])
    if not (lit[0] == "struct" and lit[1] == "ArchiveHeader" and [f for f, _ in lit[2]] == ["format_version", "config"]
            and is_path(dict(lit[2])["format_version"], "MLA_FORMAT_VERSION")
            and show(strip_paren(dict(lit[2])["config"])) == "config.to_persistent()?"):
        raise ParseError("ArchiveHeader literal: " + show(lit)[:80])
    L.append(ind + "cbind (cmap_err Error_from_ConfigError (ArchiveWriterConfig_to_persistent config rng)) (fun hdr_config =>")
    close += 1
    L.append(ind + "match Src3h.ArchiveHeader_dump Src3h.MLA_FORMAT_VERSION hdr_config dest with")
    L.append(ind + "| (dest, Ok _) =>")
    ind2 = ind + "  "
    L.append(ind2 + "let dest := RawLayerWriter_new dest in")
    st = st[1:]
    inner_close = 0
    # 4 layers, position
    final = None
    while st:
        s0 = st[0]
        if s0[0] == "expr":
            c, T, g = layer_if(tr, s0[1], env, "dest", WRITER_LAYERS, "ArchiveWriterConfig")
            if final is not None:
                raise ParseError("a layer after the position layer")
            if WRITER_LAYERS[T][2]:
                L.append(ind2 + "cbind (if %s then cres_of Callee (%s_new dest %s) else COk dest) (fun dest =>" % (c[1:-1], T, g))
                inner_close += 1
            else:
                L.append(ind2 + "let dest := if %s then %s_new dest %s else dest in" % (c[1:-1], T, g))
        elif s0[0] == "let" and re.sub(r"^mut\s+", "", s0[1]) == "final_dest" and final is None:
            if show(strip_paren(s0[3])) != "Box::new(PositionLayerWriter::new(dest))":
                raise ParseError("position layer: " + R.show_stmt(s0))
            L.append(ind2 + "let final_dest := PositionLayerWriter_new dest in")
            final = "new"
        elif s0[0] == "semi" and show(strip_paren(s0[1])) == "final_dest.reset_position()" and final == "new":
            L.append(ind2 + "let final_dest := pos_reset_position final_dest in")
            final = "reset"
        else:
            raise ParseError("statement " + R.show_stmt(s0)[:70])
        st = st[1:]
    if final is None:
        raise ParseError("no position layer")
    t = strip_paren(b[2]) if b[2] is not None else None
    if not (t and t[0] == "call" and is_path(t[1], "Ok") and len(t[2]) == 1):
        raise ParseError("tail")
    lit = strip_paren(t[2][0])
    if not (lit[0] == "struct" and lit[1] == "ArchiveWriter"):
        raise ParseError("tail literal")
    got = dict(lit[2])
    if sorted(got) != sorted(f for f, _ in fields):
        raise ParseError("ArchiveWriter literal fields %s" % sorted(got))
    if not (is_path(got["config"], "config") and is_path(got["dest"], "final_dest")):
        raise ParseError("config / dest of the ArchiveWriter literal")
    if re.sub(r"\s+", "", show(strip_paren(got["state"]))) != "ArchiveWriterState::OpenedFiles{ids:Vec::new(),hashes:HashMap::new()}":
        raise ParseError("initial state: " + show(strip_paren(got["state"])))
    vals = []
    for f in ("files_info", "ids_info", "next_id", "current_id"):
        a, ta = tr.ex(got[f], {})
        vals.append(a)
    L.append(ind2 + "COk (mkAWr config final_dest (Src2.OpenedFiles [] []) %s)%s" % (" ".join(vals), ")" * inner_close))
    L.append(ind + "| (dest, Err e) => CErr (Callee e)")
    L.append(ind + "| (dest, Crash x) => CCrash x")
    L.append(ind + "end" + ")" * close + ".")
    head = ("    (* %s fn ArchiveWriter::from_config; rng: the bytes drawn by to_persistent *)\n"
            "    Definition ArchiveWriter_from_config (dest : bytes) (config : ArchiveWriterConfig) (rng : bytes) : cres Error ArchiveWriter :=\n" % w)
    return head + "\n".join(L)


def tr_reader(srcs, tr, failsafe):
    lib = "mla/src/lib.rs"
    within = (r"impl<'b, R: 'b \+ Read> ArchiveFailSafeReader<'b, R> \{" if failsafe
              else r"impl<'b, R: 'b \+ InnerReaderTrait> ArchiveReader<'b, R> \{")
    b, w, sig = fn_in(srcs, lib, "from_config", within)
    if "mut src: R, mut config: ArchiveReaderConfig" not in sig:
        raise ParseError("signature: " + sig)
    sname = "ArchiveFailSafeReader" if failsafe else "ArchiveReader"
    fields, _ = generic_struct_fields(sname, srcs)
    want = ["config", "src"] if failsafe else ["config", "src", "metadata"]
    if [f for f, _ in fields] != want:
        raise ParseError("struct %s fields %s" % (sname, [f for f, _ in fields]))
    env = {"config": ("config", "ArchiveReaderConfig")}
    kind = {"src": "S0"}     # what each local holds: S0 (the source), RAW, L (a boxed layer)
    L = []
    closers = []            # stack of closing texts
    ind = "      "
    table = FS_LAYERS if failsafe else READER_LAYERS

    def open_match(scrut, pat, errs):
        nonlocal ind
        L.append(ind + "match %s with" % scrut)
        L.append(ind + "| %s =>" % pat)
        closers.append((ind, errs))
        ind += "  "

    IOE = ["| (_, Err e) => CErr (Callee e)", "| (_, Crash x) => CCrash x", "end"]
    CFE = ["| (_, CErr e) => CErr (Error_from_ConfigError e)", "| (_, CCrash x) => CCrash x", "end"]
    header = False
    loaded = False
    for s in b[1]:
        txt = re.sub(r"\s+", " ", R.show_stmt(s))
        if s[0] == "semi" and txt == "src.rewind()?;":
            if kind["src"] == "S0":
                open_match("sk S0 src (FromStart 0)", "(src, Ok _)", IOE)
            elif kind["src"] == "L" and not failsafe:
                open_match("lr_rewind src", "(src, Ok _)", IOE)
            else:
                raise ParseError("rewind of " + kind["src"])
        elif s[0] == "let" and s[1] == "header" and show(strip_paren(s[3])) == "ArchiveHeader::from(&mut src)?" and kind["src"] == "S0":
            open_match("Src3h.ArchiveHeader_from S0 src", "(src, Ok header)", IOE)
            header = True
        elif s[0] == "semi" and txt == "config.load_persistent(header.config)?;" and header:
            open_match("ArchiveReaderConfig_load_persistent config header", "(config, COk _)", CFE)
            loaded = True
        elif (not failsafe and s[0] == "let" and re.sub(r"^mut\s+", "", s[1]) == "raw_src"
              and show(strip_paren(s[3])) == "Box::new(RawLayerReader::new(src))" and kind["src"] == "S0"):
            L.append(ind + "let raw_src := RawLayerReader_new src in")
            kind["raw_src"] = "RAW"
            kind["src"] = "moved"
        elif not failsafe and s[0] == "semi" and txt == "raw_src.reset_position()?;" and kind.get("raw_src") == "RAW":
            open_match("raw_reset_position raw_src", "(raw_src, Ok _)", IOE)
        elif (not failsafe and s[0] == "let" and re.sub(r"^mut\s+", "", s[1]) == "src" and is_path(s[3], "raw_src")
              and kind.get("raw_src") == "RAW" and s[2] and "dyn" in s[2] and "LayerReader" in s[2]):
            L.append(ind + "let src := box_raw raw_src in")
            kind["src"] = "L"
            kind["raw_src"] = "moved"
        elif (failsafe and s[0] == "let" and re.sub(r"^mut\s+", "", s[1]) == "src" and kind["src"] == "S0"
              and show(strip_paren(s[3])) == "Box::new(RawLayerFailSafeReader::new(src))"):
            L.append(ind + "let src := RawLayerFailSafeReader_new src in")
            kind["src"] = "L"
        elif s[0] == "expr" and kind["src"] == "L":
            c, T, g = layer_if(tr, s[1], env, "src", table, "ArchiveReaderConfig")
            call = "%s_new src %s" % (T, g) if g else "%s_new src" % T
            L.append(ind + "cbind (if %s then cres_of Callee (%s) else COk src) (fun src =>" % (c[1:-1], call))
            closers.append((None, ")"))
        elif not failsafe and s[0] == "semi" and txt == "src.initialize()?;" and kind["src"] == "L":
            open_match("lr_initialize src", "(src, Ok _)", IOE)
        elif (not failsafe and s[0] == "let" and s[1] == "metadata" and kind["src"] == "L"
              and show(strip_paren(s[3])) == "Some(ArchiveFooter::deserialize_from(&mut src)?)"):
            open_match("ArchiveFooter_deserialize_from src", "(src, Ok v)", IOE)
            L.append(ind + "let metadata := Some v in")
            kind["metadata"] = "opt"
        else:
            raise ParseError("statement " + txt[:80])
    if not loaded:
        raise ParseError("load_persistent is not called")
    t = strip_paren(b[2]) if b[2] is not None else None
    if not (t and t[0] == "call" and is_path(t[1], "Ok") and len(t[2]) == 1):
        raise ParseError("tail")
    lit = strip_paren(t[2][0])
    if not (lit[0] == "struct" and lit[1] in (sname, "Self") and sorted(f for f, _ in lit[2]) == sorted(want)
            and all(is_path(v, f) for f, v in lit[2])):
        raise ParseError("tail literal " + show(lit)[:60])
    if kind["src"] != "L" or (not failsafe and kind.get("metadata") != "opt"):
        raise ParseError("tail: src / metadata not built")
    L.append(ind + ("COk (mkAFS config src)" if failsafe else "COk (mkARd config src metadata)"))
    tail = ""
    out_lines = []
    for ci, errs in reversed(closers):
        if ci is None:
            L[-1] += ")"
        else:
            for e_ in errs:
                L.append(ci + e_)
    L[-1] += "."
    head = ("    (* %s fn %s::from_config *)\n    Definition %s_from_config (src : st S0) (config : ArchiveReaderConfig) : cres Error %s :=\n"
            % (w, sname, sname, sname))
    return head + "\n".join(L)


PRELUDE_W = """  (* ---- ArchiveWriter::from_config ---- *)
  Section WriterCfg.
    Variables WL PL : Type.                                   (* InnerWriterType<W> = Box<dyn LayerWriter<W>>; Box<PositionLayerWriter<W>> *)
    Variable RawLayerWriter_new : bytes -> WL.                 (* over the bytes the destination holds (a Vec: infallible; Write passes through, raw.rs) *)
    Variable EncryptionLayerWriter_new : WL -> EncryptionConfig -> res WL.
    Variable CompressionLayerWriter_new : WL -> CompressionConfig -> WL.
    Variable PositionLayerWriter_new : WL -> PL.
    Variable pos_reset_position : PL -> PL.
    Record ArchiveWriter := mkAWr { aw_config : ArchiveWriterConfig; aw_dest : PL; aw_state : Src2.ArchiveWriterState;
      aw_files_info : list (bytes * N); aw_ids_info : list (N * Src2.FileInfo); aw_next_id : N; aw_current_id : N }.
"""
PRELUDE_R = """  (* ---- ArchiveReader::from_config, ArchiveFailSafeReader::from_config ---- *)
  Section ReaderCfg.
    Variable S0 : Stream.                                      (* R: the source *)
    Variables RAW LR LF : Type.                                (* RawLayerReader<R>; Box<dyn LayerReader<R>>; Box<dyn LayerFailSafeReader<R>> *)
    Variable RawLayerReader_new : st S0 -> RAW.
    Variable raw_reset_position : RAW -> RAW * res unit.
    Variable box_raw : RAW -> LR.                              (* Box<RawLayerReader<R>> as Box<dyn LayerReader<R>> *)
    Variable EncryptionLayerReader_new : LR -> Src3e.EncryptionReaderConfig -> res LR.
    Variable CompressionLayerReader_new : LR -> res LR.
    Variable lr_initialize : LR -> LR * res unit.
    Variable ArchiveFooter_deserialize_from : LR -> LR * res footer.
    Variable lr_rewind : LR -> LR * res N.
    Variable RawLayerFailSafeReader_new : st S0 -> LF.
    Variable EncryptionLayerFailSafeReader_new : LF -> Src3e.EncryptionReaderConfig -> res LF.
    Variable CompressionLayerFailSafeReader_new : LF -> res LF.
    Record ArchiveReader := mkARd { ar_config : ArchiveReaderConfig; ar_src : LR; ar_metadata : option footer }.
    Record ArchiveFailSafeReader := mkAFS { afs_config : ArchiveReaderConfig; afs_src : LF }.
"""


def generate():
    out = ["(* GENERATED by tools/src2v3_cfg.py from %s — do not edit. *)" % REPO,
           "From MLA Require Import Base Stream Blocks Format CfgPrims.", "From MLAGen Require Src2 Src3e Src3h.",
           "Open Scope N_scope.", ""]
    srcs = HD.Sources()
    layer_names = gen_layers(srcs, out)      # a failure here fails the whole file: everything depends on the flags
    out.append("")
    gen_errors(srcs, out)
    out.append("")
    check_structs(srcs)
    gen_records(out)
    out.append("")
    tr = gen_builders(srcs, out, layer_names)
    out.append("")
    out.append("Section KeysCfg.")
    out.append("  (* crypto/ecc.rs store_key_for_multi_recipients(&ecc_keys, &key, &mut rng): rng = the bytes ChaChaRng::from_os_rng() delivers *)")
    out.append("  Variable store_key_for_multi_recipients : list bytes -> bytes -> bytes -> res (bytes * list (bytes * bytes)).")
    out.append("  (* crypto/ecc.rs retrieve_key *)")
    out.append("  Variable retrieve_key : (bytes * list (bytes * bytes)) -> bytes -> res (option bytes).")
    out.append("")
    gen_keys_section(srcs, out, tr)
    out.append("")
    out.append(PRELUDE_W.rstrip("\n"))
    try:
        out.append(tr_writer(srcs, tr))
    except Exception as e:
        fail(out, "ArchiveWriter_from_config", e, "    ")
    out.append("  End WriterCfg.")
    out.append("")
    out.append(PRELUDE_R.rstrip("\n"))
    for fs, nm in ((False, "ArchiveReader_from_config"), (True, "ArchiveFailSafeReader_from_config")):
        try:
            out.append(tr_reader(srcs, tr, fs))
        except Exception as e:
            fail(out, nm, e, "    ")
    out.append("  End ReaderCfg.")
    out.append("End KeysCfg.")
    return "\n".join(out) + "\n"


def main():
    try:
        text = generate()
    except Exception as e:  # fail closed as a whole
        text = "(* GENERATED: tools/src2v3_cfg.py failed: %s *)\nDefinition src3f_untranslatable : unit := tt.\n" % str(e).replace("*)", "* )")
    outp = os.path.normpath(OUT)
    os.makedirs(os.path.dirname(outp), exist_ok=True)
    old = None
    if os.path.exists(outp):
        with open(outp) as f:
            old = f.read()
    if old != text:
        with open(outp, "w") as f:
            f.write(text)
        print("src2v3_cfg: wrote", outp)
    else:
        print("src2v3_cfg: unchanged", outp)


if __name__ == "__main__":
    main()
