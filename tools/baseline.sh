#!/bin/bash
# The repository's own suite with the guard (cargo feature mla_verif) OFF.
cd /repo && (cargo nextest run --workspace --no-fail-fast --test-threads 8 --offline || cargo test --workspace --no-fail-fast --offline)
