"""Tie A, second part, continued (called by src2v2.py): pure decision kernels and ordered event
lists.  Same rule: anything not recognised -> `<name>_untranslatable`."""
import re

import rustmini as R
from rustmini import ParseError, strip_paren, show, show_stmt


def coq_str(x):
    return '"%s"%%string' % x.replace('"', '""')


# ------------------------------------------------------------------ event lists

def flatten(e, out, lead=""):
    """program-order list of the statements of a body; nested blocks are opened/closed by
    marker events so that the branch structure stays visible"""
    e = strip_paren(e)
    k = e[0]
    if k == "block":
        for st in e[1]:
            if st[0] == "let":
                rhs = strip_paren(st[3]) if st[3] is not None else None
                head = "let %s%s" % (st[1], "")
                if rhs is not None and rhs[0] in ("if", "match", "loop", "block"):
                    flatten(rhs, out, head + " = ")
                    out.append(";")
                else:
                    out.append(show_stmt(st))
            else:
                inner = strip_paren(st[1])
                if inner[0] in ("if", "match", "loop", "while", "for", "block"):
                    flatten(inner, out)
                elif inner[0] == "return" and inner[1] is not None and strip_paren(inner[1])[0] in ("if", "match"):
                    flatten(strip_paren(inner[1]), out, "return ")
                else:
                    out.append(show_stmt(st))
        if e[2] is not None:
            t = strip_paren(e[2])
            if t[0] in ("if", "match", "loop", "while", "for", "block"):
                flatten(t, out, "=> ")
            else:
                out.append("=> " + show(t))
        return
    if k == "if":
        out.append("%sif %s {" % (lead, show(e[1])))
        flatten(e[2], out)
        el = e[3]
        while el is not None:
            if el[0] == "if":
                out.append("} else if %s {" % show(el[1]))
                flatten(el[2], out)
                el = el[3]
            else:
                out.append("} else {")
                flatten(el, out)
                el = None
        out.append("}")
        return
    if k == "match":
        out.append("%smatch %s {" % (lead, show(e[1])))
        for pat, guard, body in e[2]:
            out.append("%s%s =>" % (pat, " if " + show(guard) if guard else ""))
            b = strip_paren(body)
            if b[0] in ("block", "if", "match", "loop"):
                flatten(b if b[0] == "block" else ("block", [], b), out)
            else:
                out.append("=> " + show(b))
        out.append("}")
        return
    if k in ("loop", "while", "for"):
        head = {"loop": "loop", "while": "while %s" % (show(e[2]) if k == "while" else ""),
                "for": "for %s in %s" % ((e[2], show(e[3])) if k == "for" else ("", ""))}[k]
        out.append("%s%s%s {" % (lead, e[1] + ": " if e[1] else "", head))
        flatten(e[-1], out)
        out.append("}")
        return
    out.append(lead + show(e))


def events(src, name, nth=0, within=None):
    r = R.fn_text(src, name, nth, within)
    if r is None:
        raise ParseError("fn %s not found" % name)
    ev = []
    flatten(R.parse_body(r[0]), ev)
    return ev, r[1], re.sub(r"\s+", " ", r[2]).strip()


def emit_events(out, coqname, rel, src, name, nth=0, within=None, with_sig=False):
    try:
        ev, line, sig = events(src, name, nth, within)
        if with_sig:
            ev = ["fn " + re.sub(r"^.*?fn\s+", "", sig)] + ev
        out.append("(* %s:%d fn %s *)" % (rel, line, name))
        out.append("Definition EV_%s : list string := [\n  %s]." % (coqname, ";\n  ".join(coq_str(x) for x in ev)))
    except Exception as e:  # fail closed
        out.append("(* %s: %s *)" % (coqname, e))
        out.append("Definition EV_%s_untranslatable : unit := tt." % coqname)


# ------------------------------------------------------------------ pure expressions

def pure(e, env):
    """arithmetic / boolean expression over N; env maps rust leaf text -> gallina"""
    e = strip_paren(e)
    s = show(e)
    if s in env:
        return env[s]
    k = e[0]
    if k == "int":
        return str(e[1])
    if k == "cast" and e[2] in ("u64", "usize", "u32", "u8"):
        return pure(e[1], env)
    if k == "call" and e[1][0] == "path" and e[1][1] in ("std::cmp::min", "cmp::min", "min") and len(e[2]) == 2:
        return "(N.min %s %s)" % (pure(e[2][0], env), pure(e[2][1], env))
    if k == "call" and e[1][0] == "path" and e[1][1] in ("u64::from", "u32::from", "usize::from") and len(e[2]) == 1:
        return pure(e[2][0], env)
    if k == "mcall" and e[2] == "min" and len(e[3]) == 1:
        return "(N.min %s %s)" % (pure(e[1], env), pure(e[3][0], env))
    if k == "un" and e[1] == "!":
        return "(negb %s)" % pure(e[2], env)
    if k == "bin":
        a, b, op = pure(e[2], env), pure(e[3], env), e[1]
        tbl = {"+": "(%s + %s)", "-": "(%s - %s)", "*": "(%s * %s)", "/": "(%s / %s)", "%": "(%s mod %s)",
               "==": "(%s =? %s)", "!=": "(negb (%s =? %s))", "<": "(%s <? %s)", "<=": "(%s <=? %s)",
               "&&": "(%s && %s)", "||": "(%s || %s)", "|": "(N.lor %s %s)"}
        if op == ">":
            return "(%s <? %s)" % (b, a)
        if op == ">=":
            return "(%s <=? %s)" % (b, a)
        if op in tbl:
            return tbl[op] % (a, b)
    raise ParseError("pure expression " + s[:60])


def find_let(body, name):
    for st in body[1]:
        if st[0] == "let" and re.sub(r"^mut ", "", st[1]) == name:
            return st[3]
    raise ParseError("let %s not found" % name)


def guard_return(st):
    """`if c { return X; }` -> (c, X) else None"""
    if st[0] not in ("expr", "semi"):
        return None
    e = strip_paren(st[1])
    if e[0] != "if" or e[1][0] == "letcond":
        return None
    th = e[2]
    if len(th[1]) == 1 and th[2] is None and th[1][0][0] == "semi" and strip_paren(th[1][0][1])[0] == "return":
        return e[1], strip_paren(th[1][0][1])[1], e[3]
    return None


def rest(out, lib, read, strip_tests):
    enc = strip_tests(read("mla/src/layers/encrypt.rs"))
    comp = strip_tests(read("mla/src/layers/compress.rs"))
    helpers = strip_tests(read("mla/src/helpers.rs"))
    config = strip_tests(read("mla/src/config.rs"))
    position = strip_tests(read("mla/src/layers/position.rs"))
    hashrs = strip_tests(read("mla/src/crypto/hash.rs"))

    # ---------------- TryFrom<u8> for ArchiveFileBlockType: the arms, in order
    out.append("(* ================= pure decision kernels ================= *)")
    out.append("Section Kernels2.")
    out.append("  Variables BT_FileStart BT_FileContent BT_EndOfArchiveData BT_EndOfFile : N.")
    out.append("  Variables CHUNK_SIZE CIPHER_BUF_SIZE TAG_LENGTH UNCOMPRESSED_DATA_SIZE FAIL_SAFE_BUFFER_SIZE : N.")
    try:
        r = R.fn_text(lib, "try_from", 0, within=r"impl TryFrom<u8> for ArchiveFileBlockType \{")
        b = R.parse_body(r[0])
        if b[1] or b[2] is None:
            raise ParseError("try_from shape")
        e = strip_paren(b[2])
        arms = []
        while e is not None and e[0] == "if":
            c = strip_paren(e[1])
            m = re.fullmatch(r"value == Self::(\w+) as u8", show(c))
            t = e[2]
            if not m or t[1] or t[2] is None or show(t[2]) != "Ok(Self::%s)" % m.group(1):
                raise ParseError("try_from arm " + show(c))
            arms.append(m.group(1))
            e = e[3]
        if e is None or e[0] != "block" or e[1] or e[2] is None:
            raise ParseError("try_from default arm")
        from src2v2 import err_of
        d = strip_paren(e[2])
        if not (d[0] == "call" and show(d[1]) == "Err"):
            raise ParseError("try_from default")
        de = err_of(d[2][0])
        body = ""
        for a in arms:
            body += "if value =? BT_%s then Ok BT_%s else " % (a, a)
        out.append("  (* mla/src/lib.rs:%d TryFrom<u8> for ArchiveFileBlockType *)" % r[1])
        out.append("  Definition block_type_try_from (value : N) : res N :=\n    %sErr %s." % (body, de))
    except Exception as ex:
        out.append("  (* try_from: %s *)" % ex)
        out.append("  Definition block_type_try_from_untranslatable : unit := tt.")

    # ---------------- EncryptionLayerWriter::write: the two guards and the accepted size
    try:
        r = R.fn_text(enc, "write", 0, within=r"impl<W: InnerWriterTrait> Write for EncryptionLayerWriter<'_, W> \{")
        b = R.parse_body(r[0])
        env = {"self.current_chunk_offset": "current_chunk_offset", "CHUNK_SIZE": "CHUNK_SIZE",
               "CIPHER_BUF_SIZE": "CIPHER_BUF_SIZE", "buf.len()": "buf_len"}
        first = strip_paren(b[1][0][1])
        g = guard_return(b[1][0])
        if g is None or g[2] is None or g[2][0] != "if" or g[2][3] is not None:
            raise ParseError("enc write guards")
        from src2v2 import err_of
        too_big = pure(g[0], env)
        er = err_of(strip_paren(g[1])[2][0])
        renew_c = pure(g[2][1], env)
        rb = [show_stmt(x) for x in g[2][2][1]]
        if rb != ["let tag = self.renew_cipher()?;", "self.inner.write_all(&tag)?;"] or g[2][2][2] is not None:
            raise ParseError("enc write renewal branch %s" % rb)
        size = pure(find_let(b, "size"), env)
        tail_ev = [show_stmt(x) for x in b[1][1:]] + [show(b[2])]
        need = ["io::copy(&mut buf_src.take(size), &mut buf_tmp)?;", "self.cipher.encrypt(&mut buf_tmp);",
                "self.inner.write_all(&buf_tmp)?;", "self.current_chunk_offset += size;"]
        idx = [tail_ev.index(x) for x in need]
        if idx != sorted(idx) or not show(b[2]).startswith("usize::try_from(size).map_err("):
            raise ParseError("enc write tail")
        out.append("  (* mla/src/layers/encrypt.rs:%d EncryptionLayerWriter::write: guards, renewal test, accepted size\n"
                   "     (then: take(size) of buf -> encrypt -> inner.write_all -> current_chunk_offset += size -> Ok(size)) *)" % r[1])
        out.append("  Definition enc_write_too_big (current_chunk_offset : N) : bool := %s." % too_big)
        out.append("  Definition enc_write_too_big_err : err := %s." % er)
        out.append("  Definition enc_write_renews (current_chunk_offset : N) : bool := %s." % renew_c)
        out.append("  Definition enc_write_size (current_chunk_offset buf_len : N) : N := %s." % size)
    except Exception as ex:
        out.append("  (* enc write: %s *)" % ex)
        out.append("  Definition enc_write_untranslatable : unit := tt.")

    # ---------------- EncryptionLayerWriter::renew_cipher: counter step and offset reset, before the new cipher
    try:
        r = R.fn_text(enc, "renew_cipher")
        b = R.parse_body(r[0])
        ev = [show_stmt(x) for x in b[1]] + [show(b[2])]
        if ev != ["self.current_ctr += 1;", "self.current_chunk_offset = 0;",
                  "let cipher = AesGcm256::new(&self.key, &build_nonce(self.nonce_prefix, self.current_ctr), b\"\")?;",
                  "let old_cipher = std::mem::replace(&mut self.cipher, cipher);", "Ok(old_cipher.into_tag())"]:
            raise ParseError("renew_cipher body %s" % ev)
        out.append("  (* mla/src/layers/encrypt.rs:%d renew_cipher: (counter, offset) afterwards; the tag returned is the OLD cipher's;\n"
                   "     the new cipher is keyed with the counter AFTER the step *)" % r[1])
        out.append("  Definition renew_cipher_ctr (current_ctr : N) : N := current_ctr + 1.")
        out.append("  Definition renew_cipher_offset : N := 0.")
    except Exception as ex:
        out.append("  (* renew_cipher: %s *)" % ex)
        out.append("  Definition renew_cipher_untranslatable : unit := tt.")

    # ---------------- load_in_cache: sizes, the two early exits, tag split, compare-then-fill
    try:
        r = R.fn_text(enc, "load_in_cache")
        b = R.parse_body(r[0])
        env = {"CHUNK_SIZE": "CHUNK_SIZE", "TAG_LENGTH": "TAG_LENGTH", "data_and_tag_read": "data_and_tag_read"}
        rd = strip_paren(find_let(b, "data_and_tag_read"))
        m = re.fullmatch(r"\(&mut self\.inner\)\.take\((.*)\)\.read_to_end\(&mut data_and_tag\)\?", show(rd))
        if not m:
            raise ParseError("load_in_cache read " + show(rd))
        want = pure(R.parse_expr(m.group(1)), env)
        stm = list(b[1])
        names = [show_stmt(x) for x in stm]
        i_reset = names.index("self.chunk_cache = Cursor::new(Vec::new());")
        i_read = [i for i, x in enumerate(stm) if x[0] == "let" and x[1] == "data_and_tag_read"][0]
        g1, g2 = guard_return(stm[i_read + 1]), guard_return(stm[i_read + 2])
        if g1 is None or g2 is None or g1[2] is not None or g2[2] is not None or not i_reset < i_read:
            raise ParseError("load_in_cache early exits")
        from src2v2 import err_of
        if show(g1[1]) != "Ok(None)":
            raise ParseError("load_in_cache end of stream result")
        eos = pure(g1[0], env)
        short = pure(g2[0], env)
        short_err = err_of(strip_paren(g2[1])[2][0])
        # no assignment to the cache between the reset and the final if
        mid = names[i_read + 3:]
        if any("self.chunk_cache" in x for x in mid):
            raise ParseError("load_in_cache: cache touched before the tag comparison")
        if mid != ["let mut tag = [0; TAG_LENGTH];", "tag.copy_from_slice(&data_and_tag[data_and_tag_read - TAG_LENGTH..]);",
                   "data_and_tag.resize(data_and_tag_read - TAG_LENGTH, 0);", "let mut data = data_and_tag;",
                   "let expected_tag = self.cipher.decrypt(data.as_mut_slice());"]:
            raise ParseError("load_in_cache middle %s" % mid)
        t = strip_paren(b[2])
        if t[0] != "if" or show(t[1]) != "expected_tag.ct_eq(&tag).unwrap_u8() == 1":
            raise ParseError("load_in_cache tag comparison")
        th = [show_stmt(x) for x in t[2][1]] + [show(t[2][2])]
        el = t[3]
        if th != ["self.chunk_cache = Cursor::new(data);", "Ok(Some(()))"] or el is None or el[0] != "block" or el[1]:
            raise ParseError("load_in_cache branches")
        bad = strip_paren(el[2])
        bad_err = err_of(bad[2][0])
        out.append("  (* mla/src/layers/encrypt.rs:%d load_in_cache: cache emptied, then read_to_end of take(n); n, the two exits,\n"
                   "     split point of data|tag; the cache is filled ONLY in the branch where the tags are equal *)" % r[1])
        out.append("  Definition load_read_len : N := %s." % want)
        out.append("  Definition load_is_eos (data_and_tag_read : N) : bool := %s." % eos)
        out.append("  Definition load_is_short (data_and_tag_read : N) : bool := %s." % short)
        out.append("  Definition load_short_err : err := %s." % short_err)
        out.append("  Definition load_split (data_and_tag_read : N) : N := data_and_tag_read - TAG_LENGTH.")
        out.append("  Definition load_wrong_tag_err : err := %s." % bad_err)
        out.append("  (* (cache afterwards, result) as a function of the read bytes and of the tag comparison *)")
        out.append("  Definition load_in_cache_k (dt : bytes) (tags_equal : bytes -> bytes -> bool) (plain : bytes -> bytes) : bytes * res bool :=\n"
                   "    if load_is_eos (len dt) then ([], Ok false) else\n"
                   "    if load_is_short (len dt) then ([], Err load_short_err) else\n"
                   "    let data := takeN (load_split (len dt)) dt in let tag := dropN (load_split (len dt)) dt in\n"
                   "    if tags_equal data tag then (plain data, Ok true) else ([], Err load_wrong_tag_err).")
    except Exception as ex:
        out.append("  (* load_in_cache: %s *)" % ex)
        out.append("  Definition load_in_cache_untranslatable : unit := tt.")

    # ---------------- CompressionLayerWriter::write: roll-over test and accepted sizes
    try:
        r = R.fn_text(comp, "write", 0, within=r"impl<'a, W: 'a \+ InnerWriterTrait> Write for CompressionLayerWriter<'a, W> \{")
        b = R.parse_body(r[0])
        m = strip_paren(b[2])
        if m[0] != "match" or show(m[1]) != "old_state":
            raise ParseError("comp write match")
        arms = {p: bb for p, g, bb in m[2]}
        env = {"UNCOMPRESSED_DATA_SIZE": "UNCOMPRESSED_DATA_SIZE", "buf.len()": "buf_len", "written": "written"}
        ready = arms["CompressionLayerWriterState::Ready(inner)"]
        ind = arms["CompressionLayerWriterState::InData(written,mut compress)"]
        size_ready = pure(find_let(ready, "size"), env)
        g1, g2 = guard_return(ind[1][0]), guard_return(ind[1][1])
        if g1 is None or g1[2] is not None:
            raise ParseError("comp write guard")
        from src2v2 import err_of
        too_much = pure(g1[0], env)
        too_much_err = err_of(strip_paren(g1[1])[2][0])
        roll = strip_paren(ind[1][1][1])
        if roll[0] != "if" or roll[3] is not None:
            raise ParseError("comp write roll-over")
        roll_c = pure(roll[1], env)
        rb = [show_stmt(x) for x in roll[2][1]]
        if rb != ["compress.get_mut().error = None;", "let inner_count = compress.into_inner();", "inner_count.check_no_error()?;",
                  "self.compressed_sizes.push(inner_count.pos);",
                  "self.state = CompressionLayerWriterState::Ready(inner_count.into_inner());", "return self.write(buf);"]:
            raise ParseError("comp write roll-over body %s" % rb)
        size_in = pure(find_let(ind, "size"), env)
        out.append("  (* mla/src/layers/compress.rs:%d CompressionLayerWriter::write *)" % r[1])
        out.append("  Definition cw_size_ready (buf_len : N) : N := %s." % size_ready)
        out.append("  Definition cw_too_much (written : N) : bool := %s." % too_much)
        out.append("  Definition cw_too_much_err : err := %s." % too_much_err)
        out.append("  Definition cw_rolls_over (written : N) : bool := %s." % roll_c)
        out.append("  Definition cw_size_indata (written buf_len : N) : N := %s." % size_in)
    except Exception as ex:
        out.append("  (* comp write: %s *)" % ex)
        out.append("  Definition comp_write_untranslatable : unit := tt.")

    # ---------------- fail-safe decompressor: bound, cache reset test, output bound, result arms
    try:
        r = R.fn_text(comp, "read_pass")
        b = R.parse_body(r[0])
        m = strip_paren(b[2])
        arms = {p: bb for p, g, bb in m[2]}
        key = [p for p in arms if p.startswith("CompressionLayerFailSafeReaderState::InData{")][0]
        ind = arms[key]
        env = {"UNCOMPRESSED_DATA_SIZE": "UNCOMPRESSED_DATA_SIZE", "FAIL_SAFE_BUFFER_SIZE": "FAIL_SAFE_BUFFER_SIZE",
               "uncompressed_read": "uncompressed_read", "read_offset": "read_offset",
               "cache_filled_offset": "cache_filled_offset", "buf.len()": "buf_len", "read": "read"}
        g1 = guard_return(ind[1][0])
        too_much = pure(g1[0], env)
        rs = strip_paren(ind[1][1][1])
        if rs[0] != "if" or [show_stmt(x) for x in rs[2][1]] != ["cache.fill(0);", "cache_filled_offset = 0;", "read_offset = 0;"]:
            raise ParseError("read_pass cache reset")
        reset_c = pure(rs[1], env)
        avail = pure(find_let(ind, "available_out"), env)
        rm = None
        for st in ind[1]:
            if st[0] == "expr" and strip_paren(st[1])[0] == "match" and show(strip_paren(st[1])[1]).startswith("inner.read("):
                rm = strip_paren(st[1])
        if rm is None:
            raise ParseError("read_pass inner.read match")
        ok = [bb for p, g, bb in rm[2] if p == "Ok(read)"][0]
        eofif = strip_paren(ok[1][0][1])
        if eofif[0] != "if" or [show_stmt(x) for x in eofif[2][1]] != ["inner_eof = true;"] or show_stmt(ok[1][1]) != "cache_filled_offset += read;":
            raise ParseError("read_pass Ok(read) arm")
        eof_c = pure(eofif[1], env)
        ret = strip_paren(find_let(ind, "ret"))
        rows = []
        for p, g, bb in ret[2]:
            nm = p.split("::")[-1]
            bb = strip_paren(bb)
            if bb[0] == "block":
                evs = [show_stmt(x) for x in bb[1]]
                mp = "more_passes = true;" in evs
                adv = "read_offset += input_offset;" in evs
                rst = "uncompressed_read = 0;" in evs
                acc = any(x.startswith("uncompressed_read += u32::try_from(output_offset)") for x in evs)
                okv = show(bb[2]) == "Ok(output_offset)"
                known = {"more_passes = true;", "read_offset += input_offset;", "uncompressed_read = 0;"}
                for x in evs:
                    if x not in known and not x.startswith("uncompressed_read += u32::try_from(output_offset)") \
                            and not x.startswith("state = Box::new(BrotliState::new("):
                        raise ParseError("read_pass arm %s: %s" % (nm, x))
                rows.append((nm, mp, adv, rst, acc, okv))
            else:
                if not show(bb).startswith("Err(io::Error::new(io::ErrorKind::InvalidData"):
                    raise ParseError("read_pass failure arm")
                rows.append((nm, False, False, False, False, False))
        fin = strip_paren(ind[2])
        fa = [(p, show(g) if g else "", show(bb) if strip_paren(bb)[0] != "block" else " ".join(
            [show_stmt(x) if x[0] != "expr" else show(x[1]) for x in strip_paren(bb)[1]] + [show(strip_paren(bb)[2])])) for p, g, bb in fin[2]]
        out.append("  (* mla/src/layers/compress.rs:%d CompressionLayerFailSafeReader::read_pass *)" % r[1])
        out.append("  Definition fs_too_much (uncompressed_read : N) : bool := %s." % too_much)
        out.append("  Definition fs_cache_reset (read_offset cache_filled_offset : N) : bool := %s." % reset_c)
        out.append("  Definition fs_inner_eof (read read_offset cache_filled_offset : N) : bool := %s." % eof_c)
        out.append("  Definition fs_available_out (buf_len uncompressed_read : N) : N := %s." % avail)
        out.append("  (* per BrotliResult arm: (name, more_passes := true, read_offset advanced, uncompressed_read := 0,\n"
                   "     uncompressed_read += output, value is Ok(output_offset)) *)")
        out.append("  Definition fs_result_arms : list (string * bool * bool * bool * bool * bool) := [%s]." % "; ".join(
            "(%s, %s, %s, %s, %s, %s)" % ((coq_str(a[0]),) + tuple("true" if x else "false" for x in a[1:])) for a in rows))
        out.append("  (* the final match on (ret, inner_eof, more_passes): pattern, guard, outcome *)")
        out.append("  Definition fs_final_arms : list (string * string * string) := [%s]." % "; ".join(
            "(%s, %s, %s)" % tuple(coq_str(x) for x in a) for a in fa))
    except Exception as ex:
        out.append("  (* read_pass: %s *)" % ex)
        out.append("  Definition read_pass_untranslatable : unit := tt.")

    # ---------------- config.rs builders: bit operations on Layers
    try:
        envc = {"self.layers_enabled": "layers_enabled", "layer": "layer", "layers": "layers"}
        defs = []
        for nm, arg in (("enable_layer", "layer"), ("disable_layer", "layer"), ("set_layers", "layers")):
            r = R.fn_text(config, nm)
            b = R.parse_body(r[0])
            if len(b[1]) != 1 or show(b[2]) != "self":
                raise ParseError(nm + " shape")
            a = strip_paren(b[1][0][1])
            if a[0] != "assign" or show(a[2]) != "self.layers_enabled":
                raise ParseError(nm + " assignment")
            rhs = strip_paren(a[3])
            if a[1] == "|=":
                g = "(N.lor layers_enabled %s)" % pure(rhs, envc)
            elif a[1] == "&=" and rhs[0] == "un" and rhs[1] == "!":
                g = "(N.ldiff layers_enabled %s)" % pure(rhs[2], envc)
            elif a[1] == "=":
                g = pure(rhs, envc)
            else:
                raise ParseError(nm + " operator " + a[1])
            defs.append("  Definition cfg_%s (layers_enabled %s : N) : N := %s. (* config.rs:%d *)" % (nm, arg, g, r[1]))
        r = R.fn_text(config, "is_layers_enabled")
        if show(R.parse_body(r[0])) != "{ self.layers_enabled.contains(layer) }":
            raise ParseError("is_layers_enabled")
        defs.append("  Definition cfg_is_layers_enabled (layers_enabled layer : N) : bool := N.land layers_enabled layer =? layer.")
        r = R.fn_text(config, "check", 0, within=r"impl ArchiveWriterConfig \{")
        if show(R.parse_body(r[0])) != "{ if self.is_layers_enabled(Layers::ENCRYPT) { self.encrypt.check()?; } Ok(()) }":
            raise ParseError("check: " + show(R.parse_body(r[0])))
        defs.append("  Definition cfg_check (is_encrypt_enabled : bool) (encrypt_check : res unit) : res unit :=\n"
                    "    if is_encrypt_enabled then (do _ <- encrypt_check; Ok tt) else Ok tt. (* config.rs:%d *)" % r[1])
        r = R.fn_text(enc, "check", 0, within=r"impl EncryptionConfig \{")
        if show(R.parse_body(r[0])) != "{ if self.ecc_keys.is_empty() { Err(ConfigError::EncryptionKeyIsMissing) } else { Ok(()) } }":
            raise ParseError("EncryptionConfig::check: " + show(R.parse_body(r[0])))
        defs.append("  Definition enc_cfg_check (ecc_keys_len : N) : res unit := if ecc_keys_len =? 0 then Err EKey else Ok tt. (* encrypt.rs:%d *)" % r[1])
        r = R.fn_text(config, "to_persistent", 0, within=r"impl ArchiveWriterConfig \{")
        want = ("{ Ok(ArchivePersistentConfig { layers_enabled: self.layers_enabled, encrypt: { if self.is_layers_enabled(Layers::ENCRYPT) "
                "{ Some(self.encrypt.to_persistent()?) } else { None } } }) }")
        if show(R.parse_body(r[0])) != want:
            raise ParseError("to_persistent: " + show(R.parse_body(r[0])))
        defs.append("  Definition cfg_to_persistent {E} (layers_enabled : N) (is_encrypt_enabled : bool) (encrypt_to_persistent : res E) : res (N * option E) :=\n"
                    "    if is_encrypt_enabled then (do e <- encrypt_to_persistent; Ok (layers_enabled, Some e)) else Ok (layers_enabled, None). (* config.rs:%d *)" % r[1])
        out.extend(defs)
    except Exception as ex:
        out.append("  (* config builders: %s *)" % ex)
        out.append("  Definition config_untranslatable : unit := tt.")

    # ---------------- position.rs / hash.rs / StreamWriter: one-line wrappers
    try:
        r = R.fn_text(position, "write")
        if show(R.parse_body(r[0])) != "{ let written = self.inner.write(buf)?; self.pos += written as u64; Ok(written) }":
            raise ParseError("PositionLayerWriter::write: " + show(R.parse_body(r[0])))
        out.append("  (* mla/src/layers/position.rs:%d write: counts what the inner writer ACCEPTED, returns it *)" % r[1])
        out.append("  Definition pos_write_k (pos : N) (inner_write : res N) : res (N * N) := do written <- inner_write; Ok (pos + written, written).")
        r = R.fn_text(position, "position")
        r2 = R.fn_text(position, "reset_position")
        if show(R.parse_body(r[0])) != "{ self.pos }" or show(R.parse_body(r2[0])) != "{ let before = self.pos; self.pos = 0; before }":
            raise ParseError("position/reset_position")
        out.append("  Definition pos_reset_k (pos : N) : N * N := (0, pos).   (* (new pos, returned) *)")
        r = R.fn_text(hashrs, "read")
        if show(R.parse_body(r[0])) != "{ let read = self.inner.read(into)?; self.hash.update(&into[..read]); Ok(read) }":
            raise ParseError("HashWrapperReader::read: " + show(R.parse_body(r[0])))
        out.append("  (* mla/src/crypto/hash.rs:%d read: the hash absorbs exactly the bytes the inner reader returned *)" % r[1])
        out.append("  Definition hash_read_k (absorbed : bytes) (inner_read : res bytes) : res (bytes * bytes) := do got <- inner_read; Ok (absorbed ++ got, got).")
        r = R.fn_text(helpers, "write", 0, within=r"impl<W: InnerWriterTrait> Write for StreamWriter<'_, '_, W> \{")
        if show(R.parse_body(r[0])) != "{ self.archive.append_file_content(self.file_id, buf.len() as u64, buf)?; Ok(buf.len()) }":
            raise ParseError("StreamWriter::write: " + show(R.parse_body(r[0])))
        out.append("  (* mla/src/helpers.rs:%d StreamWriter::write: ONE append of the whole buffer, returns its length *)" % r[1])
        out.append("  Definition stream_write_k {St} (append_file_content : N -> N -> bytes -> St * res unit) (file_id : N) (buf : bytes) : St * res N :=\n"
                   "    match append_file_content file_id (len buf) buf with (s, Ok _) => (s, Ok (len buf)) | (s, Err e) => (s, Err e) | (s, Crash c) => (s, Crash c) end.")
    except Exception as ex:
        out.append("  (* wrappers: %s *)" % ex)
        out.append("  Definition wrappers_untranslatable : unit := tt.")
    out.append("End Kernels2.")
    out.append("")

    # ---------------- ordered event lists of the state machines
    out.append("(* ================= ordered events (program order; `{`/`}` events delimit branches) ================= *)")
    L = "mla/src/lib.rs"
    E = "mla/src/layers/encrypt.rs"
    C = "mla/src/layers/compress.rs"
    emit_events(out, "bfr_read", L, lib, "read", 0, r"impl<T: Read \+ Seek> Read for BlocksToFileReader<'_, T> \{")
    emit_events(out, "move_to_next_block", L, lib, "move_to_next_block")
    emit_events(out, "footer_deserialize_from", L, lib, "deserialize_from", 0, r"impl ArchiveFooter \{")
    emit_events(out, "linear_extract", "mla/src/helpers.rs", helpers, "linear_extract")
    emit_events(out, "load_in_cache", E, enc, "load_in_cache")
    emit_events(out, "load_in_cache_unauthenticated", E, enc, "load_in_cache_unauthenticated")
    emit_events(out, "read_internal", E, enc, "read_internal")
    emit_events(out, "read_internal_unauthenticated", E, enc, "read_internal_unauthenticated")
    emit_events(out, "enc_seek", E, enc, "seek", 0, r"impl<R: Read \+ Seek \+ \?Sized> Seek for EncryptionLayerInternal<R> \{")
    emit_events(out, "enc_fs_read", E, enc, "read", 0, r"impl<R: Read> Read for EncryptionLayerFailSafeReader<'_, R> \{")
    emit_events(out, "enc_write", E, enc, "write", 0, r"impl<W: InnerWriterTrait> Write for EncryptionLayerWriter<'_, W> \{")
    emit_events(out, "enc_finalize", E, enc, "finalize", 0, r"impl<'a, W: 'a \+ InnerWriterTrait> LayerWriter<'a, W> for EncryptionLayerWriter<'a, W> \{")
    emit_events(out, "comp_read", C, comp, "read", 0, r"impl<'a, R: 'a \+ Read \+ Seek> Read for CompressionLayerReader<'a, R> \{")
    emit_events(out, "comp_seek", C, comp, "seek", 0, r"impl<R: Read \+ Seek> Seek for CompressionLayerReader<'_, R> \{")
    emit_events(out, "comp_write", C, comp, "write", 0, r"impl<'a, W: 'a \+ InnerWriterTrait> Write for CompressionLayerWriter<'a, W> \{")
    emit_events(out, "comp_flush", C, comp, "flush", 0, r"impl<'a, W: 'a \+ InnerWriterTrait> Write for CompressionLayerWriter<'a, W> \{")
    emit_events(out, "comp_finalize", C, comp, "finalize", 0, r"impl<'a, W: 'a \+ InnerWriterTrait> LayerWriter<'a, W> for CompressionLayerWriter<'a, W> \{")
    emit_events(out, "wwc_write", C, comp, "write", 0, r"impl<W: Write> Write for WriterWithCount<W> \{")
    emit_events(out, "fs_read_pass", C, comp, "read_pass")
    emit_events(out, "fs_comp_read", C, comp, "read", 0, r"impl<'a, R: 'a \+ Read> Read for CompressionLayerFailSafeReader<'a, R> \{")
    emit_events(out, "block_from", L, lib, "from", 0, r"impl<T>\s+ArchiveFileBlock<T>")
    emit_events(out, "enc_load_persistent", E, enc, "load_persistent", 0, r"impl EncryptionReaderConfig \{")
    emit_events(out, "add_public_keys", E, enc, "add_public_keys")
    emit_events(out, "failsafe_only_authenticated", E, enc, "failsafe_return_only_authenticated_data", with_sig=True)
    emit_events(out, "failsafe_even_unauthenticated", E, enc, "failsafe_return_data_even_unauthenticated", with_sig=True)
    emit_events(out, "add_file", L, lib, "add_file")
    out.append("")
