#!/bin/bash
# tools/confirm_seed3.sh <seeded dir>: independent confirmation of a seeded change whose meta.json names
# `demo_path` (where demo.rs goes in the tree) in a scratch worktree: (1) the demonstration passes on the
# unchanged tree; (2) the patch applies, the demonstration fails with it; (3) the unedited suite passes with
# the change (flaky test_repair_auth_unauth skipped). Writes <dir>/confirm.log, prints a verdict line.
# LANE=<n> selects a private cargo target directory so several confirmations can run side by side.
D=$(readlink -f "$1")
DP=$(python3 -c "import json,sys; print(json.load(open('$D/meta.json')).get('demo_path','mla/tests/zz_seed_demo.rs'))")
CR=$(echo "$DP" | sed 's#/tests/.*##')            # crate directory (mla, mlar, bindings/C, curve25519-parser)
TN=$(basename "$DP" .rs)
PKG=$(grep -m1 '^name' /repo/$CR/Cargo.toml | sed 's/.*"\(.*\)".*/\1/')
WT=/tmp/seedconf/wt-$(basename $D)
export CARGO_TARGET_DIR=/tmp/seedconf/target${LANE:-} CARGO_NET_OFFLINE=true
mkdir -p /tmp/seedconf
git -C /repo worktree remove --force $WT >/dev/null 2>&1
git -C /repo worktree add --detach $WT HEAD >/dev/null 2>&1
LOG=$D/confirm.log; : > $LOG
cd $WT
mkdir -p $(dirname $DP); cp $D/demo.rs $DP
timeout 1500 cargo test -p $PKG --offline --test $TN >>$LOG 2>&1; R0=$?
git apply $D/patch.diff || { echo "PATCH DOES NOT APPLY" | tee -a $LOG; }
timeout 1500 cargo test -p $PKG --offline --test $TN >>$LOG 2>&1; R1=$?
rm $DP
timeout 3000 cargo test --workspace --offline -- --skip test_repair_auth_unauth >>$LOG 2>&1; R2=$?
cd /; git -C /repo worktree remove --force $WT
# keep the log small: cargo's compile chatter is not evidence
grep -v "^\s*Compiling\|^\s*Finished\|^\s*Running\|^\s*Doc-tests\|^$" $LOG > $LOG.t; mv $LOG.t $LOG
echo "$(basename $D): demo without change rc=$R0 (want 0); demo with change rc=$R1 (want !=0); suite with change rc=$R2 (want 0)" | tee -a $LOG
