#!/usr/bin/env python3
"""Tie A, level 1 for the ARCHIVE HEADER (work package blockT, part B): regenerate coq/gen/Src3h.v.

Translated from /repo (parser: tools/rustmini.py) into Gallina over an abstract `Stream`:

  mla/src/lib.rs            ArchiveHeader::{from, dump}, statement by statement;
                            MLA_MAGIC, MLA_FORMAT_VERSION, BINCODE_MAX_DESERIALIZE; `struct ArchiveHeader`;
                            the `bitflags!` declaration of `Layers` (must say `: u8`)
  mla/src/config.rs         struct ArchivePersistentConfig        |  found by name anywhere under mla/src
  mla/src/layers/encrypt.rs struct EncryptionPersistentConfig     |  (exactly one definition, with
  mla/src/crypto/ecc.rs     struct MultiRecipientPersistent       |  #[derive(.. Serialize, Deserialize ..)]
                            struct KeyAndTag                      |  and no #[serde(..)] attribute)
  array lengths             `const NAME: usize = <expr>;` resolved through the sources and evaluated

For every struct reachable from the type named in `from` (`let config: T = match bincode…`), in
dependency order, three functions are generated FROM THE FIELD LIST (order and types of the source):
  deser_X : BM S <model type>     the bincode reader, in the (source state, limit left) monad of
                                  theories/Bincode.v
  ser_X, sz_X                     the bytes bincode writes / the bytes its SizeChecker charges
theories/SrcTie3Header.v proves, for every stream and state,
  ArchiveHeader_from = HeaderStream.read_header_s    and    ArchiveHeader_dump = Archive.dump_header.

Trusted primitive table 1: field TYPE -> combinator of theories/Bincode.v (bincode 1.3.3 fixint + serde derive)
  u8                      bc_u8      bs_u8      charges 1
  u32                     bc_u32     bs_u32     charges 4
  u64 / usize             bc_u64     bs_u64     charges 8
  [u8; N]   (N <= 32)     bc_array N bs_array   charges N      (serde tuple: N single-byte primitives)
  Option<T>               bc_option  bs_option  charges 1 (+ T) (u8 tag 0 / 1, anything else an error)
  Vec<T>                  bc_vec m   bs_vec     charges 8 + the elements (u64 length; m = the least number
                                                of bytes one T charges, must be > 0: fuel of the loop)
  a bitflags type `: u8`  bc_u8      bs_u8      charges 1      (its bits, all retained)
  struct X                deser_X    ser_X      its fields in declaration order
  `type A = T;`           as T
Trusted primitive table 2: the statements of `from` / `dump`
  let mut b = vec![0; C.len()]; src.read_exact(b…)?   Blocks.rexact S src (len C)   (= HeaderStream.rx; an io
                                                      error is returned as it is: `?` with From<io::Error>)
  src.read_u32::<LittleEndian>()?                     Blocks.rexact S src 4, le_val
  a != b  { return Err(E); }                          if negb (a =? b) (numbers) / negb (bytes_eqb a b) (bytes)
  match bincode::options().with_limit(L).with_fixint_encoding().deserialize_from(src)
        { Ok(v) => v, _ => { return Err(E); } }       deser_T S src L; `_`: every Err -> E.  EFuel (the model's own
                                                      fuel, not a value of the Rust type) and Crash (a panic
                                                      unwinds past the match) are passed on
  Ok(Self { format_version, config })                 the model's `header` is the config; format_version has just
                                                      been tested equal to MLA_FORMAT_VERSION and is dropped
  dest.write_all(C)? / dest.write_u32::<LittleEndian>(v)?   dest ++ C / dest ++ le_bytes 4 v  (dest: a Vec, infallible)
  if bincode….with_limit(L).with_fixint_encoding().serialize_into(dest, &v).is_err() { return Err(E); }
                                                      if L <? sz_T v then Err E else dest ++ ser_T v  (the bounded
                                                      serialiser sizes the value before it writes anything)
  Error::WrongMagic / UnsupportedVersion / DeserializationError / SerializationError -> EMagic / EVersion / EDeser / EDeser
Trusted table 3: struct -> value of the model (Format.header); the FIELD SET of the source must be exactly
the one below (an added / removed / renamed field is untranslatable), the ORDER is the source's:
  KeyAndTag { key, tag }                               (key, tag)
  MultiRecipientPersistent { public, encrypted_keys }  (public, encrypted_keys)
  EncryptionPersistentConfig { multi_recipient, nonce }  mkEH (fst multi_recipient) (snd multi_recipient) nonce
  ArchivePersistentConfig { layers_enabled, encrypt }  mkH layers_enabled encrypt

FAILS CLOSED per item: anything not recognised -> `Definition <name>_untranslatable : unit := tt.`
"""
import glob
import os
import re
import sys

sys.path.insert(0, os.path.dirname(os.path.abspath(__file__)))
import rustmini as R  # noqa: E402
from rustmini import ParseError, strip_paren, show  # noqa: E402

REPO = os.environ.get("VERIF_REPO", "/repo")
OUT = os.environ.get("VERIF_SRC3H_OUT") or os.path.join(os.path.dirname(os.path.abspath(__file__)), "..", "coq", "gen", "Src3h.v")

ERRS = {"Error::WrongMagic": "EMagic", "Error::UnsupportedVersion": "EVersion",
        "Error::DeserializationError": "EDeser", "Error::SerializationError": "EDeser"}

# trusted table 3
MODEL = {
    "KeyAndTag": dict(ty="(bytes * bytes)", fields={"key": "fst x", "tag": "snd x"}, build="(key, tag)"),
    "MultiRecipientPersistent": dict(ty="(bytes * list (bytes * bytes))",
                                     fields={"public": "fst x", "encrypted_keys": "snd x"},
                                     build="(public, encrypted_keys)"),
    "EncryptionPersistentConfig": dict(ty="enc_header",
                                       fields={"multi_recipient": "(eh_public x, eh_keys x)", "nonce": "eh_nonce x"},
                                       build="mkEH (fst multi_recipient) (snd multi_recipient) nonce"),
    "ArchivePersistentConfig": dict(ty="header", fields={"layers_enabled": "h_layers x", "encrypt": "h_enc x"},
                                    build="mkH layers_enabled encrypt"),
}


def strip_tests(src):
    m = re.search(r"#\[cfg\(test\)\]\s*(?:pub(?:\(crate\))?\s+)?mod\s+tests", src)
    return src if not m else src[:m.start()]


class Sources:
    def __init__(self):
        self.files = {}
        root = os.path.join(REPO, "mla", "src")
        for p in sorted(glob.glob(os.path.join(root, "**", "*.rs"), recursive=True)):
            with open(p, encoding="utf-8") as f:
                self.files[os.path.relpath(p, REPO)] = strip_tests(f.read())
        if "mla/src/lib.rs" not in self.files:
            raise ParseError("mla/src/lib.rs not found")

    def find(self, regex):
        """all (file, match) of regex over the comment-stripped sources"""
        hits = []
        for rel, txt in self.files.items():
            for m in re.finditer(regex, txt, re.M):
                hits.append((rel, txt, m))
        return hits

    def one(self, regex, what):
        hits = self.find(regex)
        if len(hits) != 1:
            raise ParseError("%s: %d definitions found" % (what, len(hits)))
        return hits[0]

    @staticmethod
    def line(txt, m):
        return txt.count("\n", 0, m.start()) + 1


def attrs_before(txt, pos):
    """the attribute / doc-comment lines immediately before position pos"""
    lines = txt[:pos].split("\n")[:-1]
    out = []
    while lines:
        ln = lines[-1].strip()
        if ln.startswith("#[") or ln.startswith("///") or ln.startswith("//"):
            out.append(ln)
            lines.pop()
        else:
            break
    return out


def eval_const_expr(e, srcs, depth=0):
    e = strip_paren(e)
    if depth > 8:
        raise ParseError("constant recursion")
    if e[0] == "int":
        return e[1]
    if e[0] == "cast":
        return eval_const_expr(e[1], srcs, depth)
    if e[0] == "bin" and e[1] in ("+", "-", "*", "/"):
        a, b = eval_const_expr(e[2], srcs, depth), eval_const_expr(e[3], srcs, depth)
        if e[1] == "/" and b == 0 or e[1] == "-" and a < b:
            raise ParseError("constant arithmetic")
        return {"+": a + b, "-": a - b, "*": a * b, "/": a // b if b else 0}[e[1]]
    if e[0] == "path":
        return const_value(e[1].split("::")[-1], srcs, depth + 1)[0]
    raise ParseError("constant expression " + show(e)[:60])


def const_value(name, srcs, depth=0):
    """(value, 'file:line', expression text) of `const NAME: <int type> = expr;` (exactly one definition)"""
    rel, txt, m = srcs.one(r"^[ \t]*(?:pub(?:\([a-z]+\))?\s+)?const\s+%s\s*:\s*(u8|u16|u32|u64|usize)\s*=\s*([^;]+);" % re.escape(name),
                           "const " + name)
    if any(a.startswith("#[cfg") for a in attrs_before(txt, m.start())):
        raise ParseError("const %s is cfg-gated" % name)
    expr = R.strip_comments(m.group(2)).strip()
    return eval_const_expr(R.parse_expr(expr), srcs, depth), "%s:%d" % (rel, srcs.line(txt, m)), expr


def split_top(s, sep=","):
    out, depth, cur = [], 0, ""
    for c in s:
        if c in "<([{":
            depth += 1
        elif c in ">)]}":
            depth -= 1
        if c == sep and depth == 0:
            out.append(cur)
            cur = ""
        else:
            cur += c
    if cur.strip():
        out.append(cur)
    return out


def struct_def(name, srcs, need_serde=True):
    """[(field, type text)] in source order, 'file:line'"""
    rel, txt, m = srcs.one(r"^[ \t]*(?:pub(?:\([a-z]+\))?\s+)?struct\s+%s\s*\{" % re.escape(name), "struct " + name)
    at = attrs_before(txt, m.start())
    attr_txt = " ".join(a for a in at if a.startswith("#["))
    if need_serde:
        d = re.search(r"#\[derive\(([^)]*)\)\]", attr_txt)
        names = [x.strip() for x in d.group(1).split(",")] if d else []
        if "Serialize" not in names or "Deserialize" not in names:
            raise ParseError("struct %s does not derive Serialize and Deserialize" % name)
    if "serde(" in attr_txt or "cfg" in attr_txt:
        raise ParseError("struct %s has a serde / cfg attribute" % name)
    i = txt.index("{", m.start())
    j = R.match_brace(txt, i)
    body = txt[i + 1:j]
    if "#[" in body:
        raise ParseError("struct %s has field attributes" % name)
    body = R.strip_comments(body)
    fields = []
    for part in split_top(body):
        fm = re.fullmatch(r"\s*(?:pub(?:\([a-z]+\))?\s+)?([A-Za-z_][A-Za-z0-9_]*)\s*:\s*(.+?)\s*", part, re.S)
        if not fm:
            raise ParseError("struct %s field `%s`" % (name, part.strip()[:40]))
        fields.append((fm.group(1), re.sub(r"\s+", "", fm.group(2))))
    return fields, "%s:%d" % (rel, srcs.line(txt, m))


def bitflags_u8(name, srcs):
    """`bitflags! { #[derive(.. Serialize, Deserialize ..)] pub struct NAME: u8 { … } }`"""
    hits = srcs.find(r"bitflags!\s*\{")
    for rel, txt, m in hits:
        i = txt.index("{", m.start())
        inner = txt[i + 1:R.match_brace(txt, i)]
        sm = re.search(r"struct\s+%s\s*:\s*([a-z0-9]+)\s*\{" % re.escape(name), inner)
        if sm:
            if sm.group(1) != "u8":
                raise ParseError("bitflags %s is `: %s`, not u8" % (name, sm.group(1)))
            head = inner[:sm.start()]
            d = re.findall(r"#\[derive\(([^)]*)\)\]", head)
            names = [x.strip() for x in ",".join(d).split(",")]
            if "Serialize" not in names or "Deserialize" not in names:
                raise ParseError("bitflags %s does not derive Serialize and Deserialize" % name)
            if "serde(" in head:
                raise ParseError("bitflags %s has a serde attribute" % name)
            return "%s:%d" % (rel, txt.count("\n", 0, i + 1 + sm.start()) + 1)
    return None


class Types:
    """field type -> combinators (trusted table 1)"""

    def __init__(self, srcs):
        self.srcs = srcs
        self.structs = {}   # name -> dict(fields=[(f, tinfo)], where, min)
        self.order = []

    def ty(self, t, depth=0):
        if depth > 24:
            raise ParseError("type recursion")
        prim = {"u8": ("bc_u8 S", "bs_u8", 1), "u32": ("bc_u32 S", "bs_u32", 4),
                "u64": ("bc_u64 S", "bs_u64", 8), "usize": ("bc_u64 S", "bs_u64", 8)}
        if t in prim:
            de, se, n = prim[t]
            return dict(de=de, ser=se, szc=n, sz=None, min=n, coq="N", note=t)
        m = re.fullmatch(r"\[u8;(.+)\]", t)
        if m:
            n = eval_const_expr(R.parse_expr(m.group(1)), self.srcs)
            if n > 32:
                raise ParseError("serde has no array impl beyond 32 (%s)" % t)
            return dict(de="bc_array S %d" % n, ser="bs_array", szc=n, sz=None, min=n, coq="bytes", note=t)
        m = re.fullmatch(r"Option<(.+)>", t)
        if m:
            a = self.ty(m.group(1), depth + 1)
            return dict(de="bc_option S (%s)" % a["de"], ser="bs_option %s" % par(a["ser"]), szc=None,
                        sz="sz_option %s" % par(szfun(a)), min=1, coq="option %s" % par(a["coq"]), note=t)
        m = re.fullmatch(r"Vec<(.+)>", t)
        if m:
            a = self.ty(m.group(1), depth + 1)
            if a["min"] <= 0:
                raise ParseError("Vec of a zero-sized element (%s)" % t)
            return dict(de="bc_vec S %d (%s)" % (a["min"], a["de"]), ser="bs_vec %s" % par(a["ser"]), szc=None,
                        sz="sz_vec %s" % par(szfun(a)), min=8, coq="list %s" % par(a["coq"]), note=t)
        if re.fullmatch(r"[A-Za-z_][A-Za-z0-9_]*", t):
            if t in MODEL:
                s = self.struct(t, depth + 1)
                return dict(de="deser_%s" % t, ser="ser_%s" % t, szc=None, sz="sz_%s" % t, min=s["min"],
                            coq=MODEL[t]["ty"], note=t)
            w = bitflags_u8(t, self.srcs)
            if w is not None:
                return dict(de="bc_u8 S", ser="bs_u8", szc=1, sz=None, min=1, coq="N", note="bitflags %s: u8 (%s)" % (t, w))
            al = self.srcs.find(r"^[ \t]*(?:pub(?:\([a-z]+\))?\s+)?type\s+%s\s*=\s*([^;]+);" % re.escape(t))
            if len(al) == 1:
                return self.ty(re.sub(r"\s+", "", al[0][2].group(1)), depth + 1)
        raise ParseError("type `%s` has no entry in the table" % t)

    def struct(self, name, depth=0):
        if name in self.structs:
            return self.structs[name]
        fields, where = struct_def(name, self.srcs)
        want = MODEL[name]["fields"]
        if sorted(f for f, _ in fields) != sorted(want):
            raise ParseError("struct %s: fields %s, the model value has %s" % (name, [f for f, _ in fields], sorted(want)))
        fl = [(f, self.ty(t, depth + 1)) for f, t in fields]
        s = dict(fields=fl, where=where, min=sum(i["min"] for _, i in fl))
        self.structs[name] = s
        self.order.append(name)
        return s


def par(s):
    return s if re.fullmatch(r"[A-Za-z_0-9.']+", s) else "(" + s + ")"


def szfun(a):
    return "(fun _ => %d)" % a["szc"] if a["szc"] is not None else a["sz"]


def gen_struct_ser(name, s):
    m = MODEL[name]
    ser = " ++ ".join("%s %s" % (i["ser"], par(m["fields"][f])) for f, i in s["fields"])
    sz = " + ".join(("%d" % i["szc"]) if i["szc"] is not None else "%s %s" % (i["sz"], par(m["fields"][f])) for f, i in s["fields"])
    decl = ", ".join("%s: %s" % (f, i["note"]) for f, i in s["fields"])
    return ("(* %s struct %s { %s } *)\n"
            "Definition ser_%s (x : %s) : bytes := %s.\n"
            "Definition sz_%s (x : %s) : N := %s." % (s["where"], name, decl, name, m["ty"], ser, name, m["ty"], sz))


def gen_struct_de(name, s):
    m = MODEL[name]
    body = "bm_ret S %s" % par(m["build"])
    for f, i in reversed(s["fields"]):
        body = "bm_bind S (%s) (fun %s =>\n    %s)" % (deS(i["de"]), f, body)
    return "  Definition deser_%s : BM S %s :=\n    %s." % (name, par(m["ty"]), body)


def deS(de):
    # deser_X are section-local: no S argument inside the section
    return de


# ---------------------------------------------------------------- the two functions

def is_path(e, name=None):
    e = strip_paren(e)
    return e[0] == "path" and (name is None or e[1] == name)


def ret_err(block):
    """`{ return Err(E); }` -> model error"""
    b = strip_paren(block)
    if b[0] != "block" or len(b[1]) != 1 or b[2] is not None:
        if b[0] == "block" and not b[1] and b[2] is not None:
            r = strip_paren(b[2])
        else:
            raise ParseError("expected `{ return Err(..); }`")
    else:
        r = strip_paren(b[1][0][1])
    if r[0] != "return" or r[1] is None:
        raise ParseError("expected return")
    c = strip_paren(r[1])
    if not (c[0] == "call" and is_path(c[1], "Err") and len(c[2]) == 1 and is_path(c[2][0]) and strip_paren(c[2][0])[1] in ERRS):
        raise ParseError("error value " + show(c)[:60])
    return ERRS[strip_paren(c[2][0])[1]]


def bincode_chain(e, last):
    """bincode::options().with_limit(L).with_fixint_encoding().<last>(args) -> (L, args)"""
    e = strip_paren(e)
    if not (e[0] == "mcall" and e[2] == last):
        raise ParseError("expected .%s(..)" % last)
    args = e[3]
    f = strip_paren(e[1])
    if not (f[0] == "mcall" and f[2] == "with_fixint_encoding" and not f[3]):
        raise ParseError("bincode options: with_fixint_encoding() expected before %s" % last)
    w = strip_paren(f[1])
    if not (w[0] == "mcall" and w[2] == "with_limit" and len(w[3]) == 1 and is_path(w[3][0])):
        raise ParseError("bincode options: with_limit(CONST) expected")
    o = strip_paren(w[1])
    if not (o[0] == "call" and is_path(o[1], "bincode::options") and not o[2]):
        raise ParseError("bincode::options() expected")
    return strip_paren(w[3][0])[1], args


IO3 = " | (%(v)s, Err e) => (%(v)s, Err e) | (%(v)s, Crash c) => (%(v)s, Crash c)"


class Fn:
    def __init__(self, consts, types, srcs):
        self.consts, self.types, self.srcs = consts, types, srcs   # consts: name -> kind ('bytes' | 'N')
        self.extra = []   # further integer constants the bodies name: Definition lines

    def need_const(self, name):
        """an integer constant of the source not emitted yet (e.g. another limit): resolve and emit it"""
        if name in self.consts:
            return
        if not re.fullmatch(r"[A-Z][A-Z0-9_]*", name):
            raise ParseError("constant " + name)
        v, w, ex = const_value(name, self.srcs)
        if not re.fullmatch(r"[0-9*+ ()_]+", ex):
            ex = str(v)
        self.extra.append("Definition %s : N := %s.     (* %s *)" % (name, ex.replace("_", ""), w))
        self.consts[name] = "N"

    def val(self, e, env):
        e = strip_paren(e)
        if e[0] == "path":
            if e[1] in env and env[e[1]][0] in ("bytes", "N"):
                return e[1], env[e[1]][0]
            if e[1] in self.consts:
                return e[1], self.consts[e[1]]
        if e[0] == "un" and e[1] in ("&", "*"):
            return self.val(e[2], env)
        raise ParseError("value " + show(e)[:60])

    def cond_ne(self, c, env):
        c = strip_paren(c)
        if c[0] != "bin" or c[1] not in ("!=", "=="):
            raise ParseError("condition " + show(c)[:60])
        a, ka = self.val(c[2], env)
        b, kb = self.val(c[3], env)
        if ka != kb:
            raise ParseError("comparison of %s with %s" % (ka, kb))
        eq = "bytes_eqb %s %s" % (a, b) if ka == "bytes" else "%s =? %s" % (a, b)
        return "negb (%s)" % eq if c[1] == "!=" else eq

    # ---- from
    def tr_from(self, stmts, tail, env, ind):
        p = " " * ind
        if not stmts:
            return p + self.tail_from(tail, env)
        s, rest = stmts[0], stmts[1:]
        if s[0] == "let" and s[3] is not None and s[4] is None:
            name = re.sub(r"^mut\s+", "", s[1])
            if not re.fullmatch(r"[a-z_][a-z0-9_]*", name):
                raise ParseError("let pattern " + s[1])
            e = strip_paren(s[3])
            # let mut buf = vec![0; C.len()];
            if e[0] == "macro" and e[1] == "vec":
                a = e[3]
                if not (a and len(a) == 2 and a[0] == ("int", 0) and strip_paren(a[1])[0] == "mcall" and strip_paren(a[1])[2] == "len"
                        and not strip_paren(a[1])[3] and re.fullmatch(r"0;[A-Z_0-9]+\.len\(\)", e[2])):
                    raise ParseError("vec! " + e[2])
                c, k = self.val(strip_paren(a[1])[1], env)
                if k != "bytes":
                    raise ParseError("len of " + c)
                env = dict(env)
                env[name] = ("zeros", "len %s" % c)
                return p + "(* %s: %s zero bytes *)\n" % (name, env[name][1]) + self.tr_from(rest, tail, env, ind)
            # let v = src.read_u32::<LittleEndian>()?;
            if e[0] == "try":
                c = strip_paren(e[1])
                if c[0] == "mcall" and is_path(c[1], "src") and c[2] == "read_u32::<LittleEndian>" and not c[3]:
                    env = dict(env)
                    env[name] = ("N",)
                    return (p + "match Blocks.rexact S src 4 with\n" + p + "| (src, Ok d) =>\n" + p + "  let %s := le_val d in\n" % name
                            + self.tr_from(rest, tail, env, ind + 2) + "\n" + p + (IO3 % {"v": "src"}).lstrip(" ") + "\n" + p + "end")
            # let config: T = match bincode….deserialize_from(src) { Ok(v) => v, _ => { return Err(E); } };
            if e[0] == "match":
                lim, args = bincode_chain(e[1], "deserialize_from")
                if not (len(args) == 1 and is_path(args[0], "src")):
                    raise ParseError("deserialize_from argument")
                self.need_const(lim)
                if self.consts[lim] != "N":
                    raise ParseError("limit " + lim)
                if s[2] is None or s[2] not in MODEL:
                    raise ParseError("deserialize_from: the target type must be annotated (%s)" % s[2])
                arms = e[2]
                okm = re.fullmatch(r"Ok\(([a-z_][a-z0-9_]*)\)", arms[0][0]) if len(arms) == 2 else None
                if not (okm and arms[0][1] is None and is_path(arms[0][2], okm.group(1)) and arms[1][0] == "_" and arms[1][1] is None):
                    raise ParseError("arms of the match on deserialize_from")
                er = ret_err(arms[1][2])
                self.types.struct(s[2])
                env = dict(env)
                env[name] = ("struct", s[2])
                return (p + "match deser_%s src %s with\n" % (s[2], lim) + p + "| (src, _, Ok %s) =>\n" % name
                        + self.tr_from(rest, tail, env, ind + 2) + "\n"
                        + p + "| (src, _, Err EFuel) => (src, Err EFuel) | (src, _, Err _) => (src, Err %s) | (src, _, Crash c) => (src, Crash c)\n" % er
                        + p + "end")
            raise ParseError("let " + show(e)[:60])
        if s[0] == "semi":
            e = strip_paren(s[1])
            # src.read_exact(buf.as_mut_slice())?;
            if e[0] == "try":
                c = strip_paren(e[1])
                if c[0] == "mcall" and is_path(c[1], "src") and c[2] == "read_exact" and len(c[3]) == 1:
                    a = strip_paren(c[3][0])
                    if a[0] == "mcall" and a[2] == "as_mut_slice" and not a[3]:
                        a = strip_paren(a[1])
                    elif a[0] == "un" and a[1] == "&mut":
                        a = strip_paren(a[2])
                    if not (a[0] == "path" and a[1] in env and env[a[1]][0] == "zeros"):
                        raise ParseError("read_exact into " + show(a)[:40])
                    b = a[1]
                    env2 = dict(env)
                    env2[b] = ("bytes",)
                    return (p + "match Blocks.rexact S src (%s) with\n" % env[b][1] + p + "| (src, Ok %s) =>\n" % b
                            + self.tr_from(rest, tail, env2, ind + 2) + "\n" + p + (IO3 % {"v": "src"}).lstrip(" ") + "\n" + p + "end")
            raise ParseError("statement " + show(e)[:60])
        if s[0] == "expr":
            e = strip_paren(s[1])
            if e[0] == "if" and e[3] is None:
                return (p + "if %s then (src, Err %s) else\n" % (self.cond_ne(e[1], env), ret_err(e[2]))
                        + self.tr_from(rest, tail, env, ind))
        raise ParseError("statement " + R.show_stmt(s)[:60])

    def tail_from(self, tail, env):
        t = strip_paren(tail) if tail is not None else None
        if not (t and t[0] == "call" and is_path(t[1], "Ok") and len(t[2]) == 1 and strip_paren(t[2][0])[0] == "struct"):
            raise ParseError("tail of from")
        st = strip_paren(t[2][0])
        if st[1] != "Self":
            raise ParseError("tail struct " + st[1])
        fields, where = struct_def("ArchiveHeader", self.srcs, need_serde=False)
        if fields != [("format_version", "u32"), ("config", "ArchivePersistentConfig")]:
            raise ParseError("struct ArchiveHeader changed: %s" % fields)
        got = {}
        for f, v in st[2]:
            if not is_path(v, f):
                raise ParseError("Self { %s: %s }" % (f, show(v)[:30]))
            got[f] = env.get(f)
        if set(got) != {"format_version", "config"} or got["format_version"] != ("N",) or got["config"] != ("struct", "ArchivePersistentConfig"):
            raise ParseError("Self { .. } fields %s" % got)
        return "(src, Ok config)   (* Self { format_version, config }: format_version = MLA_FORMAT_VERSION here *)"

    # ---- dump
    def tr_dump(self, stmts, tail):
        lines = []
        for s in stmts:
            e = strip_paren(s[1]) if s[0] in ("semi", "expr") else None
            if s[0] == "semi" and e[0] == "try":
                c = strip_paren(e[1])
                if c[0] == "mcall" and is_path(c[1], "dest") and len(c[3]) == 1:
                    if c[2] == "write_all":
                        v, k = self.val(c[3][0], {})
                        if k != "bytes":
                            raise ParseError("write_all of " + v)
                        lines.append("let dest := dest ++ %s in" % v)
                        continue
                    if c[2] == "write_u32::<LittleEndian>":
                        a = strip_paren(c[3][0])
                        if not (a[0] == "field" and is_path(a[1], "self") and a[2] == "format_version"):
                            raise ParseError("write_u32 of " + show(a)[:40])
                        lines.append("let dest := dest ++ le_bytes 4 format_version in")
                        continue
            if s[0] == "expr" and e[0] == "if" and e[3] is None:
                c = strip_paren(e[1])
                if c[0] == "mcall" and c[2] == "is_err" and not c[3]:
                    lim, args = bincode_chain(c[1], "serialize_into")
                    a1 = strip_paren(args[1]) if len(args) == 2 else None
                    if not (a1 and is_path(args[0], "dest") and a1[0] == "un" and a1[1] == "&" and strip_paren(a1[2])[0] == "field"
                            and is_path(strip_paren(a1[2])[1], "self") and strip_paren(a1[2])[2] == "config"):
                        raise ParseError("serialize_into arguments")
                    self.need_const(lim)
                    if self.consts[lim] != "N":
                        raise ParseError("limit " + lim)
                    self.types.struct("ArchivePersistentConfig")
                    lines.append("if %s <? sz_ArchivePersistentConfig config then (dest, Err %s) else" % (lim, ret_err(e[2])))
                    lines.append("let dest := dest ++ ser_ArchivePersistentConfig config in")
                    continue
            raise ParseError("statement of dump: " + R.show_stmt(s)[:60])
        t = strip_paren(tail) if tail is not None else None
        if not (t and t[0] == "call" and is_path(t[1], "Ok") and len(t[2]) == 1 and strip_paren(t[2][0]) == ("unit",)):
            raise ParseError("tail of dump")
        lines.append("(dest, Ok tt).")
        return "\n".join("  " + ln for ln in lines)


def byte_const(name, srcs):
    rel, txt, m = srcs.one(r"^[ \t]*(?:pub(?:\([a-z]+\))?\s+)?const\s+%s\s*:\s*&\s*\[\s*u8\s*;\s*(\d+)\s*\]\s*=\s*b\"([^\"\\]*)\"\s*;" % re.escape(name),
                           "const " + name)
    if len(m.group(2)) != int(m.group(1)):
        raise ParseError("length of " + name)
    return [ord(c) for c in m.group(2)], "%s:%d" % (rel, srcs.line(txt, m)), m.group(2)


def fail(out, name, e, ind=""):
    out.append("%s(* %s: %s *)" % (ind, name, str(e).replace("*)", "* )")))
    out.append("%sDefinition %s_untranslatable : unit := tt." % (ind, name))


def generate():
    out = ["(* GENERATED by tools/src2v3_header.py from %s — do not edit. *)" % REPO,
           "From MLA Require Import Base Stream Blocks Format Bincode.", "Open Scope N_scope.", ""]
    srcs = Sources()
    lib = srcs.files["mla/src/lib.rs"]
    consts = {}
    try:
        bs, w, s = byte_const("MLA_MAGIC", srcs)
        out.append("Definition MLA_MAGIC : bytes := [%s].     (* %s b\"%s\" *)" % ("; ".join(map(str, bs)), w, s))
        consts["MLA_MAGIC"] = "bytes"
    except Exception as e:
        fail(out, "MLA_MAGIC", e)
    for c in ("MLA_FORMAT_VERSION", "BINCODE_MAX_DESERIALIZE"):
        try:
            v, w, ex = const_value(c, srcs)
            if not re.fullmatch(r"[0-9*+ ()_]+", ex):
                ex = str(v)
            out.append("Definition %s : N := %s.     (* %s *)" % (c, ex.replace("_", ""), w))
            consts[c] = "N"
        except Exception as e:
            fail(out, c, e)
    mark = len(out)
    out.append("")
    types = Types(srcs)
    fn = Fn(consts, types, srcs)
    # translate the two bodies first: they name the root type
    from_txt = dump_txt = None
    from_err = dump_err = None
    try:
        r = R.fn_text(lib, "from", 0, r"impl ArchiveHeader \{")
        if r is None:
            raise ParseError("fn ArchiveHeader::from not found")
        if not re.search(r"\(\s*src\s*:\s*&mut\s+T\s*\)\s*->\s*Result<Self,\s*Error>", r[2]):
            raise ParseError("signature of from: " + r[2].strip())
        b = R.parse_body(r[0])
        from_txt = ("  (* mla/src/lib.rs:%d fn ArchiveHeader::from *)\n  Definition ArchiveHeader_from (src : st S) : st S * res header :=\n" % r[1]
                    + fn.tr_from(b[1], b[2], {}, 4) + ".")
    except Exception as e:
        from_err = e
    try:
        r = R.fn_text(lib, "dump", 0, r"impl ArchiveHeader \{")
        if r is None:
            raise ParseError("fn ArchiveHeader::dump not found")
        if not re.search(r"\(\s*&self\s*,\s*dest\s*:\s*&mut\s+T\s*\)\s*->\s*Result<\(\),\s*Error>", r[2]):
            raise ParseError("signature of dump: " + r[2].strip())
        fields, _ = struct_def("ArchiveHeader", srcs, need_serde=False)
        if fields != [("format_version", "u32"), ("config", "ArchivePersistentConfig")]:
            raise ParseError("struct ArchiveHeader changed: %s" % fields)
        b = R.parse_body(r[0])
        dump_txt = ("(* mla/src/lib.rs:%d fn ArchiveHeader::dump; self = { format_version, config }, dest: the bytes written so far *)\n"
                    "Definition ArchiveHeader_dump (format_version : N) (config : header) (dest : bytes) : bytes * res unit :=\n" % r[1]
                    + fn.tr_dump(b[1], b[2]))
    except Exception as e:
        dump_err = e
    out[mark:mark] = fn.extra
    # the structs (even when a body failed: the root is then named explicitly)
    try:
        types.struct("ArchivePersistentConfig")
    except Exception as e:
        fail(out, "header_structs", e)
        types.order = []
    out.append("(* ---- what bincode writes (ser_) and what its SizeChecker charges (sz_), from the struct definitions ---- *)")
    for n in types.order:
        out.append(gen_struct_ser(n, types.structs[n]))
    out.append("")
    if dump_txt is not None:
        out.append(dump_txt)
    else:
        fail(out, "ArchiveHeader_dump", dump_err)
    out.append("")
    out.append("Section HeaderSrc.")
    out.append("  Variable S : Stream.")
    out.append("  (* ---- the bincode reader, from the struct definitions ---- *)")
    for n in types.order:
        out.append(gen_struct_de(n, types.structs[n]))
    out.append("")
    if from_txt is not None:
        out.append(from_txt)
    else:
        fail(out, "ArchiveHeader_from", from_err, "  ")
    out.append("End HeaderSrc.")
    return "\n".join(out) + "\n"


def main():
    try:
        text = generate()
    except Exception as e:  # fail closed as a whole
        text = "(* GENERATED: tools/src2v3_header.py failed: %s *)\nDefinition src3h_untranslatable : unit := tt.\n" % str(e).replace("*)", "* )")
    outp = os.path.normpath(OUT)
    os.makedirs(os.path.dirname(outp), exist_ok=True)
    old = None
    if os.path.exists(outp):
        with open(outp) as f:
            old = f.read()
    if old != text:
        with open(outp, "w") as f:
            f.write(text)
        print("src2v3_header: wrote", outp)
    else:
        print("src2v3_header: unchanged", outp)


if __name__ == "__main__":
    main()
