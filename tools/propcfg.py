"""Per-property configuration of the check: harness jobs per tier, evidence texts."""


def J(flavour, cmd, **kw):
    d = {"flavour": flavour, "cmd": cmd}
    d.update(kw)
    return d


PROPS = {
    "C11": {
        "jobs": lambda tier: [
            J("scaled", "witness --only C11"),
            J("scaled", "c11-enc"),
        ],
        "rule": "scaled constants (CHUNK=64): every plaintext length 0..2*CHUNK+20 (quick) / 0..4*CHUNK+20 x4 (thorough), "
                "each with a random 30-op in-range history of single reads and seeks from start/current/end biased to chunk "
                "edges; a case is non-trivial when the plaintext is non-empty; distinct = distinct (plaintext, history)",
        "exhaustive": {"quick": False, "thorough": False},
        "explanation": "theorems: encryption-layer reader refines a cursor over any inner stream refining a cursor "
                       "(all whences, any read sizes, every length); correspondence: per-op result, inner position, chunk "
                       "number, cache position and length of the real EncryptionLayerReader equal the model's",
        "assumptions": ["fewer than 2^32-2 chunks per stream (current_chunk_number is a u32)",
                        "the cipher enters as an arbitrary keystream/tag function; observables compared do not depend on it"],
    },
}
