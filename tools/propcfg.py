"""Per-property configuration of the check: harness jobs per tier, evidence texts."""


def J(flavour, cmd, **kw):
    d = {"flavour": flavour, "cmd": cmd}
    d.update(kw)
    return d


HOOK_COMMITS = [
    "verif hook: cargo feature mla_verif (scaled layer size constants, test-only constructors/accessors); no change with the feature off",
    "verif hook: scaled FILENAME_MAX_SIZE under the mla_verif feature (no change with the feature off)",
]
NOT_APPLICABLE = {}

PROPS = {
    "C11": {
        "jobs": lambda tier: [
            J("scaled", "witness --only C11"),
            J("scaled", "c11-enc"),
            J("scaled", "c11-comp", imports="Base Stream Inst Run RunC11", shard=12),
            J("scaled", "c11-raw", imports="Base Stream Inst Run RunC11", shard=20),
            J("scaled", "c11-stack", imports="Base Stream Inst Run RunC11", shard=8),
            J("scaled", "c11-cw", imports="Base Stream Inst Run RunC11", shard=20),
        ],
        "run_modules": ["RunC11"],
        "rule": "scaled constants (CHUNK=64, BLOCK=256). enc: every plaintext length 0..2*CHUNK+20 (quick) / 0..4*CHUNK+20 x4 (thorough), "
                "each with a random 30-op in-range history of single reads and seeks from start/current/end biased to chunk edges; every third length also over a source that returns fewer bytes than asked on every read (c11-enc-thr-*: same rows, state columns included). "
                "enc out-of-range (model correspondence only, no oracle): 7 (quick) / 11 (thorough) lengths x 17 seeks outside [0, len] — Start(u64::MAX), Start(u64::MAX-k), "
                "the first position the D20 guard refuses and the last it accepts, Start(2^63-1 / 2^63 / 2^63+1), Start(2^32 chunks), Current(i64::MAX) at position 0, Current(i64::MIN), "
                "End(1), End(i64::MAX), End(i64::MIN), End(i64::MIN+1) — each followed by two reads, an in-range seek and a read: status class, returned position and the reader state "
                "(inner position, chunk number, cache position / length) after the failed seek must equal the model's. "
                "comp: plaintext lengths 0..3*BLOCK+20 (quick: stride 23 plus every length within 2 of 0, BLOCK, 2*BLOCK, 3*BLOCK; thorough: all) x "
                "{zeros, text, random}, written in pieces of {all,1,7,100,255,256,257,300,512} bytes at levels {0,1,5,9,11}, each with a random 30-op history of "
                "reads (until n bytes or end of stream, n up to 3*BLOCK) and seeks from start/current/end biased to block edges +-1, 0 and the end; one history "
                "in five also gets three out-of-range seeks (model correspondence only). raw: offsets {0,1,3,8,40} x body lengths 0..199, same histories. "
                "stack: compression over encryption over raw over header++layers, 60 (quick) / 240 (thorough) plaintexts of 0..3*BLOCK+20 bytes. "
                "cw: 150 (quick) / 600 (thorough) sequences of 0-6 single write calls of sizes {0, 1, BLOCK-1, BLOCK, BLOCK+1, 2*BLOCK+5, random} then finalize "
                "(accepted counts, number of blocks and last_block_size of the real footer against the writer model). "
                "a case is non-trivial when the plaintext is non-empty; distinct = distinct (inputs, history)",
        "exhaustive": {"quick": False, "thorough": False},
        "explanation": "theorems: encryption-layer, compression-layer and raw-layer readers each refine a cursor over any inner stream refining a cursor "
                       "(all whences, any read sizes, every length incl. 0 and multiples of the block size); opening establishes the invariant (footer parsed back); "
                       "Refines composes for the stack of ArchiveReader::from_config; the compression writer is canonical; SizesInfo kernels regenerated from the "
                       "source equal the model's. correspondence: per-op status, returned value, stream_position and bytes of the real readers equal the model's, "
                       "the model parsing the REAL footer and using the real compressed block boundaries (block plaintexts decoded by the brotli crate directly); "
                       "for the encryption layer also inner position, chunk number, cache position and length",
        "assumptions": ["fewer than 2^32-2 chunks per stream (current_chunk_number is a u32)",
                        "the cipher enters as an arbitrary keystream/tag function; observables compared do not depend on it",
                        "brotli enters as dec : bytes -> bytes with dec (comp x) = x (decompressing one block's compressed bytes yields that block); not re-implemented",
                        "C11_comp_stream_reader_refines / C11_comp_stream_agrees_whole_block (work package fsstack): the refined model whose decompressor STREAMS (CompLayerS.v: lazy input through Take, brotli-decompressor's buffer policy, abstract decoder step) refines a cursor over the plaintext too, under the DecoderLaws of CompFailSafeProofs.v, every block of the wire being a complete stream decoding to its slice, and NoNmiAtEnd (the decoder does not ask for input once a complete stream is on offer; needed for empty-buffer reads only; observed on the real decoder by job c08-stack); so every theorem stated for a stream refining a cursor holds of it",
                        "compression layer: |plain| < 2^63 (seek offsets are i64), footer 12+4*blocks bytes below 2^32 and below the bincode limit, compressed blocks below 4 GiB",
                        "the inner position of the compression reader while a decompressor is live is unspecified by the code and not observed",
                        "64-bit target: usize::try_from(u64) never fails"],
    },
    "C09": {
        "jobs": lambda tier: [
            J("scaled", "witness --only C09"),
            J("scaled", "c09"),
        ],
        "rule": "scaled name limit (FILENAME_MAX_SIZE=48): EVERY call sequence of length <= 3 (quick; length 4 sampled 1/16 "
                "in thorough) over a 29-call alphabet {start x6 names (fresh, second, empty, max, max+1, multi-byte name of <= max characters but > max bytes), append x {open, "
                "other, never-issued id} x {size 0, exact, short, long source}, end x3 ids, add x3 names x {exact, short}, "
                "flush, finalize}, plus random sequences of 4..40 calls; non-trivial = at least two calls or a refused call; "
                "distinct = distinct sequence",
        "exhaustive": {"quick": True, "thorough": True},
        "explanation": "theorems: refused call is a no-op on the whole writer state, refused calls erasable from any sequence, "
                       "short source never Ok; correspondence: result of every call, exact block stream bytes and the footer "
                       "map of the real ArchiveWriter (no layers) equal the model's (concrete SHA-256 in Coq)",
        "assumptions": ["the destination accepts every write (C13 lifts this)", "sha2::Sha256 equals FIPS 180-4 (Concrete/Sha256.v, KATs)"],
    },
    "C01": {
        "jobs": lambda tier: [
            J("scaled", "c01", imports="Base Stream Inst Run RunHistStack"),
            J("scaled", "c01-header", imports="Base Stream Inst Run RunC01"),
            J("prod", "c01-header", imports="Base Stream Inst Run RunC01"),
        ],
        "run_modules": ["RunC01", "RunHistStack"],
        "rule": "scaled constants: generated writing plans (1-4 files, 0-7 pieces of boundary sizes around CIPHERBUF/CHUNK/BLOCK, "
                "random interleaving, names incl. empty/unicode/max-length, 4 layer combinations, levels {0,1,5,9,11}, 1-3 recipients, "
                "reader holding any one key), plus EVERY interleaving of up to 5 (quick) / 6 (thorough) pieces of two files with piece sizes {0, 3} "
                "(layer-less; files started up front, and for shorter sequences also started lazily; 1704 / 6824 plans); non-trivial = at least one content byte; distinct = distinct (plan, read history); c01-header (both flavours): 72 (216) real archives x 4 layer "
                "combinations x 1-3 recipients: header bytes vs the model's dump_header (oracle mode for the ephemeral scalar), and read_header + load_config "
                "with four candidate key lists vs the library",
        "exhaustive": {"quick": False, "thorough": False},
        "explanation": "",
        "assumptions": [],
    },
    "C16": {
        "jobs": lambda tier: [
            J("prod", "c16", needs_repo_bins=["mlar"]),
            J("prod", "c16-symlink", needs_repo_bins=["mlar"]),
            # "extracted beneath it with exactly their content", whole-archive form, members whose
            # runs are separated by more than the writer pool's 1000 other members (shared with C12)
            J("prod", "c12-cli", needs_repo_bins=["mlar"]),
        ],
        "rule": "c16: member-name sets from the path grammar: EVERY name of depth <= 2 (quick) / <= 3 (thorough) over 11 component kinds "
                "('.', '..', normal, empty, unicode, 255 and 256 bytes, '...', absolute markers) x leading/trailing separator, "
                "each together with a benign member, plus random sets of 1-4 names of depth <= 4; forms cycle over {linear, glob '*', one listed "
                "name}; output directory argument relative/absolute, existing/absent. c16-symlink: output directory pre-populated with "
                "out/link -> ../sibling, out/deep/l2 -> ../../sibling/keepdir, out/flink -> ../outside.txt, out/dlink -> ../nowhere.txt (dangling); 30 (quick) / 120 (thorough) random sets of "
                "1-4 of 22 member names routed through the links (existing and missing directories behind them, the links themselves, a link to a "
                "file used as a directory, '..' spellings) plus a benign member, random archive order, the three forms; every case is non-trivial; "
                "distinct = distinct (set, form); c12-cli: whole-archive extraction of 1001 / 1300 interleaved members, content compared",
        "exhaustive": {"quick": True, "thorough": True},
        "explanation": "theorems: on ANY model file system (directories, files, symbolic links with relative/absolute targets anywhere) both "
                       "extraction forms leave every regular file outside the output directory untouched and create none there, every touched "
                       "file has a physical path beneath it (extract_confined_with_symlinks, touched_*_beneath); filter-based and "
                       "canonical-check-based derivations; benign members with a clear way extracted exactly; D23 regression witness (the "
                       "pre-repair code is refuted by computation). correspondence: the regular files (path, content) the real `mlar extract` "
                       "leaves beneath the output directory equal the model's extract_all / extract_linear on the same members (c16), and with the "
                       "pre-existing links the WHOLE sandbox snapshot (files with content, directories, symbolic links, exit status) equals the "
                       "model's (c16-symlink); a recursive snapshot shows no file outside changed",
        "assumptions": ["no other process modifies the file system during the extraction (no link can appear between a file's creation and "
                        "its append-mode reopen within one run: no operation of the model creates a link)",
                        "Linux limits NAME_MAX=255, PATH_MAX=4096, 40 symbolic links per resolution in the model (the kernel counts the links of "
                        "one open() together, the model gives the parent and the final chain a budget each: only the ELOOP threshold differs)"],
        "trusted_base": ["std::path::Path::components modelled in Path.v (56 examples generated from the real rustc output)",
                         "path_resolution(7), mkdir, open(O_CREAT|O_TRUNC / O_APPEND), lstat, std::fs::create_dir_all as modelled in Path.v "
                         "(validated on the c16-symlink sandbox snapshots and the rust/cf.rs scenarios)"],
    },
    "C18": {
        "jobs": lambda tier: [
            J("prod", "c18", script="tools/keys/c18_job.py", timeout=1800),
        ],
        "rule": "corpus of tools/keys/gen_corpus.py: sample keys, generated X25519/Ed25519 keys in DER and PEM, EVERY single-byte mutation "
                "(00, ff, +1, -1, ^80) and EVERY truncation of the 48-byte private and 44-byte public DER (also inside PEM), hand-made DER shapes, "
                "PEM line widths 1..76/no wrap x CRLF/LF, whitespace/garbage, concatenations of 1-5 keys, PEM files holding two blocks, random strings; quick keeps every third "
                "input of the two largest mutation sweeps; non-trivial = non-empty input; distinct = distinct input",
        "exhaustive": {"quick": False, "thorough": True},
        "explanation": "theorems: export/parse round trip, base64/PEM round trip for every line width, many-keys order, totality (never Crash) "
                       "of all parsers on every byte string; correspondence: outcome class and the 32 key bytes of the three real parse functions "
                       "equal the model's on every corpus input; a parser that ACCEPTS an input the model (Keys.v, where 'key file' is defined for the theorems) refuses, or returns other octets, "
                       "fails the property's own oracle ('on any other input the parsers return an error'); curve conversions (SHA-512 clamp, Edwards->Montgomery) are parameters of the "
                       "model (applied by the job script; Concrete/Ed25519.v proves the pair-match KATs)",
        "assumptions": ["der-parser 10 / asn1-rs 0.7 / pem 3.0.5 / base64 0.22 behaviour as modelled in Keys.v (validated on 5.8k inputs)",
                        "Ed25519->X25519 conversion correctness is curve mathematics (sampled: 24/24 pairs; 2 in-Coq KATs), not proved"],
    },
}

# per-property configuration modules: tools/props/<ID>.py defining CFG (same shape as above)
import glob as _glob, importlib.util as _ilu, os as _os
for _f in sorted(_glob.glob(_os.path.join(_os.path.dirname(_os.path.abspath(__file__)), "props", "C??.py"))):
    _spec = _ilu.spec_from_file_location("propcfg_" + _os.path.basename(_f)[:-3], _f)
    _m = _ilu.module_from_spec(_spec)
    _m.J = J
    _spec.loader.exec_module(_m)
    PROPS[_os.path.basename(_f)[:-3]] = _m.CFG
