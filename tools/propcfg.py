"""Per-property configuration of the check: harness jobs per tier, evidence texts."""


def J(flavour, cmd, **kw):
    d = {"flavour": flavour, "cmd": cmd}
    d.update(kw)
    return d


HOOK_COMMITS = [
    "verif hook: cargo feature mla_verif (scaled layer size constants, test-only constructors/accessors); no change with the feature off",
    "verif hook: scaled FILENAME_MAX_SIZE under the mla_verif feature (no change with the feature off)",
]
NOT_APPLICABLE = {}

PROPS = {
    "C11": {
        "jobs": lambda tier: [
            J("scaled", "witness --only C11"),
            J("scaled", "c11-enc"),
        ],
        "rule": "scaled constants (CHUNK=64): every plaintext length 0..2*CHUNK+20 (quick) / 0..4*CHUNK+20 x4 (thorough), "
                "each with a random 30-op in-range history of single reads and seeks from start/current/end biased to chunk "
                "edges; a case is non-trivial when the plaintext is non-empty; distinct = distinct (plaintext, history)",
        "exhaustive": {"quick": False, "thorough": False},
        "explanation": "theorems: encryption-layer reader refines a cursor over any inner stream refining a cursor "
                       "(all whences, any read sizes, every length); correspondence: per-op result, inner position, chunk "
                       "number, cache position and length of the real EncryptionLayerReader equal the model's",
        "assumptions": ["fewer than 2^32-2 chunks per stream (current_chunk_number is a u32)",
                        "the cipher enters as an arbitrary keystream/tag function; observables compared do not depend on it"],
    },
    "C09": {
        "jobs": lambda tier: [
            J("scaled", "witness --only C09"),
            J("scaled", "c09"),
        ],
        "rule": "scaled name limit (FILENAME_MAX_SIZE=48): EVERY call sequence of length <= 3 (quick; length 4 sampled 1/16 "
                "in thorough) over a 28-call alphabet {start x5 names (fresh, second, empty, max, max+1), append x {open, "
                "other, never-issued id} x {size 0, exact, short, long source}, end x3 ids, add x3 names x {exact, short}, "
                "flush, finalize}, plus random sequences of 4..40 calls; non-trivial = at least two calls or a refused call; "
                "distinct = distinct sequence",
        "exhaustive": {"quick": True, "thorough": True},
        "explanation": "theorems: refused call is a no-op on the whole writer state, refused calls erasable from any sequence, "
                       "short source never Ok; correspondence: result of every call, exact block stream bytes and the footer "
                       "map of the real ArchiveWriter (no layers) equal the model's (concrete SHA-256 in Coq)",
        "assumptions": ["the destination accepts every write (C13 lifts this)", "sha2::Sha256 equals FIPS 180-4 (Concrete/Sha256.v, KATs)"],
    },
}
