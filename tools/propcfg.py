"""Per-property configuration of the check: harness jobs per tier, evidence texts."""


def J(flavour, cmd, **kw):
    d = {"flavour": flavour, "cmd": cmd}
    d.update(kw)
    return d


HOOK_COMMITS = [
    "verif hook: cargo feature mla_verif (scaled layer size constants, test-only constructors/accessors); no change with the feature off",
    "verif hook: scaled FILENAME_MAX_SIZE under the mla_verif feature (no change with the feature off)",
]
NOT_APPLICABLE = {}

PROPS = {
    "C11": {
        "jobs": lambda tier: [
            J("scaled", "witness --only C11"),
            J("scaled", "c11-enc"),
        ],
        "rule": "scaled constants (CHUNK=64): every plaintext length 0..2*CHUNK+20 (quick) / 0..4*CHUNK+20 x4 (thorough), "
                "each with a random 30-op in-range history of single reads and seeks from start/current/end biased to chunk "
                "edges; a case is non-trivial when the plaintext is non-empty; distinct = distinct (plaintext, history)",
        "exhaustive": {"quick": False, "thorough": False},
        "explanation": "theorems: encryption-layer reader refines a cursor over any inner stream refining a cursor "
                       "(all whences, any read sizes, every length); correspondence: per-op result, inner position, chunk "
                       "number, cache position and length of the real EncryptionLayerReader equal the model's",
        "assumptions": ["fewer than 2^32-2 chunks per stream (current_chunk_number is a u32)",
                        "the cipher enters as an arbitrary keystream/tag function; observables compared do not depend on it"],
    },
    "C09": {
        "jobs": lambda tier: [
            J("scaled", "witness --only C09"),
            J("scaled", "c09"),
        ],
        "rule": "scaled name limit (FILENAME_MAX_SIZE=48): EVERY call sequence of length <= 3 (quick; length 4 sampled 1/16 "
                "in thorough) over a 29-call alphabet {start x6 names (fresh, second, empty, max, max+1, multi-byte name of <= max characters but > max bytes), append x {open, "
                "other, never-issued id} x {size 0, exact, short, long source}, end x3 ids, add x3 names x {exact, short}, "
                "flush, finalize}, plus random sequences of 4..40 calls; non-trivial = at least two calls or a refused call; "
                "distinct = distinct sequence",
        "exhaustive": {"quick": True, "thorough": True},
        "explanation": "theorems: refused call is a no-op on the whole writer state, refused calls erasable from any sequence, "
                       "short source never Ok; correspondence: result of every call, exact block stream bytes and the footer "
                       "map of the real ArchiveWriter (no layers) equal the model's (concrete SHA-256 in Coq)",
        "assumptions": ["the destination accepts every write (C13 lifts this)", "sha2::Sha256 equals FIPS 180-4 (Concrete/Sha256.v, KATs)"],
    },
    "C01": {
        "jobs": lambda tier: [
            J("scaled", "c01"),
        ],
        "rule": "scaled constants: generated writing plans (1-4 files, 0-7 pieces of boundary sizes around CIPHERBUF/CHUNK/BLOCK, "
                "random interleaving, names incl. empty/unicode/max-length, 4 layer combinations, levels {0,1,5,9,11}, 1-3 recipients, "
                "reader holding any one key); non-trivial = at least one content byte; distinct = distinct (plan, read history)",
        "exhaustive": {"quick": False, "thorough": False},
        "explanation": "",
        "assumptions": [],
    },
    "C16": {
        "jobs": lambda tier: [
            J("prod", "c16", needs_repo_bins=["mlar"]),
        ],
        "rule": "member-name sets from the path grammar: EVERY name of depth <= 2 (quick) / <= 3 (thorough) over 11 component kinds "
                "('.', '..', normal, empty, unicode, 255 and 256 bytes, '...', absolute markers) x leading/trailing separator, "
                "each together with a benign member, plus random sets of 1-4 names of depth <= 4; forms cycle over {linear, glob '*', one listed "
                "name}; output directory argument relative/absolute, existing/absent; every case is non-trivial; distinct = distinct (set, form)",
        "exhaustive": {"quick": True, "thorough": True},
        "explanation": "theorems: filter-based and canonical-check-based confinement on a model file system, benign members extracted "
                       "exactly; correspondence: the set of files (path, content) the real `mlar extract` leaves beneath the output "
                       "directory equals the model's extract_all / extract_linear on the same members, and a recursive snapshot of the "
                       "sandbox shows nothing else changed",
        "assumptions": ["the output directory contains no symbolic link before extraction (the property quantifies over member names)",
                        "Linux limits NAME_MAX=255, PATH_MAX=4096 in the model"],
        "trusted_base": ["std::path::Path::components modelled in Path.v (56 examples generated from the real rustc output)"],
    },
    "C18": {
        "jobs": lambda tier: [
            J("prod", "c18", script="tools/keys/c18_job.py", timeout=1800),
        ],
        "rule": "corpus of tools/keys/gen_corpus.py: sample keys, generated X25519/Ed25519 keys in DER and PEM, EVERY single-byte mutation "
                "(00, ff, +1, -1, ^80) and EVERY truncation of the 48-byte private and 44-byte public DER (also inside PEM), hand-made DER shapes, "
                "PEM line widths 1..76/no wrap x CRLF/LF, whitespace/garbage, concatenations of 1-5 keys, random strings; quick keeps every third "
                "input of the two largest mutation sweeps; non-trivial = non-empty input; distinct = distinct input",
        "exhaustive": {"quick": False, "thorough": True},
        "explanation": "theorems: export/parse round trip, base64/PEM round trip for every line width, many-keys order, totality (never Crash) "
                       "of all parsers on every byte string; correspondence: outcome class and the 32 key bytes of the three real parse functions "
                       "equal the model's on every corpus input; curve conversions (SHA-512 clamp, Edwards->Montgomery) are parameters of the "
                       "model (applied by the job script; Concrete/Ed25519.v proves the pair-match KATs)",
        "assumptions": ["der-parser 10 / asn1-rs 0.7 / pem 3.0.5 / base64 0.22 behaviour as modelled in Keys.v (validated on 5.8k inputs)",
                        "Ed25519->X25519 conversion correctness is curve mathematics (sampled: 24/24 pairs; 2 in-Coq KATs), not proved"],
    },
}

# per-property configuration modules: tools/props/<ID>.py defining CFG (same shape as above)
import glob as _glob, importlib.util as _ilu, os as _os
for _f in sorted(_glob.glob(_os.path.join(_os.path.dirname(_os.path.abspath(__file__)), "props", "C??.py"))):
    _spec = _ilu.spec_from_file_location("propcfg_" + _os.path.basename(_f)[:-3], _f)
    _m = _ilu.module_from_spec(_spec)
    _m.J = J
    _spec.loader.exec_module(_m)
    PROPS[_os.path.basename(_f)[:-3]] = _m.CFG
