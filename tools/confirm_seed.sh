#!/bin/bash
# tools/confirm_seed.sh <seeded dir> [test crate dir, default mla]: independent confirmation of a seeded change in a
# scratch worktree: (1) applies, compiles, the unedited suite passes (flaky test_repair_auth_unauth skipped);
# (2) the demonstration fails with the change; (3) passes without it. Writes <dir>/confirm.log, prints a verdict.
D=$(readlink -f "$1"); CR=${2:-mla}
WT=/tmp/seedconf/wt-$(basename $D)
export CARGO_TARGET_DIR=/tmp/seedconf/target${LANE:-} CARGO_NET_OFFLINE=true
mkdir -p /tmp/seedconf
git -C /repo worktree add --detach $WT HEAD >/dev/null 2>&1
LOG=$D/confirm.log; : > $LOG
cd $WT
mkdir -p $CR/tests; cp $D/demo.rs $CR/tests/zz_seed_demo.rs
cargo test -p $(basename $CR) --offline --test zz_seed_demo >>$LOG 2>&1; R0=$?
git apply $D/patch.diff || { echo "PATCH DOES NOT APPLY" | tee -a $LOG; }
cargo test -p $(basename $CR) --offline --test zz_seed_demo >>$LOG 2>&1; R1=$?
rm $CR/tests/zz_seed_demo.rs
cargo test --workspace --offline -- --skip test_repair_auth_unauth >>$LOG 2>&1; R2=$?
cd /; git -C /repo worktree remove --force $WT
echo "$(basename $D): demo without change rc=$R0 (want 0); demo with change rc=$R1 (want !=0); suite with change rc=$R2 (want 0)" | tee -a $LOG
